"""Tokenizer + recursive-descent parser for the Rust subset used by dora-asm/src/x64.rs.
Stdlib only. Anything outside the subset raises ParseError (the caller reports the item as unmodelled).

AST: nested tuples  (kind, ...).
Items:  ('struct', name, fields[(name, ty)], tuple?)   ('enum', name, [variants])
        ('const', name, ty, expr)   ('impl', tyname, [fn...])   ('fn', name, selfkind, params[(name,ty)], ret, body, pub)
Types:  ('ty', name, [args])  e.g. ('ty','u8',[]), ('ty','Option',[('ty','u32',[])]), ('slice', ty), ('array', ty, n)
Stmts:  ('let', name, mut, ty|None, expr) ('expr', e) ('assign', op, lhs, rhs) ('for', pat, e, body) ('while', e, body)
        ('macro', name, [args])
Exprs:  ('lit', int, suffix|None) ('bool', b) ('str', s) ('path', [segs]) ('un', op, e) ('bin', op, a, b) ('cast', e, ty)
        ('field', e, name) ('mcall', e, name, [args]) ('call', pathexpr, [args]) ('index', e, i) ('range', a|None, b|None)
        ('if', cond, then_block, else_block|None) ('iflet', pat, e, then, else) ('match', e, [(pats, body)])
        ('block', [stmts], tail|None) ('structlit', name, [(f, e)]) ('repeat', e, n) ('ref', e) ('macro', name, args)
        ('paren', e)
Patterns: ('plit', int) ('ppath', [segs]) ('pwild',) ('pbind', name) ('ptuple', path, [pats])
"""
import re


class ParseError(Exception):
    pass


TOKEN_RE = re.compile(r"""
    (?P<ws>\s+|//[^\n]*|/\*.*?\*/)
  | (?P<num>0x[0-9a-fA-F_]+|0b[01_]+|[0-9][0-9_]*)(?P<suf>(?:u8|u16|u32|u64|u128|usize|i8|i16|i32|i64|i128|isize))?
  | (?P<id>[A-Za-z_][A-Za-z0-9_]*)
  | (?P<str>"(?:[^"\\]|\\.)*")
  | (?P<op><<=|>>=|\.\.=|::|->|=>|==|!=|<=|>=|&&|\|\||<<|>>|\|=|\+=|-=|&=|\^=|\*=|\.\.|[-+*/%&|^!<>=.,;:(){}\[\]#?$])
""", re.X | re.S)


def tokenize(src):
    toks = []
    pos = 0
    line = 1
    while pos < len(src):
        m = TOKEN_RE.match(src, pos)
        if not m:
            raise ParseError("cannot tokenize at line %d: %r" % (line, src[pos:pos + 20]))
        text = m.group(0)
        if m.group("ws") is None:
            if m.group("num"):
                n = m.group("num").replace("_", "")
                toks.append(("num", (int(n, 0), m.group("suf")), line))
            elif m.group("id"):
                toks.append(("id", text, line))
            elif m.group("str"):
                toks.append(("str", text[1:-1], line))
            else:
                toks.append(("op", text, line))
        line += text.count("\n")
        pos = m.end()
    toks.append(("eof", None, line))
    return toks


class Parser:
    def __init__(self, toks):
        self.t = toks
        self.i = 0

    # -- helpers
    def peek(self, k=0):
        return self.t[self.i + k]

    def at(self, kind, val=None, k=0):
        t = self.t[self.i + k]
        return t[0] == kind and (val is None or t[1] == val)

    def at_op(self, val, k=0):
        return self.at("op", val, k)

    def at_id(self, val=None, k=0):
        return self.at("id", val, k)

    def next(self):
        t = self.t[self.i]
        self.i += 1
        return t

    def expect(self, kind, val=None):
        t = self.next()
        if t[0] != kind or (val is not None and t[1] != val):
            raise ParseError("line %d: expected %s %r, got %r" % (t[2], kind, val, t[1]))
        return t

    def eat_op(self, val):
        if self.at_op(val):
            self.i += 1
            return True
        return False

    def eat_id(self, val):
        if self.at_id(val):
            self.i += 1
            return True
        return False

    def skip_balanced(self, open_, close):
        depth = 0
        while True:
            t = self.next()
            if t[0] == "eof":
                raise ParseError("unbalanced")
            if t[0] == "op" and t[1] == open_:
                depth += 1
            elif t[0] == "op" and t[1] == close:
                depth -= 1
                if depth == 0:
                    return

    # -- items
    def parse_file(self):
        items = []
        while not self.at("eof"):
            it = self.parse_item()
            if it is not None:
                items.append(it)
        return items

    def parse_attrs(self):
        attrs = []
        while self.at_op("#"):
            start = self.i
            self.next()
            self.eat_op("!")
            self.skip_balanced("[", "]")
            attrs.append(" ".join(str(t[1]) for t in self.t[start:self.i]))
        return attrs

    def parse_item(self):
        attrs = self.parse_attrs()
        is_test = any("cfg ( test )" in a for a in attrs)
        pub = self.eat_id("pub")
        if pub and self.at_op("("):
            self.skip_balanced("(", ")")
        if self.eat_id("use"):
            while not self.eat_op(";"):
                self.next()
            return None
        if self.eat_id("mod"):
            name = self.expect("id")[1]
            if self.eat_op(";"):
                return None
            self.skip_balanced("{", "}")
            return ("mod", name, is_test)
        if self.eat_id("struct"):
            name = self.expect("id")[1]
            if self.at_op("("):
                self.next()
                fields = []
                k = 0
                while not self.at_op(")"):
                    self.eat_id("pub")
                    fields.append(("v%d" % k, self.parse_type()))
                    k += 1
                    self.eat_op(",")
                self.next()
                self.expect("op", ";")
                return ("struct", name, fields, True)
            self.expect("op", "{")
            fields = []
            while not self.at_op("}"):
                self.parse_attrs()
                self.eat_id("pub")
                fn = self.expect("id")[1]
                self.expect("op", ":")
                fields.append((fn, self.parse_type()))
                self.eat_op(",")
            self.next()
            return ("struct", name, fields, False)
        if self.eat_id("enum"):
            name = self.expect("id")[1]
            self.expect("op", "{")
            vs = []
            while not self.at_op("}"):
                self.parse_attrs()
                vs.append(self.expect("id")[1])
                if self.at_op("(") or self.at_op("{") or self.at_op("="):
                    raise ParseError("enum %s: variants with payload/discriminant unsupported" % name)
                self.eat_op(",")
            self.next()
            return ("enum", name, vs)
        if self.eat_id("const"):
            name = self.expect("id")[1]
            self.expect("op", ":")
            ty = self.parse_type()
            self.expect("op", "=")
            e = self.parse_expr()
            self.expect("op", ";")
            return ("const", name, ty, e)
        if self.eat_id("impl"):
            name = self.expect("id")[1]
            if self.at_id("for"):
                raise ParseError("trait impls unsupported")
            self.expect("op", "{")
            fns = []
            while not self.at_op("}"):
                start = self.i
                try:
                    f = self.parse_item()
                except ParseError as ex:
                    # recover: find the fn name, skip its body, record as unparsed
                    self.i = start
                    f = self.recover_fn(str(ex))
                if f is not None:
                    fns.append(f)
            self.next()
            return ("impl", name, fns)
        if self.eat_id("fn"):
            return self.parse_fn(pub)
        t = self.peek()
        raise ParseError("line %d: unsupported item starting with %r" % (t[2], t[1]))

    def recover_fn(self, why):
        self.parse_attrs()
        pub = self.eat_id("pub")
        self.expect("id", "fn")
        name = self.expect("id")[1]
        while not self.at_op("{"):
            self.next()
        self.skip_balanced("{", "}")
        return ("fn", name, None, [], None, None, pub, why)

    def parse_fn(self, pub):
        name = self.expect("id")[1]
        self.expect("op", "(")
        selfkind = None
        params = []
        while not self.at_op(")"):
            if self.at_op("&") and (self.at_id("self", 1) or (self.at_id("mut", 1) and self.at_id("self", 2))):
                self.next()
                if self.eat_id("mut"):
                    selfkind = "mut"
                else:
                    selfkind = "ref"
                self.next()
            elif self.at_id("self") or (self.at_id("mut") and self.at_id("self", 1)):
                m = self.eat_id("mut")
                self.next()
                selfkind = "ownmut" if m else "own"
            else:
                self.eat_id("mut")
                pn = self.expect("id")[1]
                self.expect("op", ":")
                params.append((pn, self.parse_type()))
            self.eat_op(",")
        self.next()
        ret = None
        if self.eat_op("->"):
            ret = self.parse_type()
        body = self.parse_block()
        return ("fn", name, selfkind, params, ret, body, pub, None)

    def parse_type(self):
        if self.eat_op("&"):
            self.eat_id("mut")
            return self.parse_type()
        if self.eat_op("["):
            ty = self.parse_type()
            if self.eat_op(";"):
                n = self.expect("num")[1][0]
                self.expect("op", "]")
                return ("array", ty, n)
            self.expect("op", "]")
            return ("slice", ty)
        if self.eat_op("("):
            self.expect("op", ")")
            return ("ty", "()", [])
        name = self.expect("id")[1]
        while self.eat_op("::"):
            name = self.expect("id")[1]
        args = []
        if self.eat_op("<"):
            while not self.at_op(">"):
                args.append(self.parse_type())
                self.eat_op(",")
            self.next()
        return ("ty", name, args)

    # -- blocks & statements
    def parse_block(self):
        self.expect("op", "{")
        stmts = []
        tail = None
        while not self.at_op("}"):
            if self.eat_op(";"):
                continue
            if self.at_id("let"):
                self.next()
                mut = self.eat_id("mut")
                if self.eat_op("&"):
                    pass
                name = self.expect("id")[1]
                if self.at_op("("):      # let Label(idx) = lbl;
                    raise ParseError("destructuring let unsupported")
                ty = None
                if self.eat_op(":"):
                    ty = self.parse_type()
                self.expect("op", "=")
                e = self.parse_expr()
                self.expect("op", ";")
                stmts.append(("let", name, mut, ty, e))
                continue
            if self.at_id("for"):
                self.next()
                self.eat_op("&")
                pat = self.expect("id")[1]
                self.expect("id", "in")
                e = self.parse_expr(no_struct=True)
                body = self.parse_block()
                stmts.append(("for", pat, e, body))
                continue
            if self.at_id("while"):
                self.next()
                e = self.parse_expr(no_struct=True)
                body = self.parse_block()
                stmts.append(("while", e, body))
                continue
            e = self.parse_expr()
            if self.at_op("=") or (self.at("op") and self.peek()[1] in ("|=", "+=", "-=", "&=", "^=", "*=", "<<=", ">>=")):
                op = self.next()[1]
                rhs = self.parse_expr()
                self.expect("op", ";")
                stmts.append(("assign", op, e, rhs))
                continue
            if self.eat_op(";"):
                stmts.append(("expr", e))
                continue
            if self.at_op("}"):
                tail = e
                break
            if e[0] in ("if", "iflet", "match", "block"):
                stmts.append(("expr", e))
                continue
            t = self.peek()
            raise ParseError("line %d: expected ; or }, got %r" % (t[2], t[1]))
        self.expect("op", "}")
        return ("block", stmts, tail)

    # -- expressions (precedence climbing)
    BINPREC = [
        ["||"], ["&&"], ["==", "!=", "<", ">", "<=", ">="], ["|"], ["^"], ["&"], ["<<", ">>"], ["+", "-"], ["*", "/", "%"],
    ]

    def parse_expr(self, no_struct=False):
        return self.parse_range(no_struct)

    def parse_range(self, ns):
        if self.at_op(".."):
            self.next()
            hi = None
            if not (self.at_op("]") or self.at_op(")") or self.at_op(";")):
                hi = self.parse_bin(0, ns)
            return ("range", None, hi)
        lo = self.parse_bin(0, ns)
        if self.at_op(".."):
            self.next()
            hi = None
            if not (self.at_op("]") or self.at_op(")") or self.at_op(";") or self.at_op("{")):
                hi = self.parse_bin(0, ns)
            return ("range", lo, hi)
        return lo

    def parse_bin(self, level, ns):
        if level == len(self.BINPREC):
            return self.parse_cast(ns)
        lhs = self.parse_bin(level + 1, ns)
        while self.at("op") and self.peek()[1] in self.BINPREC[level]:
            op = self.next()[1]
            rhs = self.parse_bin(level + 1, ns)
            lhs = ("bin", op, lhs, rhs)
        return lhs

    def parse_cast(self, ns):
        e = self.parse_unary(ns)
        while self.at_id("as"):
            self.next()
            e = ("cast", e, self.parse_type())
        return e

    def parse_unary(self, ns):
        if self.at_op("-") or self.at_op("!"):
            op = self.next()[1]
            return ("un", op, self.parse_unary(ns))
        if self.at_op("&"):
            self.next()
            self.eat_id("mut")
            return ("ref", self.parse_unary(ns))
        if self.at_op("*"):
            self.next()
            return self.parse_unary(ns)
        return self.parse_postfix(ns)

    def parse_args(self, close=")"):
        args = []
        while not self.at_op(close):
            args.append(self.parse_expr())
            self.eat_op(",")
        self.next()
        return args

    def parse_postfix(self, ns):
        e = self.parse_primary(ns)
        while True:
            if self.at_op("."):
                self.next()
                if self.at("num"):
                    n = self.next()[1][0]
                    e = ("field", e, "v%d" % n)
                    continue
                name = self.expect("id")[1]
                if self.at_op("::"):       # turbofish
                    self.next()
                    self.skip_balanced("<", ">")
                if self.at_op("("):
                    self.next()
                    e = ("mcall", e, name, self.parse_args())
                else:
                    e = ("field", e, name)
                continue
            if self.at_op("("):
                self.next()
                e = ("call", e, self.parse_args())
                continue
            if self.at_op("["):
                self.next()
                i = self.parse_expr()
                self.expect("op", "]")
                e = ("index", e, i)
                continue
            if self.at_op("?"):
                raise ParseError("`?` unsupported")
            return e

    def parse_primary(self, ns):
        t = self.peek()
        if t[0] == "num":
            self.next()
            return ("lit", t[1][0], t[1][1])
        if t[0] == "str":
            self.next()
            return ("str", t[1])
        if self.at_op("("):
            self.next()
            if self.eat_op(")"):
                return ("unit",)
            e = self.parse_expr()
            self.expect("op", ")")
            return ("paren", e)
        if self.at_op("["):
            self.next()
            first = self.parse_expr()
            if self.eat_op(";"):
                n = self.parse_expr()
                self.expect("op", "]")
                return ("repeat", first, n)
            elems = [first]
            while self.eat_op(","):
                if self.at_op("]"):
                    break
                elems.append(self.parse_expr())
            self.expect("op", "]")
            return ("array", elems)
        if self.at_op("{"):
            return self.parse_block()
        if t[0] == "id":
            if t[1] in ("true", "false"):
                self.next()
                return ("bool", t[1] == "true")
            if t[1] == "if":
                return self.parse_if()
            if t[1] == "match":
                return self.parse_match()
            if t[1] == "return":
                raise ParseError("line %d: early return unsupported" % t[2])
            # path
            segs = [self.next()[1]]
            while self.at_op("::"):
                self.next()
                if self.at_op("<"):
                    self.skip_balanced("<", ">")
                    continue
                segs.append(self.expect("id")[1])
            if self.at_op("!"):          # macro call
                self.next()
                close = {"(": ")", "[": "]", "{": "}"}[self.next()[1]]
                args = self.parse_args(close)
                return ("macro", segs[-1], args)
            if self.at_op("{") and not ns and segs[-1][0].isupper():
                self.next()
                fields = []
                while not self.at_op("}"):
                    fn = self.expect("id")[1]
                    if self.eat_op(":"):
                        fe = self.parse_expr()
                    else:
                        fe = ("path", [fn])
                    fields.append((fn, fe))
                    self.eat_op(",")
                self.next()
                return ("structlit", segs[-1], fields)
            return ("path", segs)
        raise ParseError("line %d: unexpected token %r" % (t[2], t[1]))

    def parse_if(self):
        self.expect("id", "if")
        if self.at_id("let"):
            self.next()
            pat = self.parse_pattern()
            self.expect("op", "=")
            e = self.parse_expr(no_struct=True)
            then = self.parse_block()
            els = None
            if self.eat_id("else"):
                els = self.parse_if() if self.at_id("if") else self.parse_block()
            return ("iflet", pat, e, then, els)
        c = self.parse_expr(no_struct=True)
        then = self.parse_block()
        els = None
        if self.eat_id("else"):
            els = self.parse_if() if self.at_id("if") else self.parse_block()
        return ("if", c, then, els)

    def parse_pattern(self):
        if self.at("num"):
            return ("plit", self.next()[1][0])
        if self.at_op("-") and self.at("num", None, 1):
            self.next()
            return ("plit", -self.next()[1][0])
        if self.at_id("_"):
            self.next()
            return ("pwild",)
        segs = [self.expect("id")[1]]
        while self.eat_op("::"):
            segs.append(self.expect("id")[1])
        if self.at_op("("):
            self.next()
            ps = []
            while not self.at_op(")"):
                ps.append(self.parse_pattern())
                self.eat_op(",")
            self.next()
            return ("ptuple", segs, ps)
        if len(segs) == 1 and segs[0][0].islower():
            return ("pbind", segs[0])
        return ("ppath", segs)

    def parse_match(self):
        self.expect("id", "match")
        e = self.parse_expr(no_struct=True)
        self.expect("op", "{")
        arms = []
        while not self.at_op("}"):
            pats = [self.parse_pattern()]
            while self.eat_op("|"):
                pats.append(self.parse_pattern())
            self.expect("op", "=>")
            if self.at_op("{"):
                body = self.parse_block()
            else:
                body = self.parse_expr()
            self.eat_op(",")
            arms.append((pats, body))
        self.next()
        return ("match", e, arms)


def parse_source(src):
    return Parser(tokenize(src)).parse_file()
