#!/usr/bin/env python3
"""gen_c08_thms — per-method theorems of C08 (sentence 1) over the regenerated AArch64 model.

usage: gen_c08_thms.py <lean-gen-dir> <translator-report.json> [<lean-root>]
called by rs2lean_a64.py after it has written <lean-gen-dir>/A64Asm*.lean (so every `./check C08` run regenerates
the theorems from what arm64.rs says now); can be run by hand as well.

For every public method of `AssemblerArm64` that emits exactly one instruction (all operands registers / immediates /
enums, result unit, not in NOT_SINGLE below) it writes into <lean-gen-dir>/A64Thm<k>.lean

    theorem <method>_ok (operands…) (s s' : AssemblerArm64) (hA : AppendCond s)
        (h : (AssemblerArm64.<method> operands…).run s = .ok ((), s')) :
        ∃ w, s' = emitted s w ∧ Requested (spec "<method>" [operands…]) w

i.e. if the method accepts its operands (any register number incl. 100 = zr / 101 = sp, any immediate, any enum value)
it appends one word and that word decodes under A64/Dec.lean to exactly the instruction A64/Spec.lean requests.
The proof unfolds method -> class encoder, applies the class theorem `<class>_sound` (Props/C08/Cls*.lean), selects
the decoder class by the dispatch lemma `decode_<Class>` (A64/MethodLemmas.lean) and compares operand by operand.
Also writes <lean-gen-dir>/A64Thm.json: {"theorems": [full names], "modules": [...], "skipped": {method: reason}}.
Python 3 stdlib only.
"""
import json
import os
import re
import sys
import zlib

NFILES = 16

# public methods that are not "one instruction from register/immediate operands": own theorems / oracles
NOT_SINGLE = {
    "create_label": "label plumbing", "create_and_bind_label": "label plumbing", "bind_label": "label plumbing",
    "offset": "label plumbing", "align_to": "buffer plumbing", "position": "buffer plumbing",
    "set_position": "buffer plumbing", "set_position_end": "buffer plumbing", "emit_u8": "raw data",
    "emit_u32": "raw data", "emit_u64": "raw data", "emit_u128": "raw data", "finalize": "label resolution",
    "resolve_jumps": "label resolution",
    "adr_label": "branch to label (Props/C08 label theorems)", "b": "branch to label", "bc": "branch to label",
    "cbnz": "branch to label", "cbnz_w": "branch to label", "cbz": "branch to label", "cbz_w": "branch to label",
    "tbnz": "branch to label", "tbz": "branch to label",
    "mov_imm": "mov-immediate sequence (Props/C08 mov theorems)", "mov_imm_w": "mov-immediate sequence",
    "mov_imm_size": "mov-immediate sequence",
}

# single-instruction methods whose theorem the generic proof script does not close (measured 2026-09-24). They stay
# compared by the sweep (decoded word = Spec, checks/c08.py) and are listed in the evidence as `unproved_methods`.
#   and_imm, and_imm_w  need "encode_logical_imm accepts => DecodeBitMasks gives the immediate back" for EVERY immediate;
#                       Props/C08/LogImmRT.lean has only the round trip over the image of DecodeBitMasks
#   addv, cnt           the q/size case analysis of the spec is not closed
#   fcvt_ds, fcvt_sd    decFpDP1's mnemonic chain exceeds the simp step limit
#   lsl_imm, lsl_imm_w  the method computes immr/imms with a local mask; arithmetic bridge missing
#   ldr                 MemOperand operand (scaled offset from a 64-bit value)
# A method that is NOT listed here (e.g. a new one) gets a theorem; if that does not check, the check reports it.
UNPROVED = {
    "and_imm", "and_imm_w", "addv", "cnt", "fcvt_ds", "fcvt_sd", "lsl_imm", "lsl_imm_w", "ldr",
}

# class encoder -> decoder class (dispatch lemma `decode_<X>` and decoder function `dec<X>` of A64/Dec.lean)
CLS_DEC = {
    "addsub_extreg": "AddSubExtReg", "addsub_shreg": "AddSubShReg", "addsub_imm": "AddSubImm", "logical_imm": "LogImm",
    "logical_shreg": "LogShReg", "move_wide_imm": "MoveWide", "bitfield": "Bitfield", "pcrel": "PcRel",
    "uncond_branch_imm": "BImm", "cmp_branch_imm": "CmpBranch", "test_and_branch": "TestBranch",
    "cond_branch_imm": "CondBranch", "exception": "Exception", "system": "System", "system_cls": "System",
    "uncond_branch_reg": "BReg", "ldst_exclusive": "LdStExcl", "atomic_op": "Atomic", "ldst_pair_post": "LdStPair1",
    "ldst_pair": "LdStPair2", "ldst_pair_pre": "LdStPair3", "ldst_regimm": "LdStUImm", "ldst_regoffset": "LdStRegOff",
    "ldst_reg_unscaledimm": "LdStUnscaled", "csel": "CondSel", "dataproc1": "DP1", "dataproc2": "DP2", "dataproc3": "DP3",
    "fp_int": "FpInt", "fp_dataproc1": "FpDP1", "fp_compare": "FpCmp", "fp_dataproc2": "FpDP2",
    "simd_across_lanes": "SimdLanes", "simd_2regs_misc": "SimdMisc",
}


def parse_methods(gen_dir):
    """name -> (params [(name, type)], body text) for every `def AssemblerArm64.<name>` in A64Asm*.lean"""
    res = {}
    for f in sorted(os.listdir(gen_dir)):
        if not re.fullmatch(r"A64Asm\d*\.lean", f):
            continue
        src = open(os.path.join(gen_dir, f)).read()
        for m in re.finditer(r"^def AssemblerArm64\.(\w+)((?: \([^)]*\))*) : SM AssemblerArm64 \((\w+)\) := do\n((?:  .*\n|\n)*?)(?=\n/--|\nend )",
                             src, re.M):
            params = re.findall(r"\((\w+) : ([^)]*)\)", m.group(2))
            res[m.group(1)] = (params, m.group(4), m.group(3))
    return res


def parse_cls_theorems(lean_root):
    """class -> dict(binders=[explicit binder names of `<class>_sound`], fields={param: (lo, len)}, mask, val)"""
    res = {}
    d = os.path.join(lean_root, "DoraModel", "Props", "C08")
    files = [os.path.join(d, f) for f in sorted(os.listdir(d)) if f.endswith(".lean")]
    # `pcrel_sound`, `test_and_branch_sound` live in Props/C08.lean, which imports the generated modules: not usable here
    for p in files:
        src = open(p).read()
        for m in re.finditer(r"^theorem (\w+)_sound((?:\s*\([^)]*\))*)\s*:(.*?):= by", src, re.M | re.S):
            stmt = m.group(3)
            fields = {}
            for lo, ln, par in re.findall(r"w\.extractLsb' (\d+) (\d+) = BitVec\.setWidth \d+ (\w+)\s*(?:∧|$)", stmt):
                fields[par] = (int(lo), int(ln))
            mvs = re.findall(r"w &&& (\d+)#32 = (\d+)#32", stmt)
            mv = re.match(r"(\d+) (\d+)", "%s %s" % mvs[-1]) if mvs else None
            res[m.group(1)] = dict(binders=[b for b, t in re.findall(r"\((\w+) : ([^)]*)\)", m.group(2)) if "=" not in t], fields=fields,
                                   mask=int(mv.group(1)) if mv else 0, val=int(mv.group(2)) if mv else 0)
    return res


def split_args(text):
    """top-level space separated arguments of an application (parentheses respected)"""
    out, cur, depth = [], "", 0
    for ch in text:
        if ch == "(":
            depth += 1
        elif ch == ")":
            depth -= 1
        if ch == " " and depth == 0:
            if cur:
                out.append(cur)
            cur = ""
        else:
            cur += ch
    if cur:
        out.append(cur)
    return out


LIT = {"FLOAT_TYPE_SINGLE": 0, "FLOAT_TYPE_DOUBLE": 1}


def method_mask(cls, bodies, cls_thms):
    """fixed bits of the word a method emits through `cls`: the class' opcode bits plus every field that the (first)
    call of the class encoder in `bodies` fills with a literal. Only a hint for the proof (`bv_decide` checks it)."""
    info = cls_thms[cls]
    mask, val = info["mask"], info["val"]
    m = re.search(r"\bcls\.%s ([^\n]*)" % cls, bodies)
    if not m:
        return mask, val
    args = split_args(m.group(1).strip())
    params = [b for b in info["binders"] if b != "w"]
    for par, a in zip(params, args):
        a = a.strip("()")
        k = LIT.get(a)
        mm = re.fullmatch(r"(\d+)#32", a)
        if mm:
            k = int(mm.group(1))
        if k is not None and par in info["fields"]:
            lo, ln = info["fields"][par]
            fm = ((1 << ln) - 1) << lo
            mask |= fm
            val = (val & ~fm) | ((k << lo) & fm)
    return mask, val


def arg_of(kind, p):
    if kind == "R":
        return ".r %s" % p
    if kind == "F":
        return ".f %s" % p
    if kind == "E:Cond":
        return ".c %s" % p
    if kind == "E:Shift":
        return ".sh %s" % p
    if kind == "E:Extend":
        return ".ex %s" % p
    if kind in ("i32", "i64"):
        return ".n %s.toInt" % p
    if kind in ("u8", "u32", "u64", "usize", "u128"):
        return ".n %s.toNat" % p
    if kind == "M":
        return ".m %s.base %s.offset.toInt" % (p, p)
    raise KeyError(kind)


def callees(name, methods, seen=None):
    """methods reachable from `name` through direct calls (for `unfold`), in call order"""
    seen = [] if seen is None else seen
    body = methods[name][1]
    for c in re.findall(r"AssemblerArm64\.(\w+)", body):
        if c in ("emit_u32",) or c in seen or c not in methods:
            continue
        seen.append(c)
        callees(c, methods, seen)
    return seen


def classes_of(name, methods):
    cl = []
    for n in [name] + callees(name, methods):
        for c in re.findall(r"\b(?:cls|inst)\.(\w+)", methods[n][1]):
            c = {"b_cond_imm": "cond_branch_imm"}.get(c, c)
            if c not in cl:
                cl.append(c)
    return cl


def theorem_text(name, kinds, methods, cls_thms):
    params, body, ret = methods[name]
    if len(params) != len(kinds):
        return None, "operand list of the model and of the report differ"
    binders = " ".join("(%s : %s)" % p for p in params)
    neon = ["(h%s : %s.v.ult 32#8 = true)" % (p, p) for (p, t) in params if t == "NeonRegister"]
    args = ", ".join(arg_of(k, p) for k, (p, _) in zip(kinds, params))
    call = " ".join(p for p, _ in params)
    cl = classes_of(name, methods)
    if not cl:
        return None, "no class encoder is called"
    unknown = [c for c in cl if c not in CLS_DEC or c not in cls_thms]
    bodies = "\n".join(methods[n][1] for n in [name] + callees(name, methods))
    if unknown:
        return None, "class encoder without decoder table entry / class theorem: %s" % ", ".join(unknown)
    unfold = " ".join("AssemblerArm64.%s" % n for n in [name] + callees(name, methods))
    unfold += " inst.b_cond_imm" if "inst.b_cond_imm" in "".join(methods[n][1] for n in [name] + callees(name, methods)) else ""
    enums = [p for (p, t) in params if t in ("Shift", "Cond", "Extend") and not (t == "Extend" and "ldst_regoffset" in cl)]
    cases = "".join(" <;> cases %s" % e for e in enums)
    alts = []
    for c in cl:
        dec = CLS_DEC[c]
        mk, vl = method_mask(c, bodies, cls_thms)
        pre = "regoff_cases <;> " if c == "ldst_regoffset" else ""
        alts.append("(%smethod_pre (%s_sound (h := by assumption)) decode_%s dec%s %d#32 %d#32%s <;> method_fin)"
                    % (pre, c, dec, re.sub(r"^(LdStPair)\d$", r"\1", dec), mk, vl, cases))
    core = alts[0] if len(alts) == 1 else "first\n    | " + "\n    | ".join(alts)
    nsplit = sum(len(re.findall(r"^\s*if .* then$", methods[n][1], re.M)) for n in [name] + callees(name, methods))
    doc = ("/-- `%s`: if the method accepts its operands%s, it appends one word `w`, and `w` decodes under the reference "
           "decoder to exactly the instruction `spec \"%s\"` requests for these operands — for every register number "
           "(incl. 100 = zr, 101 = sp where the instruction can name them), immediate and enum value. -/"
           % (name, " (SIMD/FP register numbers below 32, as `NeonRegister::new` guarantees)" if neon else "", name))
    lines = [doc,
             "theorem %s_ok %s %s (s s' : AssemblerArm64) (hA : AppendCond s)" % (name, binders, " ".join(neon)),
             "    (h : (AssemblerArm64.%s %s).run s = .ok ((), s')) :" % (name, call),
             "    ∃ w, s' = emitted s w ∧ Requested (spec \"%s\" [%s]) w := by" % (name, args),
             "  spec_eval",
             "  unfold %s at h" % unfold]
    lines.append("  method_split h")
    lines.append("  all_goals (%s hA h)" % ("peel_imm" if "encode_addsub_imm" in bodies else "peel"))
    lines.append("  all_goals (%s)" % core.replace("\n    ", " "))
    return "\n".join(lines) + "\n", None


HEADER = """import DoraModel.A64.MethodTac
/-! GENERATED by tools/gen_c08_thms.py (called from tools/rs2lean_a64.py) from dora-asm/src/arm64.rs — do not edit.
One theorem per public single-instruction method of `AssemblerArm64` (C08, sentence 1): the emitted word decodes
under the reference decoder (A64/Dec.lean) to exactly the instruction the specification (A64/Spec.lean) requests.
Part %d of %d (split only so that lake builds the parts in parallel). -/
set_option linter.unusedSimpArgs false
set_option linter.unusedVariables false
-- the budget is per declaration; a method with an enum operand runs the closing script once per constructor
set_option maxHeartbeats 4000000
namespace Dora.A64.C08
open Dora.A64

"""


def write_if_changed(path, text):
    if not os.path.exists(path) or open(path).read() != text:
        open(path, "w").write(text)


def generate(gen_dir, report, lean_root=None, attempt_all=False):
    lean_root = lean_root or os.path.join(os.path.dirname(os.path.dirname(os.path.abspath(__file__))), "lean")
    methods = parse_methods(gen_dir)
    cls_thms = parse_cls_theorems(lean_root)
    todo = []
    skipped = {}
    unproved = []
    for m in report["methods"]:
        n = m["name"]
        if n in NOT_SINGLE:
            skipped[n] = NOT_SINGLE[n]
            continue
        if n not in methods or not m.get("modelled", True):
            skipped[n] = "not in the regenerated model"
            continue
        if m.get("ret") != "unit" or any(k in ("L",) for k in m["kinds"]):
            skipped[n] = "takes a label / returns a value"
            continue
        if "M" in m["kinds"] and re.fullmatch(r"(ldr|str)_mem_[sdbwx]", n):
            skipped[n] = "memory-operand sequence (Props/C08 memory theorems)"
            continue
        if n in UNPROVED and not attempt_all:
            unproved.append(n)
            continue
        txt, why = theorem_text(n, m["kinds"], methods, cls_thms)
        if txt is None:
            skipped[n] = why
            continue
        todo.append((n, txt))
    keep = set()
    # round-robin in source order keeps the expensive families (ldst_*, addsub_*) spread over the parts
    parts = [[] for _ in range(NFILES)]
    for t in todo:      # by a hash of the name: adding or removing one theorem changes one part only
        parts[zlib.crc32(t[0].encode()) % NFILES].append(t)
    modules = []
    for k, part in enumerate(parts):
        if not part:
            continue
        write_if_changed(os.path.join(gen_dir, "A64Thm%d.lean" % k),
                         HEADER % (k + 1, NFILES) + "\n".join(t for _, t in part) + "\nend Dora.A64.C08\n")
        keep.add("A64Thm%d.lean" % k)
        modules.append("DoraModel.Gen.A64Thm%d" % k)
    write_if_changed(os.path.join(gen_dir, "A64ThmAll.lean"),
                     "".join("import %s\n" % m for m in modules) + "import DoraModel.A64.MethodTac\n"
                     "/-! GENERATED by tools/gen_c08_thms.py — imports every per-method theorem module of C08. -/\n")
    for f in os.listdir(gen_dir):
        if re.fullmatch(r"A64Thm\d+\.lean", f) and f not in keep:
            os.unlink(os.path.join(gen_dir, f))
    info = dict(theorems=["Dora.A64.C08.%s_ok" % n for n, _ in todo], modules=modules, skipped=skipped, unproved=unproved,
                by_module={("DoraModel.Gen.A64Thm%d" % k): [n for n, _ in part] for k, part in enumerate(parts) if part})
    write_if_changed(os.path.join(gen_dir, "A64Thm.json"), json.dumps(info, indent=1, sort_keys=True) + "\n")
    return info


if __name__ == "__main__":
    rep = json.load(open(sys.argv[2]))
    info = generate(sys.argv[1], rep, sys.argv[3] if len(sys.argv) > 3 and sys.argv[3] != "--all" else None, attempt_all="--all" in sys.argv)
    print("gen_c08_thms: %d theorems in %d modules, %d single-instruction methods unproved, %d other methods skipped"
          % (len(info["theorems"]), len(info["modules"]), len(info["unproved"]), len(info["skipped"])))
