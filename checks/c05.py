"""C05 — only well-typed programs are compiled, and all of them are.

proof:  lean/DoraModel/Props/C05.lean — the checker `Dora.Typing.check` (lean/DoraModel/Typing/Check.lean) is a
        total function; soundness on the first-order core against the reference interpreter of C01/C02; one
        rejection lemma per mutation operator; exhaustiveness delegated to the C11 model.
tie:    gen/progs.py typed programs (family `gen`) and the augmented ones of gen/c05_mutants.py (family `aug`)
        + single-fault mutants, each printed as Dora source and as typed twin.  The Lean checker `drv_c05`
        gives the verdict of the MODEL; the REAL front end is driven in-process by `h_c05`
        (`check_program`, `emit_program`, bytecode verifier - what `dora compile` does) and through the command
        line (`dora compile -c`: exit status, presence of the package); a sample of the accepted programs is
        compiled by both code generators (`dora compile [--cannon] -S <package>`).

keys:   oracle:accepted-ill-typed:<class>            `dora compile -c` emitted a package for a mutant the model rejects
        oracle:rejected-well-typed:<diagnostic>      a generator program is refused (in-process or by the command)
        oracle:verifier:<message>                    the bytecode emitted for an accepted program fails the verifier
        oracle:internal-error:<backend>:<site>       front end / code generator panics or fails on an accepted program
        oracle:output-after-failure:<class>          failure status but an output file was left behind
        oracle:no-diagnostic:<class>                 failure status without an error message
        corr:lean-vs-frontend:<class>[:lean-accepts] model and front end disagree on the acceptability of a mutant
        corr:lean-rejects-generated:<class>          the model rejects a generator program (the model is wrong)
        corr:soundness:stuck                         a program accepted by the model gets stuck in the reference interpreter
        corr:twin:<what>                             the typed twin cannot be read / outcome differs from the generator's intent
        proof:C05                                    a theorem no longer checks
"""
import concurrent.futures as cf
import os
import re
import shutil
import subprocess
import sys
import time

from . import common as C
from . import c01
from . import c06

sys.path.insert(0, os.path.join(C.VERIF, "gen"))
import c05_mutants as M  # noqa: E402

PROP_MODULE = "DoraModel.Props.C05"
PROP_FILE = "DoraModel/Props/C05.lean"
NPROC = 16
FUEL = 4000
CORPUS = os.path.join(C.VERIF, "corpus", "C05")
LEAN2CLS = dict((v, k) for k, v in M.LEAN_CLASS.items())


def unhex(s):
    return "" if s == "-" else bytes.fromhex(s).decode("utf-8", "replace")


# ----------------------------------------------------------------------------- legs

def run_lean(drv, reqs):
    """one response line per request line (8 processes)"""
    if not reqs:
        return []
    n = min(8, len(reqs))
    chunks = [reqs[i::n] for i in range(n)]

    def one(chunk):
        rc, out, err = C.sh2("ulimit -s unlimited 2>/dev/null || ulimit -s 1000000; exec %s" % drv,
                             stdin="".join(r + "\n" for r in chunk), timeout=1200)
        lines = out.splitlines()
        if len(lines) != len(chunk):
            lines = lines[:len(chunk)] + ["!abort rc=%s %s" % (rc, (err.strip().splitlines() or [""])[-1][:100])] * (len(chunk) - len(lines))
        return lines
    with cf.ThreadPoolExecutor(max_workers=n) as ex:
        res = list(ex.map(one, chunks))
    out = [None] * len(reqs)
    for k in range(n):
        for j, r in enumerate(res[k]):
            out[k + j * n] = r
    return out


def run_front(hbin, texts, tag):
    reqs = ["front " + (t.encode("utf-8").hex() or "-") for t in texts]
    os.makedirs(os.path.join(C.BUILD, "tmp"), exist_ok=True)
    return c06.run_sharded(hbin, reqs, "c05" + tag, nproc=NPROC, per_req_s=60)


def cli_compile(dora, workdir, name, text):
    """`dora compile -c` -> (rc, output exists, stderr+stdout)"""
    d = os.path.join(workdir, name)
    os.makedirs(d, exist_ok=True)
    src = os.path.join(d, "main.dora")
    out = os.path.join(d, "out.dora-package")
    with open(src, "w", encoding="utf-8") as f:
        f.write(text)
    try:
        p = subprocess.run([dora, "compile", "-c", src, "-o", out], cwd=d, stdout=subprocess.PIPE,
                           stderr=subprocess.PIPE, timeout=300)
        rc, err = p.returncode, (p.stdout + p.stderr).decode("utf-8", "replace")
    except subprocess.TimeoutExpired:
        rc, err = 124, "[timeout]"
    # anything the command left behind besides the source counts as output
    left = sorted(f for f in os.listdir(d) if f != "main.dora")
    return rc, left, err, d


def codegen(dora, d, backend):
    """compile the package in `d` with one code generator (assembly only, no link) -> (ok, rc, log)"""
    pkg = os.path.join(d, "out.dora-package")
    out = os.path.join(d, "cg_" + backend)
    cmd = [dora, "compile"] + (["--cannon"] if backend == "cannon" else []) + ["-S", pkg, "-o", out]
    try:
        p = subprocess.run(cmd, cwd=d, stdout=subprocess.PIPE, stderr=subprocess.PIPE, timeout=900)
        rc, log = p.returncode, (p.stdout + p.stderr).decode("utf-8", "replace")
    except subprocess.TimeoutExpired:
        rc, log = 124, "[timeout]"
    ok = rc == 0 and any(f.startswith("cg_" + backend) for f in os.listdir(d))
    return ok, rc, log


def norm_msg(msg):
    """verifier / panic message without the volatile parts (function names, offsets, registers)"""
    msg = re.sub(r" in function \S+", "", msg)
    msg = re.sub(r"BytecodeOffset\(\d+\)", "BytecodeOffset", msg)
    msg = re.sub(r"\br?\d+\b", "N", msg)
    return re.sub(r"[^A-Za-z0-9_:.-]+", "_", msg).strip("_")[:90]


def front_problem(resp):
    """for a program that must be accepted: None or (key, text)"""
    if resp.startswith("ok "):
        return None
    if resp.startswith("errors"):
        return ("rejected", resp)
    if resp.startswith("!verifier"):
        w = resp.split(" ", 2)
        return ("oracle:verifier:" + norm_msg(w[2] if len(w) > 2 else ""), resp)
    if resp.startswith("!panic"):
        w = resp.split(" ", 3)
        site = c06.enclosing_fn(w[2]) if len(w) > 2 else "?"
        return ("oracle:internal-error:frontend:" + site, resp)
    return ("oracle:internal-error:frontend:" + resp.split(" ")[0].lstrip("!"), resp)


def diag_ids(resp):
    m = re.search(r"diag=(\S+)", resp)
    if not m or m.group(1) == "-":
        return []
    return [x.split(":")[0] for x in m.group(1).split(",")]


# ----------------------------------------------------------------------------- corpus

def read_corpus():
    """corpus/C05/<name>.dora, first line `// c05: expect=ok|error[:<class>]`; optional <name>.tsexp twin"""
    res = []
    if not os.path.isdir(CORPUS):
        return res
    for f in sorted(os.listdir(CORPUS)):
        if not f.endswith(".dora"):
            continue
        text = open(os.path.join(CORPUS, f), encoding="utf-8").read()
        m = re.match(r"// c05: expect=(ok|error)(?::(\S+))?", text)
        if not m:
            continue
        tw = os.path.join(CORPUS, f[:-5] + ".tsexp")
        res.append(dict(name=f[:-5], dora=text, expect=m.group(1), cls=m.group(2),
                        tsexp=open(tw).read().strip() if os.path.exists(tw) else None))
    return res


# ----------------------------------------------------------------------------- replay

def replay(ctx):
    """re-run one recorded case: the model's verdict, the in-process front end and the command line"""
    import json
    r = json.load(open(ctx.replay))
    drv, _ = C.lean_exe("drv_c05")
    hbin, _ = C.build_harness("h_c05")
    c01.ensure_pkgs()
    tc = c01.toolchain()
    text = r.get("dora", "")
    if r.get("tsexp"):
        C.log("model:       " + run_lean(drv, ["check " + r["tsexp"]])[0])
    fr = run_front(hbin, [text], "r")[0]
    C.log("front end:   " + fr)
    work = os.path.join(C.BUILD, "tmp", "c05r_%d" % os.getpid())
    os.makedirs(work, exist_ok=True)
    rc, left, err, d = cli_compile(tc["dora"], work, "replay", text)
    C.log("dora compile -c: status %s, files left %s\n%s" % (rc, left, "\n".join(l for l in err.splitlines() if not l.startswith((" ", "warning", "-->")))[:1500]))
    if rc == 0 and r.get("backend"):
        ok, crc, log = codegen(tc["dora"], d, r["backend"])
        C.log("code generator %s: ok=%s status %s\n%s" % (r["backend"], ok, crc, log[-1500:]))
        if not ok:
            ctx.finding(r.get("key", "oracle:internal-error"), dict(kind="replay", of=ctx.replay), "replayed: code generator fails")
    shutil.rmtree(work, ignore_errors=True)
    was_base = "mutation_class" not in r and not str(r.get("name", "")).startswith("corpus/")
    if r.get("key", "").startswith("oracle:") and ((was_base and not fr.startswith("ok ")) or (not was_base and not fr.startswith("errors"))):
        ctx.finding(r["key"], dict(kind="replay", of=ctx.replay, front_end=fr, rc=rc), "replayed: %s" % fr[:200])


# ----------------------------------------------------------------------------- the check

def run(ctx):
    t0 = time.time()
    phases = {}

    def phase(name):
        phases[name] = round(time.time() - t0, 1)
        C.log("[C05 %6.1fs] %s" % (time.time() - t0, name))

    if ctx.replay:
        return replay(ctx)
    quick = ctx.tier == "quick"
    nbase = int(os.environ.get("C05_NBASE", "150" if quick else "600"))
    per_class = 1
    # quick: 4 of the 9 classes per program (rotating), so that every class gets ~nbase*4/9 mutants
    classes_per_prog = int(os.environ.get("C05_CLASSES_PER_PROG", "4" if quick else "9"))
    ncodegen = int(os.environ.get("C05_NCODEGEN", "12" if quick else "60"))
    # the command-line leg runs the (unoptimised) debug build of `dora`: ~10 s CPU per program; sampled in quick
    ncli_base = int(os.environ.get("C05_NCLI_BASE", "30" if quick else "200"))
    ncli_mut = int(os.environ.get("C05_NCLI_MUT", "10" if quick else "100"))       # per class

    # (a) theorems
    po = C.proof_obligations(ctx, PROP_MODULE, PROP_FILE)
    phase("theorems: %d/%d" % (po["discharged"], po["obligations"]))
    if not po["build_ok"] or po["failed"]:
        ctx.finding("proof:C05", dict(kind="proof", failed=po["failed"], log=po.get("build_log_tail", "")),
                    "property theorems do not check: %s" % "; ".join(po["failed"])[:300], no_input=True)

    # (b) builds
    drv, dlog = C.lean_exe("drv_c05")
    hbin, hlog = C.build_harness("h_c05")
    if drv is None or hbin is None:
        ctx.finding("corr:build", dict(kind="build", lean=dlog[-1500:] if drv is None else "", harness=(hlog or "")[-1500:] if hbin is None else ""),
                    "driver or harness does not build", no_input=True)
        ctx.write_evidence("proof", dict(obligations=po["obligations"], discharged=po["discharged"],
                                         checker_cmd=po["checker_cmd"], trusted_base=po["trusted_base"],
                                         evaluations=0, distinct_nontrivial=0, disagreements=0, oracle_failures=0))
        return
    c01.ensure_pkgs()
    tc = c01.toolchain()
    dora = tc["dora"]
    phase("driver, harness, tool chain %s" % tc["hash"])

    # (c) programs
    bases = M.base_programs(ctx.seed, nbase)
    muts = []
    for i, b in enumerate(bases):
        cls = [c for ci, c in enumerate(M.CLASSES) if (ci + i) % len(M.CLASSES) < classes_per_prog]
        muts += M.mutants(b, ctx.seed, per_class, cls)
    corpus = read_corpus()
    phase("generated %d programs, %d mutants; corpus %d" % (len(bases), len(muts), len(corpus)))

    failures = {"oracle": 0, "corr": 0}
    samples = []

    def fail(key, replay, text):
        failures["oracle" if key.startswith("oracle:") else "corr"] += 1
        ctx.finding(key, replay, text)

    def replay_of(x, **kw):
        r = dict(kind="program", name=x.name, dora=x.dora, tsexp=x.tsexp,
                 how_to_replay="h_c05 run <<< 'front <hex of dora>';  dora compile -c main.dora -o out.dora-package;  drv_c05 <<< 'check <tsexp>'")
        if isinstance(x, M.Mutant):
            r.update(base=x.base, mutation_class=x.cls, operator=x.op, mutation=x.what)
        r.update(kw)
        return r

    # ---- model leg
    lean_b = run_lean(drv, ["run %d %s" % (FUEL, b.tsexp) for b in bases])
    lean_m = run_lean(drv, ["check " + m.tsexp for m in muts])
    phase("model verdicts")
    good_bases = []
    outcomes = {}
    for b, r in zip(bases, lean_b):
        w = r.split(" ")
        if w[0] == "ok":
            good_bases.append(b)
            oc = w[1] if len(w) > 1 else "?"
            outcomes[oc.split(":")[0]] = outcomes.get(oc.split(":")[0], 0) + 1
            if oc.startswith("STUCK"):
                fail("corr:soundness:stuck", replay_of(b, lean=r, stuck=unhex(oc.split(":", 1)[1])),
                     "%s: accepted by the checker but the reference interpreter gets stuck: %s" % (b.name, unhex(oc.split(":", 1)[1])))
            elif b.expect and not (oc == b.expect or (b.expect == "fatal" and oc == "fatal")) and oc != "oof":
                fail("corr:twin:outcome", replay_of(b, lean=r, expected=b.expect),
                     "%s: the erased twin ends with %s, the generator intends %s" % (b.name, oc, b.expect))
        elif w[0] == "error":
            fail("corr:lean-rejects-generated:" + w[1], replay_of(b, lean=r, detail=unhex(w[2]) if len(w) > 2 else ""),
                 "%s: the model rejects a generator program: %s %s" % (b.name, w[1], unhex(w[2]) if len(w) > 2 else ""))
        else:
            fail("corr:twin:unreadable", replay_of(b, lean=r), "%s: typed twin not read: %s" % (b.name, r[:200]))
    # mutants: verdict of the model decides what the front end must do
    table = {}           # class -> dict(rejected_both, accepted_both, disagree, still_well_typed, other_class)
    for k in M.CLASSES:
        table[k] = dict(rejected_by_both=0, accepted_by_both=0, disagree=0, still_well_typed=0, model_other_class=0)
    base_ok = set(b.name for b in good_bases)
    checked = []         # (mutant, model class or None=accepts)
    ops_hit = {}
    for m, r in zip(muts, lean_m):
        if m.base not in base_ok:
            continue
        w = r.split(" ")
        if w[0] == "ok":
            table[m.cls]["still_well_typed"] += 1
            checked.append((m, None, r))
        elif w[0] == "error" and w[1] in LEAN2CLS:
            k = LEAN2CLS[w[1]]
            if k != m.cls:
                table[m.cls]["model_other_class"] += 1
                ctx.notes.append("%s (%s): model says %s, operator intends %s" % (m.name, m.op, k, m.cls)) if len(ctx.notes) < 20 else None
            checked.append((m, k, r))
            ops_hit[m.op] = ops_hit.get(m.op, 0) + 1
        elif w[0] == "error":
            # `malformed`: outside the nine classes, nothing is demanded of the front end
            table[m.cls]["model_other_class"] += 1
        else:
            fail("corr:twin:unreadable", replay_of(m, lean=r), "%s: typed twin not read: %s" % (m.name, r[:200]))

    # ---- real front end, in-process
    front_b = run_front(hbin, [b.dora for b in good_bases], "b")
    front_m = run_front(hbin, [m.dora for m, _, _ in checked], "m")
    phase("front end in-process: %d programs, %d mutants" % (len(good_bases), len(checked)))
    names = c06.diag_names()
    diag_hit = {}
    accepted = 0
    fns_total = 0
    for b, r in zip(good_bases, front_b):
        pr = front_problem(r)
        if pr is None:
            accepted += 1
            mm = re.search(r"fns=(\d+)", r)
            fns_total += int(mm.group(1)) if mm else 0
            if len(samples) < 2:
                samples.append(dict(request="front <%s, %d lines>" % (b.name, b.dora.count("\n")), model="ok", front_end=r))
            continue
        key, text = pr
        if key == "rejected":
            ids = sorted(set(names.get(i, i) for i in diag_ids(r)))
            fail("oracle:rejected-well-typed:" + (ids[0] if ids else "?"), replay_of(b, front_end=r, diagnostics=ids),
                 "%s: generator program refused by the front end: %s" % (b.name, ", ".join(ids)))
        else:
            fail(key, replay_of(b, front_end=r), "%s: %s" % (b.name, text[:240]))
    front_verdict = {}
    for (m, k, lr), r in zip(checked, front_m):
        front_verdict[m.name] = r
        rejected = r.startswith("errors")
        for i in diag_ids(r):
            nm = names.get(i, i)
            diag_hit.setdefault(m.cls, {})
            diag_hit[m.cls][nm] = diag_hit[m.cls].get(nm, 0) + 1
        if k is None:
            # the model calls the mutant well typed: the front end has to accept it as well
            if rejected:
                table[m.cls]["disagree"] += 1
                ids = sorted(set(names.get(i, i) for i in diag_ids(r)))
                fail("corr:lean-vs-frontend:%s:lean-accepts" % m.cls, replay_of(m, lean=lr, front_end=r, diagnostics=ids),
                     "%s (%s: %s): the model accepts, the front end reports %s" % (m.name, m.op, m.what, ", ".join(ids)))
            elif r.startswith("ok "):
                table[m.cls]["accepted_by_both"] += 1
            else:
                pr = front_problem(r)
                fail(pr[0] if pr[0] != "rejected" else "corr:lean-vs-frontend:" + m.cls, replay_of(m, lean=lr, front_end=r),
                     "%s (still well typed): %s" % (m.name, r[:240]))
            continue
        if rejected:
            table[k]["rejected_by_both"] += 1
            if len(samples) < 6 and not any(s.get("class") == k for s in samples):
                samples.append(dict(request="front <%s: %s>" % (m.name, m.what), model=lr.split(" ")[0] + " " + lr.split(" ")[1],
                                    front_end=r, diagnostics=[names.get(i, i) for i in diag_ids(r)]))
                samples[-1]["class"] = k
        elif r.startswith("ok "):
            table[k]["disagree"] += 1
            fail("corr:lean-vs-frontend:" + k, replay_of(m, lean=lr, detail=unhex(lr.split(" ")[2]) if len(lr.split(" ")) > 2 else "", front_end=r),
                 "%s (%s: %s): the model rejects (%s), the front end accepts without a diagnostic" % (m.name, m.op, m.what, lr.split(" ")[1]))
        else:
            pr = front_problem(r)
            fail(pr[0], replay_of(m, lean=lr, front_end=r), "%s (%s): front end fails on a mutant: %s" % (m.name, m.op, r[:240]))

    # ---- command line: packages
    work = os.path.join(C.BUILD, "tmp", "c05_%d" % os.getpid())
    shutil.rmtree(work, ignore_errors=True)
    os.makedirs(work)
    def spread(xs, n):
        return xs if n >= len(xs) else [xs[(i * len(xs)) // n] for i in range(n)]
    cli_bases = spread(good_bases, ncli_base)
    cg_programs = set(b.name for b in spread(cli_bases, ncodegen))
    cli_muts = []
    for k in M.CLASSES:
        cli_muts += spread([x for x in checked if x[1] == k], ncli_mut)
    cg_results = []

    def do_base(b):
        rc, left, err, d = cli_compile(dora, work, b.name, b.dora)
        cgs = []
        if rc == 0 and "out.dora-package" in left and b.name in cg_programs:
            for backend in ("cannon", "boots"):
                cgs.append((backend,) + codegen(dora, d, backend))
        shutil.rmtree(d, ignore_errors=True)
        return b, rc, left, err, cgs

    def do_mut(x):
        m, k, lr = x
        rc, left, err, d = cli_compile(dora, work, m.name, m.dora)
        shutil.rmtree(d, ignore_errors=True)
        return m, k, rc, left, err
    try:
        with cf.ThreadPoolExecutor(max_workers=NPROC) as ex:
            # code-generator jobs first: they take longest
            order = sorted(cli_bases, key=lambda b: b.name not in cg_programs)
            fb = [ex.submit(do_base, b) for b in order]
            fm = [ex.submit(do_mut, x) for x in cli_muts]
            base_res = [f.result() for f in fb]
            mut_res = [f.result() for f in fm]
    finally:
        shutil.rmtree(work, ignore_errors=True)
    phase("command line: %d packages, %d mutants, code generators on %d" % (len(base_res), len(mut_res), len(cg_programs)))
    cli_emitted = 0
    for b, rc, left, err, cgs in base_res:
        if rc == 0 and "out.dora-package" in left:
            cli_emitted += 1
        else:
            mp = re.search(r"panicked at ([^\s:]+:\d+)", err)
            if mp and "verifier.rs" in mp.group(1):
                msg = (err.split("\n", 3) + ["", "", ""])[2]
                fail("oracle:verifier:" + norm_msg(msg), replay_of(b, rc=rc, stderr=err[:1500]), "%s: `dora compile -c` dies in the bytecode verifier: %s" % (b.name, msg[:200]))
            elif mp:
                fail("oracle:internal-error:frontend:" + c06.enclosing_fn(mp.group(1).replace("/repo/", "")), replay_of(b, rc=rc, stderr=err[:1500]),
                     "%s: `dora compile -c` panics at %s" % (b.name, mp.group(1)))
            elif rc == 1:
                ids = re.findall(r"^error: ([^\n]*)", err, re.M)
                fail("oracle:rejected-well-typed:cli", replay_of(b, rc=rc, stderr=err[:1500]),
                     "%s: `dora compile -c` refuses a generator program: %s" % (b.name, "; ".join(ids)[:240]))
            else:
                fail("oracle:internal-error:frontend:status-%s" % rc, replay_of(b, rc=rc, stderr=err[:1500]),
                     "%s: `dora compile -c` ends with status %s and no package" % (b.name, rc))
        for backend, ok, crc, log in cgs:
            cg_results.append((b.name, backend, ok))
            if not ok:
                site = c01.crash_site(dict(status="compile-failed", compile_log=log))
                site = site.replace("panic@/repo/", "panic@") or "status-%s" % crc
                fail("oracle:internal-error:%s:%s" % (backend, site), replay_of(b, backend=backend, rc=crc, log=log[-2000:]),
                     "%s: the %s code generator fails on an accepted program (%s)" % (b.name, "baseline" if backend == "cannon" else "optimizing", site))
    cli_rejected = 0
    for m, k, rc, left, err in mut_res:
        if rc == 0 or "out.dora-package" in left:
            if rc == 0:
                fail("oracle:accepted-ill-typed:" + k, replay_of(m, rc=rc, left=left, stderr=err[:800]),
                     "%s (%s: %s): `dora compile -c` succeeds and emits %s for an ill-typed program" % (m.name, m.op, m.what, left))
            else:
                fail("oracle:output-after-failure:" + k, replay_of(m, rc=rc, left=left, stderr=err[:800]),
                     "%s: `dora compile -c` fails (status %s) but leaves %s" % (m.name, rc, left))
            continue
        if left:
            fail("oracle:output-after-failure:" + k, replay_of(m, rc=rc, left=left, stderr=err[:800]),
                 "%s: `dora compile -c` fails (status %s) but leaves %s" % (m.name, rc, left))
        elif rc != 1:
            mp = re.search(r"panicked at ([^\s:]+:\d+)", err)
            fail("oracle:internal-error:frontend:" + (c06.enclosing_fn(mp.group(1).replace("/repo/", "")) if mp else "status-%s" % rc),
                 replay_of(m, rc=rc, stderr=err[:1500]), "%s: `dora compile -c` ends with status %s on an ill-typed program" % (m.name, rc))
        elif not re.search(r"^error: ", err, re.M):
            fail("oracle:no-diagnostic:" + k, replay_of(m, rc=rc, stderr=err[:800]), "%s: failure status without an error diagnostic" % m.name)
        else:
            cli_rejected += 1

    # ---- corpus (minimised past failures and hand-written programs)
    corpus_res = []
    if corpus:
        cf_front = run_front(hbin, [c["dora"] for c in corpus], "c")
        cl = run_lean(drv, ["check " + c["tsexp"] for c in corpus if c["tsexp"]])
        cl_it = iter(cl)
        for c, r in zip(corpus, cf_front):
            lr = next(cl_it) if c["tsexp"] else None
            corpus_res.append(dict(name=c["name"], expect=c["expect"], front_end=r, model=lr))

            class X:
                pass
            x = X()
            x.name, x.dora, x.tsexp = "corpus/" + c["name"], c["dora"], c["tsexp"]
            if lr is not None and (lr.split(" ")[0] == "ok") != (c["expect"] == "ok"):
                fail("corr:lean-vs-corpus:" + c["name"], replay_of(x, lean=lr), "corpus/C05/%s: model says %s, expected %s" % (c["name"], lr[:60], c["expect"]))
            if c["expect"] == "ok":
                pr = front_problem(r)
                if pr:
                    key = pr[0] if pr[0] != "rejected" else "oracle:rejected-well-typed:" + (names.get((diag_ids(r) or ["?"])[0], "?"))
                    fail(key, replay_of(x, front_end=r), "corpus/C05/%s: %s" % (c["name"], r[:240]))
            else:
                if r.startswith("ok "):
                    fail("oracle:accepted-ill-typed:" + (c["cls"] or "corpus"), replay_of(x, front_end=r),
                         "corpus/C05/%s: an ill-typed program is not rejected: %s" % (c["name"], r[:200]))
                elif not r.startswith("errors"):
                    # no diagnostic, but not compiled either: the front end fails later (verifier / panic)
                    pr = front_problem(r)
                    fail(pr[0], replay_of(x, front_end=r, model=lr),
                         "corpus/C05/%s: ill typed under the model's rules (%s), yet the front end reports no "
                         "diagnostic and then fails: %s" % (c["name"], c["cls"], r[:200]))
        phase("corpus")

    # ---- evidence
    nontrivial = len([b for b in good_bases if b.family == "aug" or "trait-object" in b.features
                      or ("generic" in b.features and "lambda" in b.features)])
    feat_hist = {}
    for b in good_bases:
        for f in b.features:
            feat_hist[f] = feat_hist.get(f, 0) + 1
    disagreements = sum(t["disagree"] for t in table.values())
    cov = dict(
        obligations=po["obligations"], discharged=po["discharged"], checker_cmd=po["checker_cmd"],
        trusted_base=po["trusted_base"] + ["gen/progs.py + gen/c05_mutants.py (generator, mutation operators, both printers)",
                                           "harness h_c05, checks/c05.py"],
        theorems=po["theorems"],
        evaluations=len(good_bases) + len(checked),
        distinct_nontrivial=nontrivial,
        rule="a base program is non-trivial when it uses generics together with closures, or trait objects (all `aug` programs do)",
        programs=len(good_bases),
        program_counts=dict(generated=len(bases), accepted_by_model=len(good_bases), accepted_by_front_end=accepted,
                      command_line_runs=len(base_res), packages_emitted=cli_emitted, functions_verified=fns_total,
                      families={"gen": len([b for b in good_bases if b.family == "gen"]), "aug": len([b for b in good_bases if b.family == "aug"])},
                      reference_outcomes=outcomes),
        code_generators=dict(programs=len(cg_programs), runs=len(cg_results), ok=len([1 for _, _, ok in cg_results if ok]),
                             failed=["%s:%s" % (n, b) for n, b, ok in cg_results if not ok]),
        mutants=dict(generated=len(muts), with_model_verdict=len(checked), command_line_runs=len(mut_res),
                     cli_rejected_nothing_emitted=cli_rejected),
        histogram=table,
        operators=ops_hit,
        diagnostics_hit=diag_hit,
        feature_histogram=dict(sorted(feat_hist.items())),
        samples=samples,
        corpus=corpus_res,
        disagreements=disagreements + failures["corr"],
        oracle_failures=failures["oracle"],
        phases_s=phases,
    )
    ctx.write_evidence("proof", cov, assumptions=[
        "the typed twin and the Dora source are printed from the same AST (gen/c05_mutants.py); the Lean checker sees the twin only",
        "soundness is proved for the first-order core stated in Props/C05.lean; for every other accepted generator program "
        "the erased twin is RUN by the reference interpreter and must not get stuck (executed, not proved)",
        "the front end's inference over the full language is compared on generator output, not modelled",
        "the command line (`dora compile -c`, debug build, ~10 s CPU per program) is run on a sample: %d of %d programs, "
        "%d of %d mutants; the code generators on %d of the emitted packages; every program and every mutant goes "
        "through the same front end in-process" % (len(base_res), len(good_bases), len(mut_res), len(checked), len(cg_programs)),
    ])
    C.log("C05: %d/%d theorems; %d programs accepted by model+front end (%d packages, %d code-generator runs, %d ok); "
          "%d mutants rejected by both, %d still well typed, %d disagreements; %d oracle failures; %.0fs"
          % (po["discharged"], po["obligations"], accepted, cli_emitted, len(cg_results), len([1 for _, _, ok in cg_results if ok]),
             sum(t["rejected_by_both"] for t in table.values()), sum(t["still_well_typed"] for t in table.values()),
             disagreements, failures["oracle"], time.time() - t0))
