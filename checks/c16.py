"""C16 — The syntax tree loses nothing of the text.

proof:  lean/DoraModel/Props/C16.lean over the hand models lean/DoraModel/Syntax/{Lex,Tree,Core}.lean
        (TokenKind.lean is regenerated from token.rs / lexer.rs on every run by tools/c16_gen_tokenkind.py)
tie:    (a) `lex`:   real lexer (h_c16) vs Lean lexer (drv_c16) on the same texts, token kinds, starts, errors;
        (b) `build`: Lean lexer + Lean `buildTree` on an event list of the real tree vs the real green tree;
            `ops` (only when /repo carries the cfg-gated op log, hooks/c16_oplog.patch): the real parser's
            core-op sequence replayed by the Lean core model; events and green tree must equal the real ones;
        (c) static API discipline: outside the core functions nothing in parser.rs writes `events`,
            `token_idx` or `leading`;
oracle: on the real output of every `parse` request: root text == input, node length = sum of children,
        child spans tile every node, tokens of the tree == lexed tokens, error spans inside [0,len],
        error-free text reparses to the same tree.  Parser panics are C06's business: counted as
        "no tree produced", printed in the histogram, not a C16 failure.
"""
import hashlib
import json
import os
import re

from . import common as C

PROP_MODULE = "DoraModel.Props.C16"
PROP_FILE = "DoraModel/Props/C16.lean"
PARSER_RS = os.path.join(C.REPO, "dora-parser/src/parser.rs")
GEN_TOOL = os.path.join(C.VERIF, "tools", "c16_gen_tokenkind.py")

# the functions of parser.rs that may write events / token_idx / leading
CORE_FNS = {"common_init", "into_file", "advance_by_all_trivia", "raw_advance", "open",
            "advance_by_trailing_trivia", "advance_by_non_leading_trivia", "close",
            "verif_parse_with_oplog", "verif_log"}
TRIVIA = ("WHITESPACE", "NEWLINE", "LINE_COMMENT", "MULTILINE_COMMENT")


def unhex(s):
    return b"" if s == "-" else bytes.fromhex(s)


def hexs(b):
    return b.hex() if b else "-"


# ----------------------------------------------------------------------------- static API discipline

def api_discipline():
    """Every line of parser.rs (outside `mod tests`) that writes self.events / self.token_idx / self.leading
    must sit in one of the core functions.  Returns list of 'fn:line: text' offenders."""
    bad = []
    fn = None
    write_re = re.compile(
        r"self\.(events|token_idx|leading)\s*(\+=|-=|=(?!=)|\.push|\.pop|\.clear|\.truncate|\.insert|\.remove|"
        r"\.drain|\.extend|\.swap|\.retain|\[[^\]]*\]\s*=(?!=))|&mut\s+self\.(events|token_idx|leading)")
    for i, line in enumerate(open(PARSER_RS, encoding="utf-8"), 1):
        m = re.match(r"\s*(?:pub(?:\([a-z]+\))?\s+)?fn\s+([A-Za-z0-9_]+)", line)
        if m:
            fn = m.group(1)
        code = line.split("//")[0]
        if write_re.search(code) and fn not in CORE_FNS:
            bad.append("%s:%d: %s" % (fn, i, line.strip()))
    return bad


def build_harness_isolated(features=()):
    """Fallback when the shared workspace cannot be loaded because ANOTHER property's crate is half-written
    (`failed to load manifest for workspace member`): build h_c16 + hutil in a private workspace of
    symlinks, same target dir, same flags."""
    import shutil
    ws = os.path.join(C.BUILD, "tmp", "c16_ws")
    os.makedirs(os.path.join(ws, "crates"), exist_ok=True)
    for name in ("c16", "hutil"):
        link = os.path.join(ws, "crates", name)
        if not os.path.islink(link):
            os.symlink(os.path.join(C.HARNESS, "crates", name), link)
    shutil.copy(os.path.join(C.HARNESS, "Cargo.toml"), os.path.join(ws, "Cargo.toml"))
    shutil.copy(os.path.join(C.REPO, "Cargo.lock"), os.path.join(ws, "Cargo.lock"))
    cmd = ["cargo", "build", "--offline", "-p", "h_c16", "--bin", "h_c16"]
    if features:
        cmd += ["--features", ",".join(features)]
    with C.FLock("cargo-harness"):
        rc, out = C.sh(cmd, cwd=ws, timeout=3000,
                       env={"CARGO_TARGET_DIR": C.harness_target_dir(), "RUSTFLAGS": "--cfg %s" % C.GUARD})
    path = os.path.join(C.harness_target_dir(), "debug", "h_c16")
    return (path if rc == 0 and os.path.exists(path) else None), out


def hook_present():
    try:
        return "verif_parse_with_oplog" in open(PARSER_RS, encoding="utf-8").read()
    except OSError:
        return False


# ----------------------------------------------------------------------------- oracles on the real answers

def lex_oracle(text, resp):
    """`lex_partition` + error spans evaluated on the implementation's answer. None = fine."""
    if resp.startswith("!"):
        return "lexer panicked: " + resp[:120]
    try:
        body = resp[3:]
        toks, errs = body.split(" ; ")
        toks = toks.split(",")
    except ValueError:
        return "unparsable lex response"
    if toks[-1] != "EOF":
        return "last token is not EOF"
    starts = []
    for t in toks[:-1]:
        k, s = t.rsplit("@", 1)
        if k == "EOF":
            return "EOF before the end"
        starts.append(int(s))
    n = len(text)
    if n > 0 and (not starts or starts[0] != 0):
        return "first token does not start at 0"
    if n == 0 and starts:
        return "tokens for empty text"
    for a, b in zip(starts, starts[1:]):
        if not a < b:
            return "token starts not strictly increasing (empty token or overlap) at %d" % a
    if starts and starts[-1] >= n:
        return "token start beyond the text"
    for s in starts:
        if s < n and (text[s] & 0xC0) == 0x80:
            return "token start %d is not on a character boundary" % s
    if errs != "-":
        for e in errs.split(","):
            m = re.match(r"^(.*)@(\d+)\+(\d+)$", e)
            if not m:
                return "unparsable error " + e
            if int(m.group(2)) + int(m.group(3)) > n:
                return "lexer error span %s outside the text (len %d)" % (e, n)
    return None


PARSE_FLAGS = ("text", "lens", "tile", "spans", "toks", "errin", "reparse")
FLAG_MEANING = {
    "text": "root.green().to_string() differs from the input",
    "lens": "a node's text_length is not the sum of its children's lengths",
    "tile": "child spans do not tile their node (gap/overlap), or a token span does not address its text",
    "spans": "a node's span() lies outside its full_span()",
    "toks": "the tokens of the tree are not exactly the lexed tokens in order",
    "errin": "an error span lies outside the text",
    "reparse": "error-free text does not reparse to the same tree",
}


def parse_facts(resp):
    """-> (flags dict, nerr, errs hist, nodes hist) of an `ok text=…` line"""
    head, errs, nodes = resp.split(" | ")
    kv = dict(x.split("=") for x in head.split(" ")[1:])

    def hist(s):
        s = s.split("=", 1)[1]
        return {} if s == "-" else {k: int(v) for k, v in (x.split(":") for x in s.split(","))}
    return kv, int(kv["nerr"]), hist(errs), hist(nodes)


# ----------------------------------------------------------------------------- running both sides

class Runner:
    def __init__(self, ctx, hbin, drv):
        self.ctx = ctx
        self.hbin = hbin
        self.drv = drv
        self.tmp = os.path.join(C.BUILD, "tmp")
        os.makedirs(self.tmp, exist_ok=True)
        self.n = 0

    def run_file(self, reqfile):
        """returns (impl_path, model_path) or None after reporting a stream failure"""
        self.n += 1
        ip = os.path.join(self.tmp, "c16_%d_%d.impl" % (os.getpid(), self.n))
        mp = os.path.join(self.tmp, "c16_%d_%d.model" % (os.getpid(), self.n))
        rc1, _, e1 = C.sh2("%s run %s > %s" % (self.hbin, reqfile, ip), timeout=7200)
        rc2, _, e2 = C.sh2("%s < %s > %s" % (self.drv, reqfile, mp), timeout=7200)
        if rc1 != 0 or rc2 != 0:
            self.ctx.finding("corr:stream", dict(kind="correspondence", rc_impl=rc1, rc_model=rc2,
                                                 stderr=(e1 + e2)[-2000:], request_file=reqfile),
                             "harness (rc=%s) or driver (rc=%s) did not finish the request stream" % (rc1, rc2),
                             no_input=True)
            return None
        return ip, mp

    def run_lines(self, reqs):
        rf = os.path.join(self.tmp, "c16_%d_x%d.req" % (os.getpid(), self.n))
        open(rf, "w").write("\n".join(reqs) + "\n")
        r = self.run_file(rf)
        os.unlink(rf)
        if r is None:
            return None
        il = open(r[0]).read().splitlines()
        ml = open(r[1]).read().splitlines()
        os.unlink(r[0])
        os.unlink(r[1])
        return il, ml


def shrink(runner, kind, text, tail, still_bad, rounds=14):
    """Delta-debugging by deleting chunks (on char boundaries); `still_bad(impl, model)` decides.
    One process pair per round (all candidates of the round in one request file)."""
    try:
        s = text.decode("utf-8")
    except UnicodeDecodeError:
        return text
    if kind != "lex":
        return text          # build/ops requests carry an event/op list that belongs to the text
    chunk = max(1, len(s) // 2)
    for _ in range(rounds):
        if len(s) <= 1:
            break
        cands = []
        i = 0
        while i < len(s):
            cands.append(s[:i] + s[i + chunk:])
            i += chunk
        cands = cands[:64]
        reqs = ["%s %s%s" % (kind, hexs(c.encode("utf-8")), tail) for c in cands]
        r = runner.run_lines(reqs)
        if r is None:
            break
        hit = None
        for c, a, b in zip(cands, r[0], r[1]):
            if still_bad(a, b):
                hit = c
                break
        if hit is not None:
            s = hit
            chunk = max(1, min(chunk, len(s) // 2))
        elif chunk == 1:
            break
        else:
            chunk = max(1, chunk // 2)
    return s.encode("utf-8")


def process(ctx, runner, reqfile, stats, label):
    r = runner.run_file(reqfile)
    if r is None:
        return
    ip, mp = r
    family = "?"
    cur_text = None
    cur_info = None
    fi = open(ip)
    fm = open(mp)

    def finish_text():
        # non-trivial rule, per text
        if cur_info is None:
            return
        t, info = cur_text, cur_info
        nontriv = info["lexerr"] or info["nerr"] > 0 or (info["multibyte"] and info["trivia"])
        if nontriv:
            stats["distinct"].add(hashlib.sha1(t).digest()[:12])
        stats["texts"] += 1

    for line in open(reqfile):
        line = line.rstrip("\n")
        if not line:
            continue
        if line.startswith("#"):
            family = line[2:].split(":")[0]
            stats["hist"]["family:" + family] = stats["hist"].get("family:" + family, 0) + 1
            continue
        a = fi.readline().rstrip("\n")
        b = fm.readline().rstrip("\n")
        p = line.split(" ")
        kind = p[0]
        text = unhex(p[1])
        stats["evaluations"] += 1
        stats["hist"]["req:" + kind] = stats["hist"].get("req:" + kind, 0) + 1
        if kind == "lex":
            finish_text()
            cur_text = text
            cur_info = dict(lexerr=False, nerr=0, multibyte=any(x >= 0x80 for x in text), trivia=False)
            stats["bytes"] += len(text)
            if a != b:
                stats["disagreements"] += 1
                o = lex_oracle(text, a)
                small = shrink(runner, "lex", text, "", lambda x, y: x != y)
                ctx.finding("corr:lex", dict(kind="correspondence", request="lex " + hexs(small), family=family,
                                             original_request_len=len(text), impl=a[:2000], model=b[:2000], oracle=o,
                                             text_preview=small[:200].decode("utf-8", "replace"),
                                             how_to_replay="./check C16 --replay <this file>"),
                            "real lexer and Lean lexer disagree on %r%s"
                            % (small[:60], ("; property fails on the implementation: " + o) if o else ""),
                            no_input=(o is None))
                continue
            o = lex_oracle(text, a)
            if o:
                stats["oracle_failures"] += 1
                ctx.finding("oracle:lex-partition", dict(kind="oracle", request=line[:100000], why=o, impl=a[:2000]), o)
            if a.startswith("ok "):
                toks, errs = a[3:].split(" ; ")
                if errs != "-":
                    cur_info["lexerr"] = True
                    for e in errs.split(","):
                        k = "lexerr:" + re.sub(r"[(@].*", "", e)
                        stats["hist"][k] = stats["hist"].get(k, 0) + 1
                cur_info["trivia"] = any(("," + t + "@") in ("," + toks) for t in TRIVIA)
                if len(stats["samples"]) < 3 and errs != "-" and 12 < len(text) < 60:
                    stats["samples"].append(dict(request=line, impl=a, model=b))
        elif kind == "parse":
            if a.startswith("!panic"):
                site = a.split(" ")[1] if len(a.split(" ")) > 1 else "?"
                k = "parser-panic(C06):" + site
                stats["hist"][k] = stats["hist"].get(k, 0) + 1
                stats["panics"] += 1
                continue
            if not a.startswith("ok "):
                stats["oracle_failures"] += 1
                ctx.finding("oracle:parse", dict(kind="oracle", request=line[:100000], impl=a[:500]),
                            "unexpected answer to a parse request: " + a[:100])
                continue
            kv, nerr, eh, nh = parse_facts(a)
            stats["trees"] += 1
            if cur_info is not None:
                cur_info["nerr"] = nerr
            for k, v in eh.items():
                stats["hist"]["err:" + k] = stats["hist"].get("err:" + k, 0) + v
            for k, v in nh.items():
                stats["nodes"][k] = stats["nodes"].get(k, 0) + v
            if kv["reparse"] == "1":
                stats["reparsed"] += 1
            for f in PARSE_FLAGS:
                if kv[f] not in (("1", "-") if f == "reparse" else ("1",)):
                    stats["oracle_failures"] += 1
                    ctx.finding("oracle:" + f, dict(kind="oracle", request=line[:200000], impl=a[:1000], family=family,
                                                    text_preview=text[:300].decode("utf-8", "replace"),
                                                    how_to_replay="./check C16 --replay <this file>"),
                                "on %r: %s" % (text[:60], FLAG_MEANING[f]))
            if len(stats["samples"]) < 6 and nerr > 0 and 20 < len(text) < 80:
                stats["samples"].append(dict(request=line, impl=a))
        elif kind in ("build", "ops"):
            if a.startswith("!panic") and kind == "ops":
                continue
            if a != b:
                stats["disagreements"] += 1
                ctx.finding("corr:" + kind, dict(kind="correspondence", request=line[:200000], impl=a[:3000], model=b[:3000],
                                                 family=family, text_preview=text[:300].decode("utf-8", "replace"),
                                                 how_to_replay="./check C16 --replay <this file>"),
                            "real tree builder%s and the Lean model disagree on %r: impl=%s model=%s"
                            % (" / parser core" if kind == "ops" else "", text[:60], a[:80], b[:80]), no_input=True)
            else:
                stats["tree_matches"] += 1
                if kind == "ops":
                    stats["ops_replayed"] += 1
                    stats["ops_total"] += 0 if p[2] == "-" else p[2].count(",") + 1
                if len(stats["samples"]) < 8 and len(text) < 48 and len(text) > 16:
                    stats["samples"].append(dict(request=line, impl=a, model=b))
    finish_text()
    fi.close()
    fm.close()
    os.unlink(ip)
    os.unlink(mp)


def regenerate():
    """Regenerate Syntax/TokenKind.lean from token.rs / lexer.rs (used by ./check setup)."""
    rc, out = C.sh(["python3", GEN_TOOL])
    if rc != 0:
        raise RuntimeError("token table generator failed:\n" + out[-2000:])

def run(ctx):
    notes = []
    # (0) regenerate the token-kind / keyword / operator tables from the Rust source
    rc, out = C.sh(["python3", GEN_TOOL])
    if rc != 0:
        ctx.finding("corr:tokenkind-gen", dict(kind="correspondence", log=out[-2000:]),
                    "token.rs / lexer.rs could not be read by tools/c16_gen_tokenkind.py: " + out[-200:], no_input=True)
    # (c) static API discipline
    bad = api_discipline()
    if bad:
        ctx.finding("corr:api-discipline", dict(kind="correspondence", offenders=bad[:20]),
                    "parser.rs writes events/token_idx/leading outside the core functions: " + "; ".join(bad[:3]),
                    no_input=True)
    po = C.proof_obligations(ctx, PROP_MODULE, PROP_FILE, hygiene_paths=("DoraModel/Syntax", PROP_FILE))
    drv, dlog = C.lean_exe("drv_c16")
    hook = hook_present()
    feats = ("oplog",) if hook else ()
    hbin, hlog = C.build_harness("h_c16", features=feats)
    if hbin is None and "failed to load manifest for workspace member" in hlog and "crates/c16" not in hlog:
        notes.append("shared harness workspace not loadable (another crate incomplete); built h_c16 in a private workspace")
        hbin, hlog = build_harness_isolated(feats)
    if hbin is None:
        ctx.finding("corr:build", dict(kind="correspondence", log=hlog[-3000:]),
                    "harness does not build against /repo (API of dora-parser changed?)", no_input=True)
    if drv is None:
        if po["build_ok"]:
            raise RuntimeError("driver build failed:\n" + dlog[-3000:])
        notes.append("driver not built: the model does not compile")
    stats = dict(evaluations=0, texts=0, bytes=0, distinct=set(), samples=[], hist={}, nodes={}, disagreements=0,
                 oracle_failures=0, panics=0, trees=0, reparsed=0, tree_matches=0, ops_replayed=0, ops_total=0)
    if hbin and drv:
        runner = Runner(ctx, hbin, drv)
        if ctx.replay:
            r = json.load(open(ctx.replay))
            reqs = []
            if "request" in r:
                reqs.append(r["request"])
                p = r["request"].split(" ")
                if p[0] == "lex":
                    reqs.append("parse " + p[1])
            rf = os.path.join(runner.tmp, "c16_replay_%d.req" % os.getpid())
            open(rf, "w").write("\n".join(reqs) + "\n")
            process(ctx, runner, rf, stats, "replay")
            os.unlink(rf)
        else:
            cdir = os.path.join(C.VERIF, "corpus", "C16")
            if os.path.isdir(cdir):
                for f in sorted(os.listdir(cdir)):
                    if f.endswith(".req"):
                        process(ctx, runner, os.path.join(cdir, f), stats, "corpus")
            if ctx.tier == "quick":
                args = ["300", "4000", "3000", "3000", "30000"]
            else:
                args = ["100000", "50000", "20000", "50000", "100000"]
            gf = os.path.join(runner.tmp, "c16_gen_%d.req" % os.getpid())
            rc, _, err = C.sh2("%s gen %s > %s" % (hbin, " ".join(args), gf),
                               env={"VERIF_SEED": str(ctx.seed)}, timeout=3600)
            if rc != 0:
                raise RuntimeError("h_c16 gen failed: " + err[-2000:])
            process(ctx, runner, gf, stats, "gen")
            os.unlink(gf)
    if not po["build_ok"] or po["failed"]:
        found_input = stats["disagreements"] > 0 or stats["oracle_failures"] > 0
        ctx.finding("proof:C16", dict(kind="proof", failed=po["failed"], log=po.get("build_log_tail", "")),
                    "property theorems of C16 no longer check: %s" % "; ".join(po["failed"])[:400],
                    no_input=not found_input)
    hist = dict(stats["hist"])
    top_nodes = dict(sorted(stats["nodes"].items(), key=lambda kv: -kv[1]))
    cov = dict(obligations=po["obligations"], discharged=po["discharged"], checker_cmd=po["checker_cmd"],
               trusted_base=po["trusted_base"] + [
                   "hand-written models DoraModel/Syntax/{Lex,Tree,Core}.lean tied by the correspondence run below; "
                   "TokenKind.lean (kinds, keyword table, operator characters) regenerated from token.rs/lexer.rs on this run",
                   "harness h_c16, driver drv_c16, checks/c16.py, tools/c16_gen_tokenkind.py",
                   "Rust std contracts: char::is_whitespace = Unicode White_Space list, char::len_utf8, str slicing on char boundaries",
                   "the grammar routines of parser.rs are not modelled: they are an arbitrary client of the core operations "
                   "(static check on this run: nothing else writes events/token_idx/leading: %s)"
                   % ("ok" if not bad else "VIOLATED")],
               theorems=po["theorems"],
               evaluations=stats["evaluations"], distinct_nontrivial=len(stats["distinct"]),
               rule="texts from `h_c16 gen` (seeded): fixed edge cases; every string of length 1-2 over a 45-character "
                    "alphabet and sampled ones of length 3-6; a seeded sample of the repository's .dora files (quick: 300, "
                    "thorough: all) as they are and with CRLF/CR/mixed line endings; token-level mutants of them "
                    "(delete/duplicate/swap/replace/insert/truncate at a char boundary/splice two files/flip delimiters/glue); "
                    "token soups over all token kinds incl. unterminated strings/comments/templates and multi-byte trivia; "
                    "grammar-shaped fragments. Each text gives a `lex` (model vs real), a `parse` (oracle on the real tree) and, "
                    "below the size bound, a `build`/`ops` request (Lean tree builder / core replay vs real tree). "
                    "A text is non-trivial if it produces >= 1 lexer or parser error, or contains a multi-byte character "
                    "together with trivia between tokens; distinct = distinct texts",
               texts=stats["texts"], text_bytes=stats["bytes"], trees_checked=stats["trees"],
               parser_panics_skipped=stats["panics"], reparsed_error_free=stats["reparsed"],
               tree_builder_matches=stats["tree_matches"], op_logs_replayed=stats["ops_replayed"],
               core_ops_replayed=stats["ops_total"], oplog_hook_present=hook,
               api_discipline_offenders=bad,
               histogram=hist, node_kinds=top_nodes, node_kinds_distinct=len(top_nodes),
               samples=stats["samples"] or [dict(note="no sample")],
               disagreements=stats["disagreements"], oracle_failures=stats["oracle_failures"])
    ctx.notes += notes
    ctx.write_evidence("proof", cov, assumptions=[
        "texts are shorter than 2^32 bytes (the lexer's u32 offsets); lengths are natural numbers in the model",
        "the models are hand-written; agreement with dora-parser is checked on the generated texts only",
        "core_protocol speaks about every client of the core operations; that the real grammar routines reach EOF "
        "and never panic is property C06 (panics seen in this run are listed in the histogram)",
        "without the op-log hook the Lean core model (Core.lean) is tied to parser.rs by reading only; "
        "the tree builder is tied through event lists reconstructed from the real tree"
        if not hook else "op-log hook present: core model replays the real parser's operations"])
