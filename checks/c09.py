"""C09 — Mutexes, conditions, joins and atomics keep their promises in every interleaving.

proof:  lean/DoraModel/Props/C09.lean over
          lean/DoraModel/Wait/Hmap.lean  (ObjectHashMap of waitlists.rs, function by function) and
          lean/DoraModel/Wait/Mtx.lean   (lock word / wait queues / blocking flags / join, any number of threads)
tie A:  the REAL ObjectHashMap (waitlists.rs compiled unmodified in harness crate c09_realwait) runs generated
        operation sequences (insert/get/remove/epoch bump/moving collection through the real visit_roots); per
        operation: real result + (capacity, entries, tombstones, `deleted` counter) = Lean model's; real result =
        abstract map's.
        Every real call runs in a child process under a 2 s watchdog (`!hang`).
tie B:  the REAL WaitLists::{block,enqueue,wakeup,wakeup_all} and DoraThread::{block,join,stop,…} (threads.rs,
        unmodified) on the scheduling shim, driven by a Rust transliteration of thread.dora's Mutex/Condition;
        every explored schedule's trace must be accepted by the Lean model (drv_c09), which also evaluates the
        (proved) protocol invariants J/S/W/Q/E/WL on every model state it visits.  thread.dora itself is Dora: its Mutex /
        Condition part is fingerprinted (corpus/C09/thread_dora.fingerprint).
tie C:  small generated Dora programs (mutex counters, atomics, condition ping-pong, joins) compiled with both
        back ends and run (checks/c09_workloads.py).
keys:   oracle:hang:hmap-tombstones-fill-table   real probe loop does not return, table has no EMPTY slot
                                                  (fixed in /repo 527dccb30; the sequence stays in the corpus as regression)
        oracle:hang:hmap / oracle:hmap-wrong-result / oracle:panic:hmap:<…>
        oracle:mutual-exclusion / oracle:deadlock / oracle:join-before-stop / oracle:final-state / oracle:panic:… (h_c09)
        oracle:workload:…                         compiled workload wrong / crashed / timed out ×3
        corr:hmap / corr:trace / corr:build / corr:thread.dora-changed / corr:workload:compile:…
        proof:C09
"""
import hashlib
import json
import os
import re
import shutil
import time

from . import common as C

PROP_MODULE = "DoraModel.Props.C09"
PROP_FILE = "DoraModel/Props/C09.lean"
CORPUS = os.path.join(C.VERIF, "corpus", "C09")
THREAD_DORA = os.path.join(C.REPO, "pkgs/std/thread.dora")
FINGERPRINT = os.path.join(CORPUS, "thread_dora.fingerprint")


# --------------------------------------------------------------------------- thread.dora fingerprint

def thread_dora_fingerprint():
    """sha256 over the token sequence (comments and white space removed) of thread.dora from
    `const UNLOCKED` to the end of the file: the lock-word constants, class Mutex, impl Mutex, class Condition,
    impl Condition — everything lean/DoraModel/Wait/Mtx.lean and the harness' transliteration were read from."""
    txt = open(THREAD_DORA, encoding="utf-8").read()
    i = txt.find("const UNLOCKED")
    if i < 0:
        return "missing:const UNLOCKED"
    body = re.sub(r"//[^\n]*", "", txt[i:])
    body = re.sub(r"/\*.*?\*/", "", body, flags=re.S)
    toks = re.findall(r"[A-Za-z_][A-Za-z_0-9]*|[0-9]+[A-Za-z0-9_]*|\S", body)
    return hashlib.sha256(" ".join(toks).encode()).hexdigest()


# --------------------------------------------------------------------------- hash map leg

def split_real(out):
    real, ab = [], []
    for line in out.splitlines():
        if line.startswith("real "):
            real.append(line[5:].strip())
        elif line == "real":
            real.append("")
        elif line.startswith("abs "):
            ab.append(line[4:].strip())
        elif line == "abs":
            ab.append("")
    return real, ab


def results_only(entries):
    return [e.split("/")[0] for e in entries]


def classify_hang(real_entries):
    """key for a `!hang`: was the table without any EMPTY slot when the probe started?"""
    prev = [e for e in real_entries if "/" in e]
    if prev:
        cap, ent, tomb = [int(x) for x in prev[-1].split("/")[1].split(",")][:3]
        if cap > 0 and ent + tomb == cap:
            return "oracle:hang:hmap-tombstones-fill-table", (cap, ent, tomb)
        return "oracle:hang:hmap", (cap, ent, tomb)
    return "oracle:hang:hmap", None


def hmap_leg(ctx, hbin, drv, reqs, st, tmp, origin):
    """reqs: list of request lines. Compares real / model / abstract."""
    if not reqs:
        return
    reqf = os.path.join(tmp, "hmap_%s.req" % origin)
    with open(reqf, "w") as f:
        f.write("\n".join(reqs) + "\n")
    rc, out, err = C.sh2([hbin, "hmap-run", reqf], timeout=3000)
    real, ab = split_real(out)
    rcm, mout, merr = C.sh2([drv], stdin="\n".join(reqs) + "\n", timeout=3000)
    model = [l.strip() for l in mout.splitlines() if not l.startswith("#")]
    if rc != 0 or len(real) != len(reqs) or len(ab) != len(reqs) or len(model) != len(reqs):
        ctx.finding("corr:hmap-stream", dict(kind="correspondence", rc=rc, rc_model=rcm, n=len(reqs), n_real=len(real),
                                             n_abs=len(ab), n_model=len(model), stderr=(err + merr)[-2000:]),
                    "h_c09 hmap-run / drv_c09 did not answer every request", no_input=True)
        return
    hang_reported = st.setdefault("hang_reported", {})
    for i, req in enumerate(reqs):
        r_e, m_e, a_e = real[i].split(), model[i].split(), ab[i].split()
        nops = len(req.split()) - 1
        st["evaluations"] += 1
        st["hmap_ops"] += len(r_e)
        shape = "ops%s" % ("<=10" if nops <= 10 else "<=40" if nops <= 40 else "<=80" if nops <= 80 else ">80")
        st["hist"][shape] = st["hist"].get(shape, 0) + 1
        caps = [int(e.split("/")[1].split(",")[0]) for e in r_e if "/" in e]
        tombs = [int(e.split("/")[1].split(",")[2]) for e in r_e if "/" in e]
        grew = len(set(caps)) > 1
        if grew or (tombs and max(tombs) > 0):
            st["nontrivial"] += 1
        if grew:
            st["hist"]["hmap_rehash"] = st["hist"].get("hmap_rehash", 0) + 1
        if tombs and max(tombs) > 0:
            st["hist"]["hmap_tombstones"] = st["hist"].get("hmap_tombstones", 0) + 1
        if " R" in req or " e" in req:
            st["hist"]["hmap_epoch_or_reloc"] = st["hist"].get("hmap_epoch_or_reloc", 0) + 1
        if len(st["samples"]) < 2 and grew and tombs and max(tombs) > 0 and nops < 30:
            st["samples"].append(dict(request=req, real=real[i], model=model[i], abstract=ab[i]))
        vio = None
        if r_e and r_e[-1] == "!hang":
            st["hist"]["hmap_hang"] = st["hist"].get("hmap_hang", 0) + 1
            key, summ = classify_hang(r_e)
            st["oracle_failures"] += 1
            vio = key
            if key not in hang_reported:
                # (every trial of the minimiser that still hangs costs the 2 s watchdog: one minimisation per key and run)
                rcmin, mino, _ = C.sh2([hbin, "hmap-min", req], timeout=240)
                mlines = [l for l in mino.splitlines() if l.startswith("hmap")]
                mn = mlines[-1].strip() if (rcmin == 0 and mlines) else req
                hang_reported[key] = mn
                ctx.finding(key, dict(kind="oracle", request=mn, original_request=req, real=real[i], model=model[i],
                                      table_before_hang=dict(capacity=summ[0], entries=summ[1], tombstones=summ[2]) if summ else None,
                                      how_to_replay="./check C09 --replay <this file>  (= h_c09 hmap-run on the request line)"),
                            "the real ObjectHashMap does not return from a probe loop (killed after 2 s): %s ; table before the "
                            "call: capacity/entries/tombstones = %s (no EMPTY slot: overflow() ignores tombstones); minimised "
                            "op sequence: %s" % (r_e[-1], summ, mn))
        elif r_e and r_e[-1] == "!panic":
            st["hist"]["hmap_panic"] = st["hist"].get("hmap_panic", 0) + 1
            # a panic is a finding only where the model (= my reading of the asserts) does not predict one
        # real results must be the abstract map's (as far as the real run got)
        rr, aa = results_only(r_e), a_e
        k = len(rr) - (1 if rr and rr[-1].startswith("!") else 0)
        if rr[:k] != aa[:k]:
            st["oracle_failures"] += 1
            vio = "oracle:hmap-wrong-result"
            ctx.finding("oracle:hmap-wrong-result", dict(kind="oracle", request=req, real=real[i], abstract=ab[i]),
                        "the real ObjectHashMap answers differently from the abstract map Addr -> Option Val: %s" % req[:300])
        if r_e != m_e:
            st["disagreements"] += 1
            ctx.finding("corr:hmap", dict(kind="correspondence", request=req, real=real[i], model=model[i],
                                          property_fails_on_impl=vio),
                        "Lean model of ObjectHashMap and the real one disagree: real=`%s` model=`%s`" % (real[i][:200], model[i][:200]),
                        no_input=vio is None)


# --------------------------------------------------------------------------- protocol leg

def replay_obj(scenario, spur, choices, **kw):
    d = dict(scenario=scenario, spurious_budget=int(spur), choices=choices,
             how_to_replay="./check C09 --replay <this file>   (= h_c09 replay '%s' %s '%s' | head -1 | drv_c09)"
                           % (scenario, spur, choices))
    d.update(kw)
    return d


def run_model(drv, reqfile):
    with open(reqfile) as f:
        rc, out, err = C.sh2([drv], stdin=f.read(), timeout=3000)
    lines = out.splitlines()
    stats = {}
    if lines and lines[-1].startswith("#stats"):
        for kv in lines[-1].split()[1:]:
            k, v = kv.split("=")
            stats[k] = int(v)
        lines = lines[:-1]
    return rc, lines, stats, err


def proto_leg(ctx, hbin, drv, st, tmp):
    cfile = os.path.join(tmp, "corpus.sched")
    with open(cfile, "w") as cf:
        for f in sorted(os.listdir(CORPUS)):
            if f.endswith(".sched"):
                cf.write(open(os.path.join(CORPUS, f)).read() + "\n")
    out_dir = os.path.join(tmp, "proto")
    rc, out, err = C.sh2([hbin, "run", ctx.tier, out_dir, cfile], env={"VERIF_SEED": str(ctx.seed)}, timeout=6000)
    if rc != 0:
        raise RuntimeError("h_c09 run failed rc=%d:\n%s" % (rc, (out + err)[-3000:]))
    summary = json.loads(out.strip().splitlines()[-1])
    st["evaluations"] += summary["schedules"]
    exp = open(os.path.join(out_dir, "expected.resp")).read().splitlines()
    sched = open(os.path.join(out_dir, "sched.txt")).read().splitlines()
    vio_by_sched = {}
    for line in open(os.path.join(out_dir, "violations.jsonl")):
        if not line.strip():
            continue
        v = json.loads(line)
        st["oracle_failures"] += 1
        vio_by_sched[(v["scenario"], str(v["spurious_budget"]), v["choices"])] = v["key"]
        ctx.finding(v["key"], replay_obj(v["scenario"], v["spurious_budget"], v["choices"], kind="oracle",
                                         trace=v.get("trace"), mode=v.get("mode")),
                    "%s  [scenario %s, choices %s]" % (v["text"], v["scenario"], v["choices"][:120]))
    rcm, ml, mstats, merr = run_model(drv, os.path.join(out_dir, "traces.req"))
    accepted = 0
    if rcm != 0 or len(ml) != len(exp):
        ctx.finding("corr:stream", dict(kind="correspondence", rc_model=rcm, n_traces=len(exp), n_model=len(ml), stderr=merr[-2000:]),
                    "drv_c09 did not answer every trace", no_input=True)
    else:
        for i, (a, b) in enumerate(zip(exp, ml)):
            if a == b:
                accepted += 1
                continue
            st["disagreements"] += 1
            sc, spur, ch = sched[i].split(" ")
            key = vio_by_sched.get((sc, spur, ch))
            what = "rejects" if b.startswith("reject") else "ends in a different state than"
            ctx.finding("corr:trace", replay_obj(sc, spur, ch, kind="correspondence", impl=a, model=b, property_fails_on_impl=key),
                        "the model %s the trace of the real wait lists / blocking primitives: impl=`%s` model=`%s`%s"
                        % (what, a, b[:400], ("; the real code also fails the oracle: " + key) if key else ""),
                        no_input=key is None)
    return summary, mstats, accepted


def one_replay(ctx, hbin, drv, r, st, tmp):
    if "request" in r:          # hash-map sequence
        hmap_leg(ctx, hbin, drv, [r["request"]], st, tmp, "replay")
        return
    if "program" in r or "source" in r:
        C.log("replay of a compiled workload: compile and run the `source` of the replay file with the recorded backend/flags")
        return
    sc, spur, ch = r["scenario"], str(r.get("spurious_budget", 0)), r.get("choices", "-")
    rc, out, err = C.sh2([hbin, "replay", sc, spur, ch], timeout=600)
    lines = out.splitlines()
    if rc != 0 or len(lines) < 3:
        ctx.finding("corr:replay", dict(kind="correspondence", stderr=err[-2000:]), "h_c09 replay failed", no_input=True)
        return
    req, exp = lines[0], lines[1]
    C.log("replay: " + lines[2])
    rc2, model, err2 = C.sh2([drv], stdin=req + "\n", timeout=300)
    ml = model.splitlines()
    st["evaluations"] += 1
    vio = [l for l in lines[3:] if l.startswith("violation ")]
    for v in vio:
        key = v.split(" ")[1]
        st["oracle_failures"] += 1
        ctx.finding(key, replay_obj(sc, spur, ch, kind="oracle", trace=req), v[len("violation "):])
    if not ml or ml[0] != exp:
        st["disagreements"] += 1
        ctx.finding("corr:trace", replay_obj(sc, spur, ch, kind="correspondence", trace=req, impl=exp, model=ml[0] if ml else "<none>"),
                    "the model does not accept the real trace: impl=`%s` model=`%s`" % (exp, (ml[0] if ml else "<none>")[:300]),
                    no_input=not vio)
    else:
        C.log("replay: model agrees: " + exp)


# --------------------------------------------------------------------------- main

def run(ctx):
    t_start = time.time()
    def lap(what):
        C.log("[c09 %6.1fs] %s" % (time.time() - t_start, what))
    po = C.proof_obligations(ctx, PROP_MODULE, PROP_FILE, hygiene_paths=("DoraModel/Wait", PROP_FILE))
    lap("theorems built and audited (%d/%d)" % (po["discharged"], po["obligations"]))
    drv, dlog = C.lean_exe("drv_c09")
    hbin, hlog = C.build_harness("h_c09")
    lap("driver and harness built")
    if hbin is None:
        ctx.finding("corr:build", dict(kind="correspondence", log=hlog[-3000:]),
                    "waitlists.rs / threads.rs no longer build against the sync shim and the stand-ins of "
                    "harness/crates/c09/realwait (they import something new, or an API changed)", no_input=True)
    if drv is None:
        raise RuntimeError("driver build failed:\n" + dlog[-3000:])
    st = dict(evaluations=0, disagreements=0, oracle_failures=0, nontrivial=0, hmap_ops=0, hist={}, samples=[], hang_reported={})
    summary, mstats, accepted, wl = {}, {}, 0, None
    wl_status = "NOT RUN: replay" if ctx.replay else "NOT RUN: harness did not build"
    # (c) thread.dora is modelled by hand: any change of its Mutex / Condition part must be looked at
    fp_now = thread_dora_fingerprint()
    fp_ref = open(FINGERPRINT).read().split()[0] if os.path.exists(FINGERPRINT) else "<none>"
    if fp_now != fp_ref:
        ctx.finding("corr:thread.dora-changed", dict(kind="correspondence", fingerprint_now=fp_now, fingerprint_recorded=fp_ref,
                                                     file=THREAD_DORA),
                    "pkgs/std/thread.dora (Mutex / Condition part) differs from the text lean/DoraModel/Wait/Mtx.lean and the "
                    "harness' transliteration were read from; re-inspect, then record the new fingerprint in "
                    "corpus/C09/thread_dora.fingerprint", no_input=True)
    tmp = os.path.join(C.BUILD, "tmp", "c09_%d" % os.getpid())
    if hbin and ctx.replay:
        os.makedirs(tmp, exist_ok=True)
        try:
            one_replay(ctx, hbin, drv, json.load(open(ctx.replay)), st, tmp)
        finally:
            shutil.rmtree(tmp, ignore_errors=True)
    elif hbin:
        os.makedirs(tmp, exist_ok=True)
        try:
            # A. hash map: corpus first, then generated sequences
            corpus_reqs = []
            for f in sorted(os.listdir(CORPUS)):
                if f.endswith(".req"):
                    corpus_reqs += [l.strip() for l in open(os.path.join(CORPUS, f)) if l.startswith("hmap")]
            hmap_leg(ctx, hbin, drv, corpus_reqs, st, tmp, "corpus")
            n = 1500 if ctx.tier == "quick" else 30000
            rc, gen, err = C.sh2([hbin, "hmap-gen", str(n)], env={"VERIF_SEED": str(ctx.seed)}, timeout=600)
            if rc != 0:
                raise RuntimeError("h_c09 hmap-gen failed:\n" + err[-2000:])
            hmap_leg(ctx, hbin, drv, [l for l in gen.splitlines() if l.startswith("hmap")], st, tmp, "gen")
            st["hmap_sequences"] = st["evaluations"]
            lap("hash map: %d sequences, %d operations" % (st["evaluations"], st["hmap_ops"]))
            # B. protocol traces
            summary, mstats, accepted = proto_leg(ctx, hbin, drv, st, tmp)
            lap("protocol: %d schedules, %d distinct traces accepted" % (summary.get("schedules", 0), accepted))
        finally:
            shutil.rmtree(tmp, ignore_errors=True)
        # C. compiled workloads.  The shared tool chain is built (if the tree state is new) BEFORE the leg's clock
        # starts, so a rebuild cannot eat the leg's budget; the leg always gets at least 60 s, and a run that
        # executed no workload says so in the evidence (`workload_leg`).
        try:
            from . import c09_workloads as W
            t_tc = time.time()
            W.toolchain()
            tc_s = time.time() - t_tc
            lap("tool chain ready (%.0f s%s)" % (tc_s, ", rebuilt for this tree state" if tc_s > 30 else ""))
            core = time.time() - t_start - tc_s
            budget = max(60.0, (290 if ctx.tier == "quick" else 1800) - core - 60)
            wl = W.run_workloads(ctx, ctx.tier, time.time() + budget)
            for f in wl.get("failures", []):
                st["oracle_failures"] += 0 if f.get("no_input") else 1
                ro = dict(kind="oracle")
                ro.update(f.get("replay") or {})
                ctx.finding(f["key"], ro, f["text"], no_input=bool(f.get("no_input")))
            st["evaluations"] += wl.get("runs", 0)
            lap("workloads: %d programs, %d runs" % (wl.get("programs", 0), wl.get("runs", 0)))
            wl_status = ("ran %d runs of %d programs (%d skipped at the deadline), tool chain %.0f s"
                         % (wl.get("runs", 0), wl.get("programs", 0), wl.get("skipped", 0), tc_s))
            if wl.get("runs", 0) == 0:
                wl_status = "NOT RUN: 0 workload runs within %.0f s (machine too slow / compiles timed out) - no verdict from leg C" % budget
                C.log("C09: compiled workloads did not run (0 runs); legs A and B carry the verdict")
        except ImportError:
            wl_status = "NOT RUN: checks/c09_workloads.py missing"
        except Exception as ex:      # the workload leg must not hide the verdict of the other legs
            wl_status = "NOT RUN: machinery error %r" % (ex,)
            C.log("C09: compiled workloads: " + wl_status)
    if not po["build_ok"] or po["failed"]:
        found = st["oracle_failures"] > 0
        ctx.finding("proof:C09", dict(kind="proof", failed=po["failed"], log=po.get("build_log_tail", "")),
                    "property theorems of C09 no longer check: %s" % "; ".join(po["failed"])[:400], no_input=not found)
    hist = dict(st["hist"])
    hist.update({"proto_" + k: v for k, v in summary.get("histogram", {}).items()})
    if wl:
        hist.update({"workload_" + k: v for k, v in wl.get("histogram", {}).items()})
    dfs = summary.get("dfs", [])
    cov = dict(obligations=po["obligations"], discharged=po["discharged"], checker_cmd=po["checker_cmd"],
               trusted_base=po["trusted_base"] + [
                   "hand-written models DoraModel/Wait/{Hmap,Mtx}.lean tied to waitlists.rs / threads.rs by differential "
                   "execution (hash map) and trace acceptance (protocol), see counts below",
                   "harness/crates/sync_shim (deterministic scheduler + shim), harness/crates/c09 (stand-ins for gc::Address, "
                   "Handle, Runtime, …; a Rust transliteration of thread.dora's Mutex/Condition), drv_c09, checks/c09.py",
                   "thread.dora is Dora, not Rust: modelled by hand, guarded by a token fingerprint",
                   "parking_lot mutex/condvar contract; sequentially consistent interleaving semantics of the atomics; "
                   "atomic exchange / compare-exchange / fetch-add are single model steps (their machine encodings belong to C07)",
                   "the linked list through (blocking, next) and the (head, tail) table entry are abstracted to lists; the "
                   "acceptor checks that the real code touches the model's tail / head"],
               theorems=po["theorems"],
               not_proved=["a global deadlock_free for programs whose critical sections terminate (needs a notion of program; "
                           "the scheduler reports any deadlock of the real code on the explored schedules instead). All protocol "
                           "invariants K, Q, J, S, W, join, asserts_hold are theorems; drv_c09 additionally evaluates them on every "
                           "model state it visits (DoraModel/Wait/MtxCheck.lean)",
                           "hmap: remove on the never-used capacity-0 table panics (model and code agree; unreachable through WaitLists)"],
               evaluations=st["evaluations"],
               distinct_nontrivial=st["nontrivial"] + summary.get("nontrivial", 0),
               rule="evaluation = one hash-map operation sequence (real vs Lean model vs abstract map, per operation) or one "
                    "complete schedule of the real wait lists / blocking primitives with 2-4 threads (corpus, DFS to the preemption "
                    "bound per scenario, then VERIF_SEED-derived PCT/uniform schedules) or one run of a compiled workload; "
                    "non-trivial = the sequence rehashes or creates tombstones / the trace has a thread asleep in cv_blocking.wait "
                    "that is woken by a notify",
               hmap_sequences=st.get("hmap_sequences", 0), hmap_operations=st["hmap_ops"],
               proto_schedules=summary.get("schedules", 0), traces_validated_against_impl=accepted,
               distinct_traces=summary.get("distinct_traces", 0),
               states=mstats.get("states", 0), transitions=mstats.get("transitions", 0),
               states_note="distinct model states / (state,event) pairs visited while accepting the real traces; the "
                           "executable invariants J,S,W,Q,E,WL were evaluated on each of these states",
               dfs=dfs, exhaustive=bool(dfs) and all(d.get("exhaustive") for d in dfs),
               exhaustive_note="bounded exhaustiveness (per scenario, within its preemption bound) only",
               workload_leg=wl_status,
               workloads=({k: v for k, v in wl.items() if k not in ("failures", "samples")} if wl else None),
               histogram=hist,
               samples=(st["samples"] + (summary.get("samples") or [])[:2] + ((wl or {}).get("samples") or [])[:1])
                       or [dict(note="replay run" if ctx.replay else "no sample")],
               disagreements=st["disagreements"], oracle_failures=st["oracle_failures"])
    ctx.write_evidence("proof", cov, assumptions=[
        "one mutex and one condition in the protocol model; several objects interact only through the wait table "
        "(Hmap refinement) and the wait-table lock",
        "program discipline: unlock_op / Condition::wait are called by the owner (Mutex::lock[T] guarantees it; thread.dora asserts it)",
        "a collection moves objects only while every other thread is parked or at a safepoint (C04); the relocation "
        "scenarios move the mutex / condition object while all other workers are parked in block()",
        "keys are object addresses (> 1, 8-aligned)"])
