"""C02 — both code generators agree and every run ends in a defined way.

proof:  lean/DoraModel/Props/C02.lean — `classify` total; type soundness of the reference semantics on the
        first-order fragment (`Typing.lean`): well-typed programs never get stuck.
tie:    differential: baseline vs optimizing executable on (1) the generated programs of C01 (same cache),
        (2) the hostile-argument family of gen/progs.py `hostile_programs`, (3) the runnable programs under
        /repo/test/rt with deterministic expectations.  Every run must classify as exit / documented trap
        (status + message) / fatal error.
keys:   oracle:disagree:<family>:<case>            the two executables differ in stdout or outcome
        oracle:signal:<family>:<case>:<backend>    signal, Rust panic, unknown status, compiler failure
        oracle:expectation:rt:<file>:<backend>     implementation vs the test file's own `//=` expectation
        (array-new cases use the key form oracle:disagree:array-new:len=<class> /
         oracle:signal:array-new:len=<class>:<backend>)
"""
import hashlib
import json
import os
import random
import re

from . import common as C
from . import c01 as K

G = K.G
PROP_MODULE = "DoraModel.Props.C02"
PROP_FILE = "DoraModel/Props/C02.lean"
RT = os.path.join(C.REPO, "test", "rt")
SKIP_DIRS_QUICK = {"thread", "gc", "swiper", "atomic", "bench", "whiteboard", "io", "stacktrace", "snapshot"}
SKIP_DIRS_ALWAYS = {"io", "stacktrace", "snapshot", "whiteboard", "bench"}
ERR = {"div0": 101, "assert": 102, "array": 103, "nil": 104, "cast": 105, "oom": 106, "stack-overflow": 107,
       "overflow": 109, "shift": 110}


class RtProgram:
    def __init__(self, path):
        self.path = path
        rel = os.path.relpath(path, RT)
        self.rel = rel
        self.name = "rt_" + re.sub(r"[^A-Za-z0-9]+", "_", rel[:-5])
        self.dora = open(path, encoding="utf-8").read()
        self.sexp = None
        self.features = {"rt:" + (rel.split("/")[0] if "/" in rel else "top")}
        self.boundary = False
        self.expect = None
        self.kind = "rt"
        self.family = "rt"
        self.case = rel
        self.skip = None
        self.exp_code = 0
        self.exp_fail = False
        self.backends = list(K.BACKENDS)
        for line in self.dora.splitlines():
            if not line.startswith("//="):
                continue
            a = line[3:].strip().split()
            if not a:
                continue
            if a[0] == "error":
                self.exp_fail = True
                if len(a) == 1:
                    self.exp_code = None
                elif a[1] == "code":
                    self.exp_code = int(a[2])
                else:
                    self.exp_code = ERR.get(a[1])
            elif a[0] in ("boots",):
                self.skip = "needs a special configuration (%s)" % a[0]
            else:
                self.skip = "header `%s` (flags / arguments / platform / timing)" % a[0]
        so = path[:-5] + ".stdout"
        self.exp_stdout = open(so, encoding="utf-8").read() if os.path.exists(so) else None
        if "std::thread" in self.dora or "std::timestamp" in self.dora or "argv(" in self.dora or "std::sleep" in self.dora:
            self.skip = self.skip or "uses threads / time / arguments"


def rt_corpus(tier, seed):
    files = []
    skipped = {}
    for d, _, fs in sorted(os.walk(RT)):
        top = os.path.relpath(d, RT).split("/")[0]
        for f in sorted(fs):
            if not f.endswith(".dora"):
                continue
            if top in (SKIP_DIRS_QUICK if tier == "quick" else SKIP_DIRS_ALWAYS):
                skipped["dir:" + top] = skipped.get("dir:" + top, 0) + 1
                continue
            p = RtProgram(os.path.join(d, f))
            if p.skip:
                skipped[p.skip.split(" (")[0][:40]] = skipped.get(p.skip.split(" (")[0][:40], 0) + 1
                continue
            files.append(p)
    total = len(files)
    if tier == "quick":
        r = random.Random("rt/%s" % seed)
        # always keep the trap-expecting ones in the pool; sample the rest
        files = sorted(r.sample(files, min(24, len(files))), key=lambda p: p.rel)
    return files, skipped, total


def key_for(p, kind, backend=None):
    fam, case = p.family, p.case
    if fam == "array-new":
        case = case.split(":")[0]          # len=<class>
    if kind == "disagree":
        return "oracle:disagree:%s:%s" % (fam, case)
    if kind == "signal":
        return "oracle:signal:%s:%s:%s" % (fam, case, backend)
    return "oracle:expectation:%s:%s:%s" % (fam, case, backend)


content_tag = K.content_tag


def run(ctx):
    po = C.proof_obligations(ctx, PROP_MODULE, PROP_FILE, hygiene_paths=("DoraModel/Mini", PROP_FILE))
    import time
    C.log("[c02] proofs %.0fs" % (time.time() - ctx.t0))
    t0 = time.time()
    tc = K.toolchain()
    C.log("[c02] tool chain %s %.0fs" % (tc["hash"], time.time() - t0))
    stats = dict(evaluations=0, nontrivial=set(), hist={}, outcomes={}, disagreements=0, oracle_failures=0,
                 expectation_failures=0, samples=[], families={})

    def account(p, res):
        stats["evaluations"] += 1
        fam = getattr(p, "family", "generated")
        stats["families"][fam] = stats["families"].get(fam, 0) + 1
        for f in res["features"]:
            stats["hist"][f] = stats["hist"].get(f, 0) + 1
        cls = {b: K.classify(res["obs"][b]) for b in K.BACKENDS}
        for b in K.BACKENDS:
            oc = cls[b] if not cls[b].startswith("exit:") else ("exit:0" if cls[b] == "exit:0" else "exit:nonzero")
            stats["outcomes"][b + ":" + oc] = stats["outcomes"].get(b + ":" + oc, 0) + 1
        if fam != "generated" or res.get("boundary") or len(set(f.split(":")[0] for f in res["features"])) >= 3:
            stats["nontrivial"].add(hashlib.sha256(p.dora.encode()).hexdigest())
        return cls

    def judge(p, res, kfun, cdir=None):
        if cdir is not None and res.get("batched"):
            c0 = {b: K.classify(res["obs"][b]) for b in K.BACKENDS}
            o = res["obs"]
            sus = any(v.startswith("undefined:") for v in c0.values()) or c0["cannon"] != c0["boots"] or \
                o["cannon"].get("stdout") != o["boots"].get("stdout")
            res = K.confirm_individually(tc, cdir, p, res, sus)
        cls = account(p, res)
        obs = res["obs"]
        bad = False
        for b in K.BACKENDS:
            if cls[b].startswith("undefined:"):
                bad = True
                stats["oracle_failures"] += 1
                ctx.finding(kfun(p, "signal", b),
                            dict(kind="oracle", program=p.name, backend=b, classification=cls[b],
                                 other_backend=cls[K.BACKENDS[1 - K.BACKENDS.index(b)]],
                                 stderr=(obs[b].get("stderr") or obs[b].get("compile_log", ""))[:1500],
                                 stdout=K.hexdec(obs[b].get("stdout", ""))[:500], dora=p.dora,
                                 how_to_replay="compile `dora` text with %s and run it" % ("--cannon" if b == "cannon" else "the default (optimizing) back end")),
                            "%s: %s executable ends undefined: %s" % (p.name, b, cls[b]))
        a, b_ = obs["cannon"], obs["boots"]
        if a.get("status") == "ran" and b_.get("status") == "ran":
            same = a["stdout"] == b_["stdout"] and cls["cannon"] == cls["boots"] and \
                (cls["cannon"] != "fatal" or a["stderr1"] == b_["stderr1"])
            if not same and not (cls["cannon"].startswith("undefined:timeout") or cls["boots"].startswith("undefined:timeout")):
                bad = True
                stats["disagreements"] += 1
                ctx.finding(kfun(p, "disagree"),
                            dict(kind="oracle", program=p.name,
                                 cannon=dict(outcome=cls["cannon"], stdout=K.hexdec(a["stdout"])[:600], stderr1=a["stderr1"]),
                                 boots=dict(outcome=cls["boots"], stdout=K.hexdec(b_["stdout"])[:600], stderr1=b_["stderr1"]),
                                 dora=p.dora, how_to_replay="compile `dora` text with both back ends and compare"),
                            "%s: back ends disagree: cannon %s / boots %s%s" % (
                                p.name, cls["cannon"], cls["boots"],
                                "" if a["stdout"] == b_["stdout"] else " (stdout differs)"))
        if len(stats["samples"]) < 4 and getattr(p, "family", "") in ("array-index", "shift", "string-slice", "rt") and not bad \
                and not any(s.get("family") == getattr(p, "family", "") for s in stats["samples"]):
            stats["samples"].append(dict(program=p.name, family=p.family, case=p.case, cannon=cls["cannon"], boots=cls["boots"],
                                         stdout=K.hexdec(a.get("stdout", ""))[:120], source_tail=p.dora.splitlines()[-6:]))
        return cls

    # (1) generated programs (shared cache with C01)
    n = K.QUICK_N if ctx.tier == "quick" else 3000
    programs = [G.gen_program(ctx.seed, i) for i in range(n)]
    gdir = K.cache_dir(tc, ctx.seed, content_tag(programs))
    results = K.build_results(tc, programs, gdir)
    for p, res in zip(programs, results):
        p.family, p.case = "generated", p.name

        def gkey(p, kind, b=None, res=res):
            if kind == "disagree":
                return "oracle:disagree:generated:%s" % sorted(p.features)[0]
            r2 = K.load_cached(gdir, p) or res
            return "oracle:signal:generated:%s:%s" % (K.crash_site(r2["obs"][b]), b)
        judge(p, res, gkey, gdir)
    C.log("[c02] generated %.0fs" % (time.time() - t0))
    t0 = time.time()
    # (2) hostile arguments
    hostile = G.hostile_programs(ctx.tier)
    hdir = K.cache_dir(tc, "hostile", content_tag(hostile))
    hres = K.build_results(tc, hostile, hdir)
    for p, res in zip(hostile, hres):
        judge(p, res, key_for, hdir)
    # (2b) committed corpus of minimised past failures: corpus/C02/*.dora
    cdir = os.path.join(C.VERIF, "corpus", "C02")
    corpus = []
    if os.path.isdir(cdir):
        for f in sorted(os.listdir(cdir)):
            if f.endswith(".dora"):
                body = open(os.path.join(cdir, f), encoding="utf-8").read()
                rp = G.RawProgram("corpus_" + re.sub(r"[^A-Za-z0-9]+", "_", f[:-5]), "", "corpus", f[:-5])
                rp.dora = body
                corpus.append(rp)
    cres = K.build_results(tc, corpus, K.cache_dir(tc, "corpus", content_tag(corpus))) if corpus else []
    for p, res in zip(corpus, cres):
        judge(p, res, key_for)
    C.log("[c02] hostile+corpus %.0fs" % (time.time() - t0))
    t0 = time.time()
    # (3) repository programs with deterministic expectations
    rts, skipped, rt_total = rt_corpus(ctx.tier, ctx.seed)
    rres = K.build_results(tc, rts, K.cache_dir(tc, "rt", content_tag(rts)))
    for p, res in zip(rts, rres):
        cls = judge(p, res, key_for)
        for b in K.BACKENDS:
            o = res["obs"][b]
            if o.get("status") != "ran" or cls[b].startswith("undefined:"):
                continue
            rc = o["rc"]
            okc = (rc != 0) if (p.exp_fail and p.exp_code is None) else (rc == (p.exp_code or 0))
            oks = p.exp_stdout is None or K.hexdec(o["stdout"]) == p.exp_stdout
            if not (okc and oks):
                stats["expectation_failures"] += 1
                ctx.finding(key_for(p, "expectation", b),
                            dict(kind="oracle", file=p.rel, backend=b, expected_status=p.exp_code, status=rc,
                                 stdout_ok=oks, stderr=o.get("stderr", "")[:800]),
                            "test/rt/%s (%s): status %s, expected %s%s" % (p.rel, b, rc, p.exp_code,
                                                                           "" if oks else "; stdout differs from .stdout file"))
    C.log("[c02] test/rt %.0fs" % (time.time() - t0))
    if not po["build_ok"] or po["failed"]:
        ctx.finding("proof:C02", dict(kind="proof", failed=po["failed"], log=po.get("build_log_tail", "")),
                    "property theorems of C02 no longer check: %s" % "; ".join(po["failed"])[:400],
                    no_input=not (stats["disagreements"] or stats["oracle_failures"]))
    # allocation sequences of the baseline generator (array size arithmetic, initial header bits): theorems over the
    # regenerated masm model; a break runs the machine leg's native-execution search under this property
    from . import c01_masm
    alloc = c01_masm.alloc_obligations(ctx)
    po["obligations"] += alloc["obligations"]
    po["discharged"] += alloc["discharged"]
    po["theorems"] = dict(po["theorems"], **alloc["theorems"])
    cov = dict(obligations=po["obligations"], discharged=po["discharged"], checker_cmd=po["checker_cmd"] + " (and DoraModel.Props.C13Masm)",
               masm_alloc=dict(module=alloc["module"], obligations=alloc["obligations"], discharged=alloc["discharged"],
                               runtime_rules=alloc["runtime_rules"], search=alloc.get("search")),
               trusted_base=po["trusted_base"] + [
                   "agreement and crash-freedom of the two code generators are established only on the explored programs",
                   "classification in checks/c01.py `classify` mirrors Dora.Mini.classify (Lean)",
                   "gen/progs.py, checks/c01.py (compile/run/cache), checks/c02.py"],
               theorems=po["theorems"],
               evaluations=stats["evaluations"] * 2, programs=stats["evaluations"],
               distinct_nontrivial=len(stats["nontrivial"]),
               rule="three families, each program compiled with both back ends and run: (1) gen_program(seed, i) (C01's "
                    "programs), (2) hostile_programs(): boundary-value calls of Array/Vec/String entry points, shifts, "
                    "division, conversions, (3) test/rt programs without flag/argument/platform headers (quick: seeded "
                    "sample of 24, no thread/gc dirs). non-trivial = hostile or rt program, or generated program with a "
                    "boundary operation or >= 3 feature classes; distinct by source hash",
               histogram=stats["hist"], families=stats["families"], outcomes=stats["outcomes"],
               rt_candidates=rt_total, rt_run=len(rts), rt_skipped=skipped,
               samples=stats["samples"] or [dict(note="no sample")],
               disagreements=stats["disagreements"], oracle_failures=stats["oracle_failures"],
               expectation_failures=stats["expectation_failures"], toolchain=tc["hash"])
    ctx.write_evidence("proof", cov, assumptions=[
        "programs depending on time, threads, stack depth or heap size are excluded (test/rt headers, directory names, "
        "and source text mentioning std::thread / timestamp / sleep / argv)",
        "soundness is proved for the first-order fragment of the reference semantics only (see Props/C02.lean)"])
