"""C15 — Builds are reproducible and the compiler reproduces itself.

proof part  : lean/DoraModel/Props/C15.lean — numbering is independent of the hash container implementation
              (abstract MapLike/SetLike with no iteration).
static tie  : tools/hashiter_lint.py — every place where the compile pipeline iterates a HashMap/HashSet must be
              in tools/hashiter_allow.txt (reviewed: order-insensitive or not feeding output). A new site breaks
              the "no iteration" abstraction of the model.
comparison  : every corpus program built >= 3 times, concurrently, from different working directories and
              output locations, with each code generator (and collectors in the thorough tier): sha256 of
              .dora-package, .s and executable must be identical. Bootstrap: stage3 (built by stage2) == stage2.
level       : other (the comparison is not a proof; see DESIGN.md §7 C15).
"""
import concurrent.futures as cf
import hashlib
import os
import shutil

from . import common as C

PROP_MODULE = "DoraModel.Props.C15"
PROP_FILE = "DoraModel/Props/C15.lean"
LINT_DIRS = ["dora-compiler/src", "dora-frontend/src", "dora-bytecode/src", "dora/src",
             "dora-cannon-compiler/src", "dora-boots-compiler/src", "dora-parser/src", "dora-symbol/src"]
CORPUS = os.path.join(C.VERIF, "corpus", "C15")


def sha(path):
    h = hashlib.sha256()
    with open(path, "rb") as f:
        for blk in iter(lambda: f.read(1 << 20), b""):
            h.update(blk)
    return h.hexdigest()


def lint(ctx, stats):
    rc, out, err = C.sh2(["python3", os.path.join(C.VERIF, "tools", "hashiter_lint.py"), C.REPO] + LINT_DIRS)
    allow = {}
    ap = os.path.join(C.VERIF, "tools", "hashiter_allow.txt")
    for line in open(ap, encoding="utf-8"):
        line = line.strip()
        if not line or line.startswith("#"):
            continue
        key, _, reason = line.partition("  ")
        allow[key.strip()] = reason.strip()
    sites = []
    new = []
    for l in out.splitlines():
        p = l.split("|")
        if len(p) < 7:
            continue
        status, rel, fn, name, meth = p[0:5]
        key = "|".join([rel, fn, name, meth])
        sites.append(dict(status=status, key=key, line=p[5], text=p[6]))
        if status == "FLAG" and key not in allow:
            new.append((key, p[5], p[6]))
    stats["lint_sites"] = len(sites)
    stats["lint_flagged_allowlisted"] = len([s for s in sites if s["status"] == "FLAG" and s["key"] in allow])
    stats["lint_new"] = [k for k, _, _ in new]
    return new


def build_variants(tc, prog, workroot, variants, repeat):
    """Build `prog` (dict: name, main, packages[(name,path)], dir) `repeat` times per variant, concurrently, each
    from its own working directory and output location. Returns {variant: [ {kind: sha} per repetition ]}."""
    jobs = []
    for v in variants:
        for r in range(repeat):
            jobs.append((v, r))

    def one(job):
        v, r = job
        wd = os.path.join(workroot, "%s_%s_%d" % (prog["name"], v["name"], r), "deep" * r)
        os.makedirs(wd, exist_ok=True)
        # sources are copied so that each build also has different neighbours
        srcdir = os.path.join(wd, "src")
        shutil.copytree(prog["dir"], srcdir)
        for k in range(r):
            open(os.path.join(wd, "neighbour%d.tmp" % k), "w").write("x" * (k + 1))
        pk = []
        for (n, p) in prog["packages"]:
            pk += ["--package", n, os.path.join("src", p)]
        # same command line in every build: paths relative to the (different) working directory — the
        # package records source paths as given, so absolute paths would be a different input
        main = os.path.join("src", prog["main"])
        res = {}
        outp = os.path.join(wd, "o%d" % r)
        cmds = [("package", [tc["dora"], "compile", "-c"] + v["flags"] + pk + [main, "-o", outp + ".dora-package"], outp + ".dora-package"),
                ("asm", [tc["dora"], "compile", "-S"] + v["flags"] + pk + [main, "-o", outp], None),
                ("exe", [tc["dora"], "compile"] + v["flags"] + pk + [main, "-o", outp + ".exe"], outp + ".exe")]
        for kind, cmd, outfile in cmds:
            rc, out = C.sh(cmd, cwd=wd, timeout=600)
            if kind == "asm":
                cand = [outp + ".s", outp]
                outfile = next((c for c in cand if os.path.isfile(c)), None)
            if rc != 0 or not outfile or not os.path.isfile(outfile):
                res[kind] = "BUILD-FAILED rc=%d %s" % (rc, out[-300:].replace("\n", " "))
            else:
                res[kind] = sha(outfile)
        shutil.rmtree(os.path.join(workroot, "%s_%s_%d" % (prog["name"], v["name"], r)), ignore_errors=True)
        return v["name"], r, res

    out = {}
    with cf.ThreadPoolExecutor(max_workers=12) as ex:
        for vname, r, res in ex.map(one, jobs):
            out.setdefault(vname, {})[r] = res
    return out


def corpus_programs(ctx, quick):
    progs = []
    # committed multi-file / multi-package programs
    for d in sorted(os.listdir(CORPUS)):
        p = os.path.join(CORPUS, d)
        if not os.path.isdir(p):
            continue
        pk = []
        pf = os.path.join(p, "packages.txt")
        if os.path.exists(pf):
            for line in open(pf):
                if line.strip():
                    n, path = line.split()
                    pk.append((n, path))
        progs.append(dict(name=d, dir=p, main="main.dora", packages=pk))
    # a seeded sample of the repository's own runnable programs
    rt = []
    for root, _, fs in os.walk(os.path.join(C.REPO, "test", "rt")):
        for f in fs:
            if f.endswith(".dora"):
                fp = os.path.join(root, f)
                head = open(fp, encoding="utf-8", errors="replace").read(400)
                # any compilable program will do (it is built, not run); skip files that need other files
                if "//= ignore" not in head and "//= file" not in head and "fn main" in open(fp, encoding="utf-8", errors="replace").read():
                    rt.append(fp)
    rt.sort()
    rng = ctx.rng()
    rng.shuffle(rt)
    for fp in rt[: (6 if quick else 60)]:
        d = os.path.join(C.BUILD, "tmp", "c15src", os.path.basename(fp)[:-5])
        shutil.rmtree(d, ignore_errors=True)
        os.makedirs(d)
        shutil.copy(fp, os.path.join(d, "main.dora"))
        progs.append(dict(name="rt_" + os.path.basename(fp)[:-5], dir=d, main="main.dora", packages=[]))
    return progs


def run(ctx):
    quick = ctx.tier == "quick"
    po = C.proof_obligations(ctx, PROP_MODULE, PROP_FILE, hygiene_paths=("DoraModel/Intern", PROP_FILE))
    stats = dict(builds=0, programs=0, compared=0, differing=0, samples=[])
    new_sites = lint(ctx, stats)
    tc = C.toolchain(need_boots=True)
    work = os.path.join(C.BUILD, "tmp", "c15_%d" % os.getpid())
    shutil.rmtree(work, ignore_errors=True)
    os.makedirs(work)
    variants = [dict(name="cannon", flags=["--cannon"]), dict(name="boots", flags=[])]
    if not quick:
        variants += [dict(name="cannon-copy", flags=["--cannon", "--gc", "copy"]),
                     dict(name="boots-sweep", flags=["--gc", "sweep"]),
                     dict(name="boots-zero", flags=["--gc", "zero"])]
    repeat = 3 if quick else 5
    distinct = set()
    found_input = False
    # the third bootstrap stage builds in the background while the programs are compared (it is one long single-threaded job)
    d = tc["dir"]
    s3 = os.path.join(d, "stage3_%d" % os.getpid())
    boot = cf.ThreadPoolExecutor(max_workers=1)
    boot_f = boot.submit(lambda: C.sh([tc["dora"], "compile", "--internal-compile-boots", "--compiler", os.path.join(d, "stage2"),
                                       os.path.join(d, "boots.dora-package"), "-o", s3], cwd=d, timeout=1800))
    plist = corpus_programs(ctx, quick)
    with cf.ThreadPoolExecutor(max_workers=3) as pex:
        all_res = list(pex.map(lambda prog: build_variants(tc, prog, work, variants, repeat), plist))
    for prog, res in zip(plist, all_res):
        stats["programs"] += 1
        for vname, reps in res.items():
            for kind in ("package", "asm", "exe"):
                hs = [reps[r][kind] for r in sorted(reps)]
                stats["builds"] += len(hs)
                stats["compared"] += 1
                distinct.add((prog["name"], vname, kind))
                if any(h.startswith("BUILD-FAILED") for h in hs):
                    ctx.notes.append("build failed: %s %s %s: %s" % (prog["name"], vname, kind, hs[0][:200]))
                    continue
                if len(set(hs)) != 1:
                    stats["differing"] += 1
                    found_input = True
                    ctx.finding("oracle:nonreproducible:%s:%s:%s" % (prog["name"], vname, kind),
                                dict(kind="oracle", program=prog["name"], program_dir=prog["dir"],
                                     packages=prog["packages"], variant=vname, artifact=kind, sha256=hs,
                                     how_to_replay="build the program twice with `dora compile` and compare"),
                                "%d builds of %s (%s, %s) gave %d different results"
                                % (len(hs), prog["name"], vname, kind, len(set(hs))))
        if len(stats["samples"]) < 3:
            stats["samples"].append(dict(program=prog["name"], packages=prog["packages"],
                                         result={v: {k: reps[0][k][:16] for k in reps[0]} for v, reps in res.items()}))
    shutil.rmtree(work, ignore_errors=True)
    shutil.rmtree(os.path.join(C.BUILD, "tmp", "c15src"), ignore_errors=True)
    # bootstrap fixed point: stage3 built by stage2 must equal stage2
    rc, out = boot_f.result()
    boot.shutdown()
    stats["bootstrap"] = "not run"
    if rc != 0 or not os.path.exists(s3):
        ctx.finding("oracle:bootstrap:stage3-build", dict(kind="oracle", log=out[-2000:]),
                    "stage2 failed to compile the optimizing compiler (stage3)")
        found_input = True
    else:
        h2, h3 = sha(os.path.join(d, "stage2")), sha(s3)
        stats["bootstrap"] = dict(stage2=h2[:16], stage3=h3[:16], equal=(h2 == h3))
        os.unlink(s3)
        if h2 != h3:
            found_input = True
            ctx.finding("oracle:bootstrap:stage2-ne-stage3", dict(kind="oracle", stage2=h2, stage3=h3),
                        "bootstrap is not a fixed point: stage3 differs from stage2")
    # static tie
    for key, line, text in new_sites:
        ctx.finding("corr:hashiter:" + key, dict(kind="correspondence", site=key, line=line, text=text,
                                                  note="iteration over a hash container in the compile pipeline; "
                                                       "the Lean model's no-iteration abstraction no longer covers the code"),
                    "new iteration over a hash container: %s line %s: %s" % (key, line, text),
                    no_input=not found_input)
    if not po["build_ok"] or po["failed"]:
        ctx.finding("proof:C15", dict(kind="proof", failed=po["failed"], log=po.get("build_log_tail", "")),
                    "property theorems of C15 no longer check: %s" % "; ".join(po["failed"])[:400],
                    no_input=not found_input)
    cov = dict(
        explanation="Hash-order independence of interning and function numbering is a Lean theorem over abstract "
                    "map/set interfaces (%d/%d theorems checked); the abstraction is tied to the code by a lint "
                    "over every hash-container iteration site in the pipeline (%d sites, %d flagged and reviewed in "
                    "tools/hashiter_allow.txt, %d new). Everything else is a repeated-build comparison, which is NOT "
                    "a proof: %d programs x %d variants x {package, asm, exe} built %d times each concurrently from "
                    "different directories; bootstrap stage2 vs stage3 compared."
                    % (po["discharged"], po["obligations"], stats["lint_sites"], stats["lint_flagged_allowlisted"],
                       len(stats["lint_new"]), stats["programs"], len(variants), repeat),
        obligations=po["obligations"], discharged=po["discharged"], checker_cmd=po["checker_cmd"],
        trusted_base=po["trusted_base"] + ["tools/hashiter_lint.py (regex-based, name-level)", "sha256 comparison of real builds"],
        theorems=po["theorems"],
        evaluations=stats["builds"], distinct_nontrivial=len(distinct),
        rule="one case = (program, code generator/collector variant, artifact kind) built `repeat` times; all are "
             "non-trivial (each is a real build); multi-package programs come from corpus/C15",
        samples=stats["samples"], programs=stats["programs"], differing=stats["differing"],
        bootstrap=stats["bootstrap"], lint=dict(sites=stats["lint_sites"], new=stats["lint_new"]))
    ctx.write_evidence("other", cov, assumptions=[
        "gcc/ld/as and the OS are outside any model", "the lint is syntactic: a hash container hidden behind a type alias "
        "or iterated through a helper in another crate is not seen"])
