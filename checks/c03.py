"""C03 — Garbage collection is invisible to programs and reclaims garbage.

proof part : lean/DoraModel/Props/C03.lean
             (a) header-word algebra over the transcription lean/DoraModel/Gc/Header.lean of `HeaderWord`
                 (dora-runtime/src/mirror.rs), tied by h_c03 (real HeaderWord) vs drv_c03 on the same requests;
             (b) `validator_sound`: the executable collection validator `checkCollection` (lean/DoraModel/Gc/Heap.lean)
                 accepts a (pre, post) pair of heap dumps only if the reachable parts are isomorphic.
matrix     : corpus/C03/*.dora (+ runnable programs of /repo/test/rt/gc and /repo/test/rt/swiper) built for
             {zero, copy, sweep, swiper} x {cannon, boots} and run over
             {no stress, --gc-stress, --gc-stress-minor} x {tlab, --disable-tlab} x --gc-worker {1,2,8} x heap x young sizes.
             quick = a pairwise-covering subset per program (seeded), thorough = every valid cell for the corpus.
oracle     : stdout + exit status identical in all cells of a workload (reference: zero collector, else majority);
             no signal, no panic (this includes --gc-verify failures), bounded-live programs never exit 106 under a
             reclaiming collector; a time-out counts only if it reproduces 3 times.
dump leg   : with the hook hooks/c03_heapdump.patch applied to /repo, a second tool chain is built with
             --cfg dinfuehr_dora_verif; every dumped collection (heap graph before/after) must pass `checkCollection`.
"""
import concurrent.futures as cf
import hashlib
import itertools
import json
import os
import random
import re
import shutil
import signal
import subprocess
import threading
import time

from . import common as C

PROP_MODULE = "DoraModel.Props.C03"
PROP_FILE = "DoraModel/Props/C03.lean"
CORPUS = os.path.join(C.VERIF, "corpus", "C03")
QUICK_RT_PROGRAMS = 10
BINCACHE = os.path.join(C.BUILD, "c03-bin")
HOOK_MARK = "DORA_VERIF_HEAPDUMP"
JOBS = int(os.environ.get("VERIF_C03_JOBS", "16"))
BV_AXIOM_PATTERNS = ("bv_decide.ax",)

GCS = ["zero", "copy", "sweep", "swiper"]
BACKENDS = ["cannon", "boots"]
RECLAIMING = ("copy", "sweep", "swiper")


# --------------------------------------------------------------------------- programs / workloads

def parse_headers(path):
    h = dict(ignore=False, runtime_args=[], compile_args=[], error=None, c03=None, args=[], timeout=None, flaky=False)
    for line in open(path, encoding="utf-8", errors="replace"):
        if not line.startswith("//="):
            if line.strip() and not line.startswith("//"):
                break
            continue
        body = line[3:].strip()
        kw, _, rest = body.partition(" ")
        rest = rest.strip()
        if kw == "ignore":
            h["ignore"] = True
        elif kw == "flaky":
            h["flaky"] = True
        elif kw in ("runtime-args", "compile-args"):
            m = re.findall(r'"([^"]*)"', rest)
            toks = " ".join(m).split() if m else rest.split()
            h["runtime_args" if kw == "runtime-args" else "compile_args"] += toks
        elif kw == "error":
            h["error"] = rest
        elif kw == "args":
            h["args"] = rest.split()
        elif kw == "timeout":
            h["timeout"] = int(rest)
        elif kw == "c03":
            h["c03"] = dict(kv.split("=") for kv in rest.split())
        elif kw in ("file", "platform", "stdout", "stderr"):
            h[kw] = rest
    return h


def flags_to_dict(tokens):
    d = {}
    for t in tokens:
        if not t.startswith("--"):
            continue
        k, eq, v = t.partition("=")
        d[k] = v if eq else None
    return d


def dict_to_flags(d):
    return " ".join(k if v is None else "%s=%s" % (k, v) for k, v in d.items())


def workloads(ctx):
    """Workload = one (program, arguments) whose output must be the same in every cell."""
    wl = []
    for f in sorted(os.listdir(CORPUS)):
        if not f.endswith(".dora"):
            continue
        p = os.path.join(CORPUS, f)
        h = parse_headers(p)
        c = h["c03"] or {}
        base = dict(path=p, prog="corpus/" + f[:-5], corpus=True, bounded=True, hdr_flags={},
                    heap=c.get("heap", "8M"), threads=int(c.get("threads", "1")))
        if c.get("minimised"):
            # minimised past failure: one tiny workload, every kind of cell
            wl.append(dict(base, name=base["prog"], args=[], scale="one", focus=c.get("focus"), minimised=True))
            continue
        wl.append(dict(base, name=base["prog"] + "@small", args=[c.get("small", "3")], scale="small"))
        wl.append(dict(base, name=base["prog"] + "@big", args=[c.get("big", "1000")], scale="big"))
    for sub in ("gc", "swiper"):
        d = os.path.join(C.REPO, "test", "rt", sub)
        for f in sorted(os.listdir(d)):
            if not f.endswith(".dora"):
                continue
            if f.startswith("large") or f == "full1.dora":
                continue       # too slow for the debug runtime / not bounded-live (see DESIGN §7 C03)
            p = os.path.join(d, f)
            h = parse_headers(p)
            if h["ignore"] or h.get("file") or "fn main" not in open(p, encoding="utf-8", errors="replace").read():
                continue
            wl.append(dict(path=p, prog="rt/%s/%s" % (sub, f[:-5]), name="rt/%s/%s" % (sub, f[:-5]), corpus=False,
                           bounded=(h["error"] != "oom"), hdr_flags=flags_to_dict(h["runtime_args"]),
                           heap=None, threads=1, args=h["args"], scale="one"))
    if ctx.tier == "quick":
        # quick tier: the whole corpus, and a seeded sample of the repository's own gc/swiper programs (every build of a
        # (program, code generator, collector) triple costs about a second of a 16-core machine; thorough runs them all)
        rt = [w for w in wl if not w["corpus"]]
        keep = set(w["name"] for w in random.Random("%s|rt-sample" % ctx.seed).sample(rt, min(QUICK_RT_PROGRAMS, len(rt))))
        wl = [w for w in wl if w["corpus"] or w["name"] in keep]
    return wl


# --------------------------------------------------------------------------- tool chains and builds

def hook_present(tree):
    try:
        return HOOK_MARK in open(os.path.join(tree, "dora-runtime", "src", "gc.rs"), encoding="utf-8").read()
    except OSError:
        return False


def tree_hash(tree):
    if os.path.realpath(tree) == os.path.realpath(C.REPO):
        return C.repo_tree_hash()
    rc, head = C.sh(["git", "-C", tree, "rev-parse", "HEAD"])
    rc, diff = C.sh(["git", "-C", tree, "diff", "HEAD", "--", ".", ":!bench/mandelbrot/mandelbrot_out"])
    return hashlib.sha256((head + diff).encode()).hexdigest()[:16]


def toolchain_verif(tc, tree=C.REPO, timeout=3600):
    """Second tool chain, built from `tree` WITH --cfg dinfuehr_dora_verif (the heap-dump hook is compiled in) into its
    own target dir /verif/.build/repo-target-verif; binaries in /verif/.build/tc-verif/<hash>/bin. Modelled on
    common.toolchain(); the optimizing compiler binary (a Dora program, independent of the runtime's cfg) is taken from
    the ordinary tool chain `tc` of the same tree state instead of being bootstrapped a second time."""
    with C.FLock("toolchain-verif"):
        th = tree_hash(tree)
        root = os.path.join(C.BUILD, "tc-verif")
        d = os.path.join(root, th)
        bind = os.path.join(d, "bin")
        res = dict(dir=d, dora=os.path.join(bind, "dora"), hash="v" + th, log="", tree=tree)
        if os.path.exists(os.path.join(d, "ok")):
            os.utime(d, None)
            return res
        if os.path.isdir(root):
            for o in os.listdir(root):
                if o != th and time.time() - os.path.getmtime(os.path.join(root, o)) > 7200:
                    shutil.rmtree(os.path.join(root, o), ignore_errors=True)
        os.makedirs(bind, exist_ok=True)
        lnk = os.path.join(d, "pkgs")
        if not os.path.islink(lnk):
            os.symlink(os.path.join(tree, "pkgs"), lnk)
        tgt = os.path.join(C.BUILD, "repo-target-verif")
        rc, out = C.sh(["cargo", "build", "--offline", "-p", "dora", "-p", "dora-cannon-compiler",
                        "-p", "dora-runtime", "-p", "dora-startup"],
                       cwd=tree, env={"CARGO_TARGET_DIR": tgt, "RUSTFLAGS": "--cfg %s" % C.GUARD}, timeout=timeout)
        res["log"] = out
        if rc != 0:
            raise RuntimeError("cargo build (cfg %s) failed:\n%s" % (C.GUARD, out[-4000:]))
        dbg = os.path.join(tgt, "debug")
        for f in ["dora", "dora-cannon-compiler", "libdora_runtime.a", "libdora_startup.a"]:
            tmpf = os.path.join(bind, f + ".tmp%d" % os.getpid())
            shutil.copy2(os.path.join(dbg, f), tmpf)
            os.replace(tmpf, os.path.join(bind, f))
        shutil.copy2(tc["boots"], os.path.join(bind, "dora-boots-compiler"))
        open(os.path.join(d, "ok"), "w").write(th)
        return res


def src_sha(path):
    return hashlib.sha256(open(path, "rb").read()).hexdigest()[:12]


def cache_dir(tc):
    d = os.path.join(BINCACHE, tc["hash"])
    if not os.path.isdir(d):
        # executables of other tree states are useless now (7 MB each): keep the most recent one and anything a concurrent run may still use
        if os.path.isdir(BINCACHE):
            others = sorted(os.listdir(BINCACHE), key=lambda o: os.path.getmtime(os.path.join(BINCACHE, o)), reverse=True)
            for o in others[1:]:
                if time.time() - os.path.getmtime(os.path.join(BINCACHE, o)) > 1800:
                    shutil.rmtree(os.path.join(BINCACHE, o), ignore_errors=True)
        os.makedirs(d, exist_ok=True)
    os.utime(d, None)
    return d


_BUILD_LOCKS = {}
_BUILD_LOCKS_GUARD = threading.Lock()


def build(tc, path, backend, gc, strip=True, outdir=None):
    """Compile one program for (backend, gc); cached by tool-chain hash + source hash. Returns (exe or None, log)."""
    key = (tc["hash"], path, backend, gc, outdir)
    with _BUILD_LOCKS_GUARD:
        lk = _BUILD_LOCKS.setdefault(key, threading.Lock())
    with lk:
        return build_locked(tc, path, backend, gc, strip, outdir)


def build_locked(tc, path, backend, gc, strip, outdir):
    d = outdir or cache_dir(tc)
    tag = "%s-%s-%s-%s" % (re.sub(r"\W", "_", os.path.basename(path)[:-5])[:24], src_sha(path), backend, gc)
    exe = os.path.join(d, tag)
    fail = exe + ".fail"
    if os.path.exists(exe):
        return exe, ""
    if os.path.exists(fail):
        return None, open(fail).read()
    tmp = exe + ".tmp%d_%d" % (os.getpid(), threading.get_ident())
    cmd = [tc["dora"], "compile"] + (["--cannon"] if backend == "cannon" else []) + ["--gc", gc, path, "-o", tmp]
    rc, out = C.sh(cmd, cwd=d, timeout=900)
    if rc != 0 or not os.path.exists(tmp):
        if rc != 124:
            open(fail, "w").write(out[-2000:])
        return None, out[-2000:]
    if strip:
        C.sh(["strip", tmp])
    os.replace(tmp, exe)
    return exe, ""


SIGNAMES = {int(getattr(signal, n)): n for n in dir(signal) if n.startswith("SIG") and not n.startswith("SIG_")}


def run_exe(exe, args, flags, timeout, extra_env=None):
    env = dict(os.environ)
    env.update({"DORA_FLAGS": flags, "RUST_BACKTRACE": "0"})
    if extra_env:
        env.update(extra_env)
    t0 = time.time()
    try:
        p = subprocess.run([exe] + list(args), env=env, stdout=subprocess.PIPE, stderr=subprocess.PIPE,
                           timeout=timeout, cwd=os.path.dirname(exe))
        err = p.stderr.decode("utf-8", "replace")
        if len(err) > 4500:
            err = err[:2000] + "\n[...]\n" + err[-2500:]
        return dict(rc=p.returncode, out=p.stdout.decode("utf-8", "replace"), err=err, timeout=False, secs=time.time() - t0)
    except subprocess.TimeoutExpired as ex:
        return dict(rc=None, out=(ex.stdout or b"").decode("utf-8", "replace"), err=(ex.stderr or b"").decode("utf-8", "replace")[-1500:],
                    timeout=True, secs=time.time() - t0)


# --------------------------------------------------------------------------- calibration (how many allocations?)

def calibrate(tc, w, cal):
    """Number of collections a workload causes under `--gc-stress` with the copying collector, without and with
    TLABs (= number of slow-path allocations). Decides which stress cells are affordable. Cached per source+args."""
    key = "%s|%s" % (src_sha(w["path"]), " ".join(w["args"]))
    if key in cal:
        return cal[key]
    exe, log = build(tc, w["path"], "boots", "copy")
    res = dict(notlab=None, tlab=None)
    if exe:
        for nm, fl in (("notlab", "--gc-stress --disable-tlab --gc-verbose"), ("tlab", "--gc-stress --gc-verbose")):
            hf = dict(w["hdr_flags"])
            hf.update(flags_to_dict(fl.split()))
            hf.pop("--gc-verify", None)
            r = run_exe(exe, w["args"], dict_to_flags(hf), 90)
            if not r["timeout"]:
                res[nm] = len(re.findall(r"(?m)^.*\bGC\b.*$", r["out"] + r["err"]))
    cal[key] = res
    return res


# --------------------------------------------------------------------------- cells

DIMS = dict(backend=BACKENDS, gc=["copy", "sweep", "swiper"], stress=["none", "full", "minor"], tlab=["on", "off"],
            workers=["1", "2", "8"], heap=["h0", "h1", "h2"], young=["default", "1M", "4M"])
DIM_ORDER = ["backend", "gc", "stress", "tlab", "workers", "heap", "young"]


def cell_valid(cell, w, cal, thorough):
    gc, stress = cell["gc"], cell["stress"]
    if gc != "swiper":
        if cell["workers"] != "1" or cell["young"] != "default" or stress == "minor":
            return False          # these switches only exist for the generational collector
    if w["scale"] == "small" and stress == "none":
        return False              # the small scale exists for the stress cells
    if w["scale"] == "big" and stress != "none":
        return False
    if not w["corpus"] and cell["heap"] == "h2":
        return False
    if stress != "none":
        n = cal["notlab"] if cell["tlab"] == "off" else cal["tlab"]
        if n is None:
            return False
        if gc == "swiper":
            # one collection costs time proportional to the young generation (debug runtime, mprotect/commit)
            lim = {"1M": 450, "4M": 130, "default": (40 if thorough else 0)}[cell["young"]]
        else:
            lim = 4000
        if n > lim:
            return False
    return True


def cell_flags(cell, w):
    """DORA_FLAGS of a cell: the program's own `//= runtime-args` first, the cell's switches override."""
    d = dict(w["hdr_flags"])
    gc = cell["gc"]
    if gc == "zero":
        d.pop("--gc-verify", None)
        d["--max-heap-size"] = "2G"
        if cell["tlab"] == "off":
            d["--disable-tlab"] = None
        return dict_to_flags(d)
    if cell["stress"] == "full":
        d["--gc-stress"] = None
    elif cell["stress"] == "minor":
        d["--gc-stress-minor"] = None
    if cell["tlab"] == "off":
        d["--disable-tlab"] = None
    if gc == "swiper":
        d["--gc-verify"] = None
        d["--gc-worker"] = cell["workers"]
        if cell["young"] != "default":
            d["--gc-young-size"] = cell["young"]
    else:
        d.pop("--gc-verify", None)
        d.pop("--gc-worker", None)
        d.pop("--gc-young-size", None)
    if w["corpus"]:
        hp = {"h0": w["heap"], "h1": "32M", "h2": None}[cell["heap"]]
        if gc == "copy" and hp:
            hp = "%dM" % (2 * int(hp[:-1]))      # semi-space: the usable half equals the other collectors' heap
    else:
        hp = {"h0": d.get("--max-heap-size"), "h1": "64M", "h2": None}[cell["heap"]]
    if hp:
        d["--max-heap-size"] = hp
    else:
        d.pop("--max-heap-size", None)
    if "--gc-young-size" in d and "--max-heap-size" in d:
        pass
    return dict_to_flags(d)


def all_cells(w, cal, thorough):
    res = []
    for vals in itertools.product(*[DIMS[k] for k in DIM_ORDER]):
        cell = dict(zip(DIM_ORDER, vals))
        if cell_valid(cell, w, cal, thorough):
            res.append(cell)
    return res


def cell_pairs(c):
    return {((a, c[a]), (b, c[b])) for a, b in itertools.combinations(DIM_ORDER, 2)}


def pairwise(cands, rng):
    """Greedy pairwise cover of the candidate cells: every pair of values of two different switches that occurs in
    some valid cell occurs in a chosen cell."""
    def pairs(c):
        return {((a, c[a]), (b, c[b])) for a, b in itertools.combinations(DIM_ORDER, 2)}
    need = set()
    cp = []
    for c in cands:
        ps = pairs(c)
        cp.append(ps)
        need |= ps
    chosen = []
    order = list(range(len(cands)))
    rng.shuffle(order)
    while need:
        best, bi = -1, None
        for i in order:
            n = len(cp[i] & need)
            if n > best:
                best, bi = n, i
        if best <= 0:
            break
        chosen.append(cands[bi])
        need -= cp[bi]
    return chosen


def zero_cells(w, quick, rng):
    cells = [dict(backend=b, gc="zero", stress="none", tlab=t, workers="1", heap="2G", young="default")
             for b in BACKENDS for t in ("on", "off")]
    if quick:
        return [cells[rng.randrange(4)]]
    return cells


def cell_name(cell):
    s = "%s/%s" % (cell["backend"], cell["gc"])
    if cell["stress"] != "none":
        s += "/stress-" + cell["stress"]
    s += "/tlab-" + cell["tlab"]
    if cell["gc"] == "swiper":
        s += "/w%s/young-%s" % (cell["workers"], cell["young"])
    s += "/" + cell["heap"]
    return s


# --------------------------------------------------------------------------- oracle

def classify(r):
    """What kind of end a run had: ('ok', rc) | ('timeout',) | ('signal', name) | ('panic', site, msg) | ('oom',)."""
    if r["timeout"]:
        return ("timeout",)
    err = r["err"]
    m = re.search(r"panicked at ([^\s:]+:\d+)(?::\d+)?:\s*\n?([^\n]*)", err)
    if m or r["rc"] == 134 or r["rc"] == -6:
        site = m.group(1) if m else "?"
        msg = (m.group(2).strip() if m else err.strip().splitlines()[-1] if err.strip() else "")[:120]
        return ("panic", site, msg)
    if r["rc"] is not None and r["rc"] < 0:
        return ("signal", SIGNAMES.get(-r["rc"], str(-r["rc"])))
    if r["rc"] in (139, 135, 132, 136):
        return ("signal", {139: "SIGSEGV", 135: "SIGBUS", 132: "SIGILL", 136: "SIGFPE"}[r["rc"]])
    if r["rc"] == 106:
        return ("oom",)
    return ("ok", r["rc"])


def failure_key(cls, cell, w=None):
    bg = "%s-%s" % (cell["backend"], cell["gc"])
    if cls[0] == "panic":
        site, msg = cls[1], cls[2]
        if cell["backend"] == "cannon" and cell["gc"] != "swiper" and msg.startswith("not implemented") and "src/gc.rs" in site:
            # `Collector::to_swiper` default body: generational-only code reached under another collector
            return "oracle:abort:cannon-write-barrier-under-nongenerational-gc"
        # file + message (not the line number, which moves with every edit) + collector; the back end is left out:
        # a runtime assertion reached from both code generators is one defect
        fil = re.sub(r":\d+$", "", re.sub(r"^.*/src/", "", site))
        slug = re.sub(r"[^A-Za-z0-9]+", "-", msg).strip("-")[:60] or "panic"
        if "verify" in site:
            return "oracle:gc-verify:%s:%s:%s" % (fil, slug, cell["gc"])
        return "oracle:abort:%s:%s:%s" % (fil, slug, cell["gc"])
    if cls[0] == "signal":
        return "oracle:signal:%s:%s" % (cls[1], bg)
    if cls[0] == "oom":
        if w is not None and w.get("threads", 1) > 1:
            # several allocating threads: Gc::alloc gives up after 4 collections, also when other threads took the space
            return "oracle:oom-bounded-live:%s:multithreaded" % cell["gc"]
        return "oracle:oom-bounded-live:%s" % bg
    if cls[0] == "timeout":
        return "oracle:timeout:%s" % bg
    return "oracle:output-differs:%s%s" % (bg, "" if cell["stress"] == "none" else ":stress-" + cell["stress"])


# --------------------------------------------------------------------------- minimiser (line-based ddmin)

def balanced(text):
    depth = 0
    for ch in text:
        if ch in "{([":
            depth += 1
        elif ch in "})]":
            depth -= 1
            if depth < 0:
                return False
    return depth == 0


def minimise(tc, src_text, args, cell, flags, key, w=None, budget_s=240, max_tests=80):
    """Smallest line subset that still (a) fails in `cell` with the same key and (b) runs to exit 0 when built by the
    SAME back end for the generational collector (so the program is still a correct program)."""
    work = os.path.join(C.BUILD, "tmp", "c03_min_%d" % os.getpid())
    shutil.rmtree(work, ignore_errors=True)
    os.makedirs(work)
    t_end = time.time() + budget_s
    counter = [0]

    def still_fails(lines):
        text = "\n".join(lines) + "\n"
        if not balanced(text) or "fn main" not in text:
            return False
        counter[0] += 1
        n = counter[0]
        p = os.path.join(work, "m%d.dora" % n)
        open(p, "w").write(text)
        bad, _ = build(tc, p, cell["backend"], cell["gc"], strip=True, outdir=work)
        if not bad:
            return False
        r = run_exe(bad, args, flags, 120)
        ok = not r["timeout"] and failure_key(classify(r), cell, w) == key
        os.unlink(bad)
        if not ok:
            return False
        good, _ = build(tc, p, cell["backend"], "swiper", strip=True, outdir=work)
        if not good:
            return False
        r2 = run_exe(good, args, "--gc-verify", 120)
        os.unlink(good)
        return (not r2["timeout"]) and r2["rc"] == 0

    lines = [l for l in src_text.splitlines() if l.strip() and not l.strip().startswith("//")]
    n = 2
    tests = 0
    with cf.ThreadPoolExecutor(max_workers=8) as ex:
        while len(lines) >= 2 and time.time() < t_end and tests < max_tests:
            chunk = max(1, len(lines) // n)
            cands = []
            for i in range(0, len(lines), chunk):
                cand = lines[:i] + lines[i + chunk:]
                if cand:
                    cands.append(cand)
            tests += len(cands)
            results = list(ex.map(still_fails, cands))
            hit = next((c for c, ok in zip(cands, results) if ok), None)
            if hit is not None:
                lines = hit
                n = max(n - 1, 2)
            elif chunk == 1:
                break
            else:
                n = min(len(lines), n * 2)
    shutil.rmtree(work, ignore_errors=True)
    return "\n".join(lines) + "\n", tests


# --------------------------------------------------------------------------- the matrix

def run_matrix(ctx, tc, stats):
    quick = ctx.tier == "quick"
    wls = workloads(ctx)
    only = os.environ.get("VERIF_C03_ONLY")
    if only:
        wls = [w for w in wls if re.search(only, w["name"])]
    cdir = cache_dir(tc)
    calf = os.path.join(cdir, "calibration.json")
    cal = json.load(open(calf)) if os.path.exists(calf) else {}
    # 1. builds, in parallel, cached: first the variant the calibration needs, later (3b) what the planned cells need
    progs = sorted({w["path"] for w in wls})
    exes = {}
    t0b = time.time()

    def build_all(bjobs):
        bjobs = [j for j in bjobs if j not in exes]
        with cf.ThreadPoolExecutor(max_workers=JOBS) as ex:
            for (p, b, g), (exe, log) in zip(bjobs, ex.map(lambda j: build(tc, *j), bjobs)):
                exes[(p, b, g)] = exe
                if exe is None:
                    stats["build_failed"].append("%s %s/%s: %s" % (os.path.relpath(p, "/"), b, g, log[-200:].replace("\n", " ")))

    build_all([(p, "boots", "copy") for p in progs])
    stats["build_s"] = round(time.time() - t0b, 1)
    # 2. calibration
    t0 = time.time()
    with cf.ThreadPoolExecutor(max_workers=JOBS) as ex:
        cals = list(ex.map(lambda w: calibrate(tc, w, cal), wls))
    tmpf = calf + ".tmp%d" % os.getpid()
    json.dump(cal, open(tmpf, "w"))
    os.replace(tmpf, calf)
    stats["calibration_s"] = round(time.time() - t0, 1)
    # 3. cells
    jobs = []
    all_pairs, got_pairs = set(), set()
    for w, wc in zip(wls, cals):
        rng = random.Random("%s|%s" % (ctx.seed, w["name"]))
        cands = all_cells(w, wc, not quick)
        if quick:
            # quick tier: the first k cells of this workload's own (seeded) pairwise cover; the covers of different
            # workloads start at different cells, the union over the workloads is measured below (pair_coverage)
            cells = pairwise(cands, rng)[: (4 if w["corpus"] else 3)]
        elif not w["corpus"]:
            cells = pairwise(cands, rng)
            for extra in range(2):
                cells += [c for c in pairwise(cands, random.Random("%s|%s|%d" % (ctx.seed, w["name"], extra))) if c not in cells]
        else:
            cells = cands
        w["alloc"] = wc
        w["n_valid_cells"] = len(cands)
        for c in cands:
            all_pairs.update(cell_pairs(c))
        for c in cells:
            got_pairs.update(cell_pairs(c))
        if w.get("focus"):
            # minimised past failure: always run the cell kind it was found in, with both code generators
            fg, ft = w["focus"].split("/")
            for b in BACKENDS:
                fc = dict(backend=b, gc=fg, stress="none", tlab=ft, workers="1", heap="h0", young="default")
                if fc not in cells:
                    cells = cells + [fc]
        for c in zero_cells(w, quick, rng) + cells:
            jobs.append((w, c))
        if w["threads"] > 1:
            # "all interleavings the OS produces": repeat the cells of multi-threaded workloads; and a probe with a tiny
            # young generation, many instances at once (CPU contention makes an allocating thread starve)
            for c in cells:
                jobs += [(w, c)] * (2 if quick else 1)
            if w["scale"] == "big":
                for b in BACKENDS:
                    probe = dict(backend=b, gc="swiper", stress="none", tlab="on", workers="2", heap="h2", young="1M")
                    jobs += [(w, probe)] * (8 if quick else 32)
    stats["pair_coverage"] = "%d of %d value pairs of two switches that occur in some valid cell" % (len(got_pairs), len(all_pairs))
    stats["cells_planned"] = len(jobs)
    # 3b. the executables the planned cells need
    t0b = time.time()
    build_all(sorted({(w["path"], c["backend"], c["gc"]) for w, c in jobs}))
    stats["build_s"] = round(stats["build_s"] + time.time() - t0b, 1)
    stats["executables"] = len([e for e in exes.values() if e])
    tmo = 300 if quick else 900

    def one(job):
        w, c = job
        exe = exes.get((w["path"], c["backend"], c["gc"]))
        if exe is None:
            return None
        return run_exe(exe, w["args"], cell_flags(c, w), tmo)

    # longest first: threads and big workloads
    jobs.sort(key=lambda j: (0 if j[0]["scale"] == "big" else 1, j[0]["name"]))
    t0 = time.time()
    with cf.ThreadPoolExecutor(max_workers=JOBS) as ex:
        results = list(ex.map(one, jobs))
    stats["run_s"] = round(time.time() - t0, 1)
    # 4. time-outs: inconclusive unless reproduced 3 times
    for i, (job, r) in enumerate(zip(jobs, results)):
        if r is not None and r["timeout"]:
            again = [one(job) for _ in range(2)] if stats["timeouts_retried"] < 6 else []
            stats["timeouts_retried"] += 1
            if again and all(a["timeout"] for a in again):
                r["timeout3"] = True
            else:
                fin = next((a for a in again if not a["timeout"]), None)
                if fin is not None:
                    results[i] = fin
                    stats["timeouts_not_reproduced"] += 1
    # 5. oracle
    by_w = {}
    for (w, c), r in zip(jobs, results):
        by_w.setdefault(w["name"], (w, []))[1].append((c, r))
    failures = stats["failures"]       # key -> list of dict(workload, cell, cls, result)
    for name, (w, crs) in by_w.items():
        ran = [(c, r) for c, r in crs if r is not None]
        stats["cells_run"] += len(ran)
        stats["workloads"] += 1
        clss = [(c, r, classify(r)) for c, r in ran]
        zero_ok = [(c, r) for c, r, k in clss if c["gc"] == "zero" and k[0] == "ok"]
        ref = None
        if zero_ok:
            ref = (zero_ok[0][1]["rc"], zero_ok[0][1]["out"])
            stats["reference_zero"] += 1
        else:
            cnt = {}
            for c, r, k in clss:
                if k[0] == "ok":
                    cnt[(r["rc"], r["out"])] = cnt.get((r["rc"], r["out"]), 0) + 1
            if cnt:
                ref = max(cnt.items(), key=lambda kv: kv[1])[0]
                stats["reference_majority"] += 1
        w["ref"] = ref
        for c, r, k in clss:
            hk = "%s/%s" % (c["gc"], "stress" if c["stress"] != "none" else "plain")
            stats["hist"][hk] = stats["hist"].get(hk, 0) + 1
            stats["secs"] += r["secs"]
            bad = None
            if k[0] == "timeout":
                if r.get("timeout3"):
                    bad = k
                else:
                    stats["inconclusive_timeouts"].append("%s %s" % (name, cell_name(c)))
                    continue
            elif k[0] in ("panic", "signal"):
                bad = k
            elif k[0] == "oom":
                if c["gc"] == "zero":
                    stats["zero_did_not_fit"] += 1
                    continue
                if w["bounded"]:
                    bad = k
                elif ref is not None and (r["rc"], r["out"]) != ref:
                    bad = ("differs",)
            elif ref is not None and (r["rc"], r["out"]) != ref:
                bad = ("differs",)
            if bad is None:
                stats["cells_ok"] += 1
                if c["stress"] != "none" or w["scale"] == "big":
                    stats["distinct"].add((w["name"], cell_flags(c, w), c["backend"], c["gc"]))
                continue
            key = failure_key(bad, c, w)
            stats["cells_failed"] += 1
            failures.setdefault(key, []).append(dict(w=w, cell=c, cls=bad, r=r))
    if len(stats["samples"]) < 4:
        for name, (w, crs) in list(by_w.items())[:60:17]:
            for c, r in crs[:1]:
                if r is not None:
                    stats["samples"].append(dict(workload=name, args=w["args"], cell=cell_name(c), DORA_FLAGS=cell_flags(c, w),
                                                 exit=r["rc"], stdout=r["out"][:160], allocations_under_stress=w.get("alloc")))
    return wls, exes


def report_failures(ctx, tc, stats):
    """Report each kind of failure once, with the list of failing cells and a minimised program."""
    for key, fl in sorted(stats["failures"].items()):
        # a committed minimised program that shows this failure is the replay; otherwise the smallest failing program
        fl.sort(key=lambda f: (0 if f["w"].get("minimised") else 1, os.path.getsize(f["w"]["path"])))
        f0 = fl[0]
        w, c = f0["w"], f0["cell"]
        flags = cell_flags(c, w)
        src = open(w["path"], encoding="utf-8").read()
        known = any(k == key for k, _ in ctx.known)
        mini, tests = (src, 0)
        if (not known and not w.get("minimised") and key.startswith(("oracle:abort", "oracle:signal", "oracle:gc-verify"))
                and not os.environ.get("VERIF_C03_NOMIN")):
            try:
                mini, tests = minimise(tc, src, w["args"], c, flags, key, w)
            except Exception as e:     # the minimiser is a convenience
                ctx.notes.append("minimiser failed: %r" % e)
        diag = ""
        if f0["cls"][0] == "panic":
            diag = backtrace_of(tc, w, c, flags)
        cells = sorted({"%s [%s] %s" % (f["w"]["name"], cell_name(f["cell"]), cell_flags(f["cell"], f["w"])) for f in fl})
        progs_hit = sorted({f["w"]["prog"] for f in fl})
        exp = w.get("ref")
        text = ("%s: %d cells of %d programs fail (%s); e.g. %s built with %s --gc=%s, DORA_FLAGS=\"%s\": %s; expected exit %s with the "
                "reference output. %s" % (key, len(fl), len(progs_hit), ", ".join(progs_hit[:8]), w["name"],
                                         "--cannon" if c["backend"] == "cannon" else "(optimizing)", c["gc"], flags,
                                         describe(f0["cls"], f0["r"]), exp[0] if exp else "?",
                                         ("backtrace: " + diag) if diag else ""))
        ctx.finding(key, dict(kind="oracle", program=w["path"], args=w["args"], backend=c["backend"], gc=c["gc"],
                              DORA_FLAGS=flags, observed=dict(exit=f0["r"]["rc"], stdout=f0["r"]["out"][:400], stderr=f0["r"]["err"][-1200:]),
                              expected=dict(exit=exp[0], stdout=exp[1][:400]) if exp else None,
                              failing_cells=cells[:60], programs=progs_hit, minimised_program=mini,
                              minimiser_tests=tests, backtrace=diag,
                              how_to_replay="dora compile %s--gc %s prog.dora -o prog && DORA_FLAGS=\"%s\" ./prog %s"
                                            % ("--cannon " if c["backend"] == "cannon" else "", c["gc"], flags, " ".join(w["args"]))),
                    text)
        stats["failure_keys"][key] = len(fl)


def describe(cls, r):
    if cls[0] == "panic":
        return "runtime panic at %s (%s), exit %s" % (cls[1], cls[2], r["rc"])
    if cls[0] == "signal":
        return "killed by %s" % cls[1]
    if cls[0] == "oom":
        return "exit 106 (out of memory) although the live data is bounded"
    if cls[0] == "timeout":
        return "no end within the time limit, three times"
    return "exit %s, stdout %r" % (r["rc"], r["out"][:120])


def backtrace_of(tc, w, c, flags):
    """Re-run the failing cell with an unstripped executable and RUST_BACKTRACE=1: which runtime entry point panicked."""
    work = os.path.join(C.BUILD, "tmp", "c03_bt_%d" % os.getpid())
    os.makedirs(work, exist_ok=True)
    exe, _ = build(tc, w["path"], c["backend"], c["gc"], strip=False, outdir=work)
    out = ""
    if exe:
        r = run_exe(exe, w["args"], flags, 300, extra_env={"RUST_BACKTRACE": "1"})
        fr = re.findall(r"\d+: (dora_runtime::[\w:<>]+|dora_\w+)", r["err"])
        seen = []
        for f in fr:
            if f not in seen:
                seen.append(f)
        out = " <- ".join(seen[:6])
    shutil.rmtree(work, ignore_errors=True)
    return out


# --------------------------------------------------------------------------- header-word tie

def header_tie(ctx, drv, stats):
    hbin, hlog = C.build_harness("h_c03")
    if hbin is None:
        ctx.finding("corr:build", dict(kind="correspondence", log=hlog[-3000:]),
                    "harness h_c03 does not build against /repo (HeaderWord's shape in mirror.rs changed?)", no_input=True)
        return
    n = 4000 if ctx.tier == "quick" else 200000
    reqs = []
    for f in sorted(os.listdir(CORPUS)):
        if f.endswith(".req"):
            reqs += [l.strip() for l in open(os.path.join(CORPUS, f)) if l.strip()]
    rc, gen, err = C.sh2([hbin, "gen", str(n)], env={"VERIF_SEED": str(ctx.seed)}, timeout=600)
    reqs += [l for l in gen.splitlines() if l]
    os.makedirs(os.path.join(C.BUILD, "tmp"), exist_ok=True)
    rf = os.path.join(C.BUILD, "tmp", "c03_hdr_%d.req" % os.getpid())
    open(rf, "w").write("\n".join(reqs) + "\n")
    rc1, impl, e1 = C.sh2([hbin, "run", rf], timeout=900)
    rc2, model, e2 = C.sh2([drv, "header"], stdin="\n".join(reqs) + "\n", timeout=900)
    os.unlink(rf)
    il, ml = impl.splitlines(), model.splitlines()
    if rc1 != 0 or rc2 != 0 or len(il) != len(reqs) or len(ml) != len(reqs):
        ctx.finding("corr:stream", dict(kind="correspondence", rc_impl=rc1, rc_model=rc2, n_req=len(reqs), n_impl=len(il),
                                        n_model=len(ml), stderr=(e1 + e2)[-2000:]),
                    "h_c03 or drv_c03 did not answer every header-word request", no_input=True)
        return
    for q, a, b in zip(reqs, il, ml):
        op = q.split(" ")[0]
        stats["hdr_hist"][op] = stats["hdr_hist"].get(op, 0) + 1
        stats["hdr_evaluations"] += 1
        stats["hdr_distinct"].add(q)
        if a != b:
            stats["hdr_disagreements"] += 1
            ctx.finding("corr:header:%s" % op, dict(kind="correspondence", request=q, impl=a, model=b,
                                                     how_to_replay="echo '%s' | h_c03 run ; echo '%s' | drv_c03 header" % (q, q)),
                        "HeaderWord model and implementation disagree on `%s`: impl=%s model=%s" % (q, a, b), no_input=True)
        elif len(stats["hdr_samples"]) < 3 and stats["hdr_evaluations"] % 701 == 0:
            stats["hdr_samples"].append(dict(request=q, response=a))


# --------------------------------------------------------------------------- dump leg

def dump_leg(ctx, tc, drv, wls, stats):
    tree = os.environ.get("VERIF_C03_HOOK_TREE") or C.REPO
    if not hook_present(tree):
        stats["dump_leg"] = ("skipped: the heap-dump hook (hooks/c03_heapdump.patch) is not applied to %s "
                             "(no %s in dora-runtime/src/gc.rs); no collection was validated in this run" % (tree, HOOK_MARK))
        ctx.notes.append(stats["dump_leg"])
        return
    quick = ctx.tier == "quick"
    try:
        tcv = toolchain_verif(tc, tree)
    except RuntimeError as e:
        ctx.finding("corr:build-verif-toolchain", dict(kind="correspondence", log=str(e)[-3000:]),
                    "the tool chain does not build with --cfg %s" % C.GUARD, no_input=True)
        return
    work = os.path.join(C.BUILD, "tmp", "c03_dump_%d" % os.getpid())
    shutil.rmtree(work, ignore_errors=True)
    os.makedirs(work)
    rng = random.Random("%s|dump" % ctx.seed)
    jobs = []
    for w in wls:
        if not w["corpus"] and quick:
            continue
        al = w.get("alloc") or {}
        cands = []
        for b in BACKENDS:
            for g in RECLAIMING:
                if w["scale"] in ("small", "one") and al.get("notlab") is not None and al["notlab"] <= 450:
                    cands.append(dict(backend=b, gc=g, stress="full", tlab="off", workers="2", heap="h0", young="1M" if g == "swiper" else "default"))
                    if g == "swiper":
                        cands.append(dict(backend=b, gc=g, stress="minor", tlab="off", workers="8", heap="h0", young="1M"))
                if w["scale"] in ("big", "one"):
                    cands.append(dict(backend=b, gc=g, stress="none", tlab="on", workers="2", heap="h0", young="1M" if g == "swiper" else "default"))
        if quick:
            rng.shuffle(cands)
            cands = cands[:2] if w["scale"] == "big" else cands[:1]
        for c in cands:
            jobs.append((w, c))

    def one(job):
        w, c = job
        exe, log = build(tcv, w["path"], c["backend"], c["gc"])
        if exe is None:
            return None
        df = os.path.join(work, "d%d_%d.dump" % (os.getpid(), abs(hash((w["name"], cell_name(c)))) % 10**9))
        every = "1"
        if c["stress"] != "none":
            n = (w.get("alloc") or {}).get("notlab") or 1
            every = str(max(1, n // 40))
        r = run_exe(exe, w["args"], cell_flags(c, w), 600, extra_env={"DORA_VERIF_HEAPDUMP": df, "DORA_VERIF_HEAPDUMP_EVERY": every})
        verdict = None
        if os.path.exists(df):
            rc, out, err = C.sh2([drv, "dump", df], timeout=900)
            verdict = (rc, out, err[-500:])
            if rc == 0 and "reject" not in out:
                os.unlink(df)
        return r, verdict, df

    with cf.ThreadPoolExecutor(max_workers=JOBS) as ex:
        results = list(ex.map(one, jobs))
    for (w, c), res in zip(jobs, results):
        if res is None:
            continue
        r, verdict, df = res
        stats["dump_runs"] += 1
        k = classify(r)
        bad = None
        if k[0] in ("panic", "signal") or (k[0] == "oom" and w["bounded"]):
            bad = k
        elif k[0] == "ok" and w.get("ref") is not None and (r["rc"], r["out"]) != w["ref"]:
            bad = ("differs",)
        if bad is not None:
            stats["cells_failed"] += 1
            stats["failures"].setdefault(failure_key(bad, c, w), []).append(dict(w=w, cell=c, cls=bad, r=r))
        if verdict is None:
            stats["dump_runs_without_collection"] += 1
            continue
        rc, out, err = verdict
        for line in out.splitlines():
            p = line.split(" ", 2)
            if p[0] == "ok":
                stats["collections_validated"] += 1
                m = dict(kv.split("=") for kv in line.split()[1:] if "=" in kv)
                stats["dump_objects"] += int(m.get("objects", 0))
                stats["dump_roots"] += int(m.get("roots", 0))
                stats["dump_moved"] += int(m.get("moved", 0))
                stats["dump_interior"] += int(m.get("interior", 0))
                kind = "%s/%s" % (c["gc"], m.get("kind", "?"))
                stats["dump_hist"][kind] = stats["dump_hist"].get(kind, 0) + 1
                if len(stats["dump_samples"]) < 3 and int(m.get("objects", 0)) > 20:
                    stats["dump_samples"].append(dict(workload=w["name"], cell=cell_name(c), verdict=line))
            elif p[0] == "reject":
                stats["collections_rejected"] += 1
                why = re.sub(r"0x[0-9a-f]+|\d+", "N", line.split(" ", 2)[2] if len(p) > 2 else "")[:60]
                keep = os.path.join(C.REPLAYS, "C03", "dump_%s_%s.dump" % (re.sub(r"\W", "_", w["name"]), re.sub(r"\W", "_", cell_name(c))))
                try:
                    shutil.copy(df, keep)
                except OSError:
                    keep = df
                ctx.finding("oracle:collection-rejected:%s-%s:%s" % (c["backend"], c["gc"], re.sub(r"[^A-Za-z]+", "-", why).strip("-")),
                            dict(kind="oracle", program=w["path"], args=w["args"], backend=c["backend"], gc=c["gc"],
                                 DORA_FLAGS=cell_flags(c, w), verdict=line, dump=keep,
                                 how_to_replay="lean/.lake/build/bin/drv_c03 dump %s" % keep),
                            "collection validator rejects a collection of %s [%s]: %s" % (w["name"], cell_name(c), line[:300]))
        if rc != 0:
            ctx.finding("corr:dump-parse", dict(kind="correspondence", program=w["path"], cell=cell_name(c), stdout=out[-500:], stderr=err),
                        "drv_c03 could not read the heap dump of %s [%s]: %s" % (w["name"], cell_name(c), (out + err)[-200:]), no_input=True)
    shutil.rmtree(work, ignore_errors=True)
    # validator self-test: corrupted dumps must be rejected
    st = os.path.join(CORPUS, "dumps")
    if os.path.isdir(st):
        for f in sorted(os.listdir(st)):
            rc, out, err = C.sh2([drv, "dump", os.path.join(st, f)], timeout=120)
            want_reject = f.startswith("bad_")
            got_reject = "reject" in out
            stats["selftest"] += 1
            if want_reject == got_reject and rc == 0:
                stats["selftest_ok"] += 1
            else:
                ctx.finding("corr:selftest:%s" % f, dict(kind="correspondence", file=f, stdout=out[-400:], stderr=err[-300:]),
                            "validator self-test: %s should be %s" % (f, "rejected" if want_reject else "accepted"), no_input=True)
    stats["dump_leg"] = "ran: %d runs, %d collections validated" % (stats["dump_runs"], stats["collections_validated"])


# --------------------------------------------------------------------------- entry

def run(ctx):
    po = C.proof_obligations(ctx, PROP_MODULE, PROP_FILE, extra_allowed=BV_AXIOM_PATTERNS,
                             hygiene_paths=("DoraModel/Gc", PROP_FILE))
    drv, dlog = C.lean_exe("drv_c03")
    if drv is None:
        raise RuntimeError("driver build failed:\n" + dlog[-3000:])
    tc = C.toolchain(need_boots=True)
    tc["hash"] = tc.get("hash") or C.repo_tree_hash()
    stats = dict(build_failed=[], cells_planned=0, cells_run=0, cells_ok=0, cells_failed=0, workloads=0, hist={}, secs=0.0,
                 distinct=set(), samples=[], failure_keys={}, failures={}, reference_zero=0, reference_majority=0, zero_did_not_fit=0,
                 inconclusive_timeouts=[], timeouts_retried=0, timeouts_not_reproduced=0,
                 hdr_hist={}, hdr_evaluations=0, hdr_distinct=set(), hdr_disagreements=0, hdr_samples=[],
                 dump_leg="", dump_runs=0, dump_runs_without_collection=0, collections_validated=0, collections_rejected=0,
                 dump_objects=0, dump_roots=0, dump_moved=0, dump_interior=0, dump_hist={}, dump_samples=[], selftest=0, selftest_ok=0)
    if ctx.replay:
        replay(ctx, tc, stats)
        wls = []
    else:
        header_tie(ctx, drv, stats)
        wls, exes = run_matrix(ctx, tc, stats)
        dump_leg(ctx, tc, drv, wls, stats)
        report_failures(ctx, tc, stats)
    for b in stats["build_failed"][:10]:
        ctx.notes.append("not compilable: " + b)
    if not po["build_ok"] or po["failed"]:
        ctx.finding("proof:C03", dict(kind="proof", failed=po["failed"], log=po.get("build_log_tail", "")),
                    "property theorems of C03 no longer check: %s" % "; ".join(po["failed"])[:400],
                    no_input=not (stats["cells_failed"] or stats["hdr_disagreements"] or stats["collections_rejected"]))
    programs = len({w["prog"] for w in wls})
    # allocation sequences of the baseline generator (initial remembered bit vs the runtime's large-object rule, array
    # sizes): theorems over the regenerated masm model; a break runs the machine leg's search under this property
    from . import c01_masm
    alloc = c01_masm.alloc_obligations(ctx)
    po["obligations"] += alloc["obligations"]
    po["discharged"] += alloc["discharged"]
    po["theorems"] = dict(po["theorems"], **alloc["theorems"])
    cov = dict(
        obligations=po["obligations"], discharged=po["discharged"], checker_cmd=po["checker_cmd"] + " (and DoraModel.Props.C13Masm)",
        masm_alloc=dict(module=alloc["module"], obligations=alloc["obligations"], discharged=alloc["discharged"],
                        runtime_rules=alloc["runtime_rules"], search=alloc.get("search")),
        trusted_base=po["trusted_base"] + [
            "bv_decide (header-word bit-vector theorems): its native axiom = compiled LRAT checker + CaDiCaL certificate",
            "hand transcription DoraModel/Gc/Header.lean of HeaderWord, tied by h_c03 vs drv_c03",
            "heap-dump hook (hooks/c03_heapdump.patch): walks the heap with the runtime's own visit_reference_fields/size; "
            "the validator sees only what it writes",
            "checks/c03.py (matrix, oracle, minimiser), drv_c03's dump parser"],
        theorems=po["theorems"],
        evaluations=stats["cells_run"] + stats["hdr_evaluations"] + stats["collections_validated"],
        distinct_nontrivial=len(stats["distinct"]) + stats["collections_validated"],
        rule="matrix: one case = (program, arguments, code generator, collector, DORA_FLAGS); cells per workload are a seeded "
             "greedy pairwise cover (quick) / all valid cells (thorough, corpus) of backend x collector x stress x tlab x workers x "
             "heap x young-size, plus four zero-collector cells; stress cells are only planned when the measured number of "
             "allocations makes them affordable for the debug runtime. Non-trivial = ran under a collector-stress switch or "
             "allocated several times its heap (big scale), distinct by (workload, flags, build). Header tie: requests from "
             "`h_c03 gen` (seeded), counted apart in header_tie. Dump leg: one case = one collection (pre/post heap graph).",
        samples=(stats["samples"] + stats["hdr_samples"] + stats["dump_samples"]) or [dict(note="none")],
        histogram=stats["hist"], programs=programs, workloads=stats["workloads"],
        matrix=dict(cells_planned=stats["cells_planned"], cells_run=stats["cells_run"], cells_ok=stats["cells_ok"],
                    cells_failed=stats["cells_failed"], failure_keys=stats["failure_keys"], executables=stats.get("executables", 0),
                    reference_zero=stats["reference_zero"], reference_majority=stats["reference_majority"],
                    zero_did_not_fit=stats["zero_did_not_fit"], pair_coverage=stats.get("pair_coverage"), inconclusive_timeouts=stats["inconclusive_timeouts"][:20],
                    timeouts_not_reproduced=stats["timeouts_not_reproduced"], cpu_seconds=round(stats["secs"], 1),
                    build_s=stats.get("build_s"), calibration_s=stats.get("calibration_s"), run_s=stats.get("run_s")),
        header_tie=dict(evaluations=stats["hdr_evaluations"], distinct=len(stats["hdr_distinct"]), histogram=stats["hdr_hist"],
                        disagreements=stats["hdr_disagreements"]),
        dump_leg=dict(status=stats["dump_leg"], runs=stats["dump_runs"], runs_without_collection=stats["dump_runs_without_collection"],
                      collections_validated=stats["collections_validated"], collections_rejected=stats["collections_rejected"],
                      objects_matched=stats["dump_objects"], roots_matched=stats["dump_roots"], objects_moved=stats["dump_moved"],
                      interior_roots=stats["dump_interior"], histogram=stats["dump_hist"],
                      selftest=dict(files=stats["selftest"], as_expected=stats["selftest_ok"])),
        collections_validated=stats["collections_validated"],
        disagreements=stats["hdr_disagreements"], oracle_failures=stats["cells_failed"] + stats["collections_rejected"],
        explanation="proof (partial): the header-word algebra and the soundness of the collection validator are Lean theorems; the "
                    "collectors themselves are NOT verified - they are run over the configuration matrix and compared, and (when "
                    "the hook is applied) each dumped collection is checked by the proven validator.")
    ctx.write_evidence("proof", cov, assumptions=[
        "the zero collector (no collection ever) or, where it does not fit, the majority of cells is the reference output",
        "multi-threaded workloads are run as scheduled by the OS; no seeded perturbation of interleavings is applied",
        "reclamation is checked through the matrix (bounded-live programs allocating several times the heap never exit 106), "
        "not through the heap dump (the dump shows the reachable graph only, not the space contents)",
        "the heap dump shows what the runtime's own root and field iteration shows: a root or field the runtime never visits is "
        "invisible to the validator too and is only caught by the output comparison under gc-stress"])


def replay(ctx, tc, stats):
    r = json.load(open(ctx.replay))
    if r.get("request"):
        return
    p = r.get("program")
    if not p or not os.path.exists(p):
        p = os.path.join(C.BUILD, "tmp", "c03_replay.dora")
        open(p, "w").write(r.get("minimised_program", ""))
    exe, log = build(tc, p, r["backend"], r["gc"])
    if exe is None:
        C.log("replay: program does not build: " + log[-300:])
        return
    res = run_exe(exe, r.get("args", []), r["DORA_FLAGS"], 600)
    cell = dict(backend=r["backend"], gc=r["gc"], stress="none")
    k = classify(res)
    C.log("replay: exit=%s %s" % (res["rc"], describe(k, res) if k[0] != "ok" else "stdout=%r" % res["out"][:200]))
    exp = r.get("expected")
    if k[0] != "ok" or (exp and (res["rc"], res["out"][:400]) != (exp["exit"], exp["stdout"])):
        stats["cells_failed"] += 1
        ctx.finding(r.get("key", failure_key(k, cell)), dict(r, observed_now=dict(exit=res["rc"], stdout=res["out"][:400], stderr=res["err"][-800:])),
                    "replay still fails: %s" % (describe(k, res) if k[0] != "ok" else "output differs from the expected one"))
