"""C07 — Every x86-64 instruction is encoded as the instruction that was requested.

tie:    tools/rs2lean_x64.py regenerates lean/DoraModel/Gen/X64*.lean from /repo/dora-asm/src/x64.rs on every run
proof:  lean/DoraModel/Props/C07.lean, Props/C07Addr.lean, Props/C07Jumps.lean (+ the generated per-method theorems in
        Gen/X64Thm*.lean (register-only methods) and Gen/X64Addr*.lean (address-taking methods))
corr:   h_c07 (real dora-asm) vs drv_c07 (regenerated model): byte equality on the same request file
oracle: on the implementation's own bytes: reference decoder (X64/Dec.lean) = requested instruction (X64/Spec.lean),
        label operands land on the bound position; reference decoder = llvm-mc --disassemble on every byte string
"""
import json
import os
import re
import shutil
import subprocess

from . import common as C

PROP_MODULE = "DoraModel.Props.C07"
PROP_FILE = "DoraModel/Props/C07.lean"
TRANSLATOR = os.path.join(C.VERIF, "tools", "rs2lean_x64.py")


# ----------------------------------------------------------------------------- AT&T canonicalisation

MEM_RE = re.compile(r"^(\*)?(-?\d+)?\((%\w+)?(?:,(%\w+)(?:,(\d))?)?\)$")
BRANCH = re.compile(r"^(j[a-z]+|callq?|jmpq?)$")


def split_ops(s):
    out, depth, cur = [], 0, ""
    for ch in s:
        if ch == "(":
            depth += 1
        elif ch == ")":
            depth -= 1
        if ch == "," and depth == 0:
            out.append(cur.strip())
            cur = ""
        else:
            cur += ch
    if cur.strip():
        out.append(cur.strip())
    return out


def canon_instr(text):
    """AT&T text -> (lock, mnemonic, (operands…)); same function for the Lean printer and for llvm-mc."""
    text = text.strip()
    lock = False
    if text.startswith("lock"):
        lock = True
        text = text[4:].strip()
    parts = text.split(None, 1)
    mn = parts[0]
    ops = []
    for o in split_ops(parts[1]) if len(parts) > 1 else []:
        if o.startswith("$"):
            ops.append(("imm", int(o[1:], 0)))
        elif o.startswith("%"):
            ops.append(("reg", o[1:]))
        elif o.startswith("*%"):
            ops.append(("ind", o[2:]))
        else:
            m = MEM_RE.match(o)
            if m:
                disp = int(m.group(2) or 0)
                base, idx = m.group(3), m.group(4)
                scale = int(m.group(5) or 1) if idx else None
                ops.append(("mem", bool(m.group(1)), disp, base, idx, scale))
            elif re.match(r"^-?\d+$", o):
                if BRANCH.match(mn):
                    ops.append(("rel", int(o)))
                else:
                    ops.append(("mem", False, int(o), None, None, None))
            elif re.match(r"^\*-?\d+$", o):
                ops.append(("mem", True, int(o[1:]), None, None, None))
            else:
                ops.append(("?", o))
    return (lock, mn, tuple(ops))


def same_instr(a, b, bits):
    if a[0] != b[0] or a[1] != b[1] or len(a[2]) != len(b[2]):
        return False
    for x, y in zip(a[2], b[2]):
        if x[0] == "imm" and y[0] == "imm":
            if (x[1] - y[1]) % (1 << bits) != 0:
                return False
        elif x != y:
            return False
    return True


def parse_lean_att(s):
    """`text #bits;text #bits` -> [(canon, bits)]"""
    res = []
    for part in s.split(";"):
        if " #" in part:
            t, b = part.rsplit(" #", 1)
            res.append((canon_instr(t), int(b)))
        else:
            res.append(((False, part, ()), 64))
    return res


def llvm_mc():
    for n in ("llvm-mc", "llvm-mc-14"):
        p = shutil.which(n)
        if p:
            return p
    return None


def llvm_disassemble(mc, hexes):
    """list of hex strings -> list of lists of canon instructions (None where alignment was lost)"""
    res = [None] * len(hexes)

    def run(lo, hi):
        inp = []
        for h in hexes[lo:hi]:
            inp.append(" ".join("0x" + h[i:i + 2] for i in range(0, len(h), 2)) + " 0xcc")
        p = subprocess.run([mc, "--disassemble", "-triple=x86_64", "-mattr=+avx,+avx2,+lzcnt,+bmi,+popcnt,+sse4.1"],
                           input="\n".join(inp) + "\n", stdout=subprocess.PIPE, stderr=subprocess.PIPE, text=True)
        cases, cur, pending_lock = [], [], False
        for line in p.stdout.splitlines():
            line = line.split("#")[0].strip()
            if not line or line.startswith("."):
                continue
            line = re.sub(r"\s+", " ", line)
            if line == "int3":
                cases.append(cur)
                cur = []
                continue
            if line == "lock":
                pending_lock = True
                continue
            if pending_lock:
                line = "lock " + line
                pending_lock = False
            cur.append(canon_instr(line))
        clean = "invalid instruction" not in p.stderr and "warning" not in p.stderr
        if len(cases) == hi - lo and clean:
            for k, c in enumerate(cases):
                res[lo + k] = c
        elif hi - lo == 1:
            res[lo] = cases[0] if (len(cases) == 1 and clean) else [(False, "<llvm: invalid encoding>", ())]
        else:
            mid = (lo + hi) // 2
            run(lo, mid)
            run(mid, hi)

    step = 20000
    for lo in range(0, len(hexes), step):
        run(lo, min(len(hexes), lo + step))
    return res


# ----------------------------------------------------------------------------- one request file

def nontrivial(req):
    """uses a register ≥ 8, or an address with SIB / displacement, or a boundary immediate, or a label"""
    toks = req.split()
    if any(t in ("off", "idx", "arr", "rip") for t in toks) or ";" in toks:
        return True
    for t in toks[2:]:
        try:
            v = int(t)
        except ValueError:
            continue
        if 8 <= v <= 15 or v < 0 or v >= 127:
            return True
    return False


def shape(req):
    toks = req.split()
    if ";" in toks:
        return "script"
    kinds = [t for t in toks[2:] if t in ("off", "idx", "arr", "rip")]
    return kinds[0] if kinds else "plain"


def classify(spec_txt, dec_txt):
    s = parse_lean_att(spec_txt)
    d = parse_lean_att(dec_txt)
    if len(s) != len(d):
        return "length"
    for (a, _), (b, _) in zip(s, d):
        if a[1] != b[1] or a[0] != b[0]:
            return "mnemonic"
        if a[2] != b[2]:
            kinds = set(x[0] for x in a[2]) | set(x[0] for x in b[2])
            if any(x[0] in ("rel",) for x in a[2]) and [x for x in a[2] if x[0] != "rel"] == [x for x in b[2] if x[0] != "rel"]:
                return "label-target"
            return "operands"
    return "other"


def run_requests(ctx, hbin, drv, mc, reqs, label, stats):
    os.makedirs(C.BUILD + "/tmp", exist_ok=True)
    rf = os.path.join(C.BUILD, "tmp", "c07_%s_%d.req" % (label, os.getpid()))
    open(rf, "w").write("\n".join(reqs) + "\n")
    rc1, impl, err1 = C.sh2([hbin, "run", rf], timeout=3000)
    rc2, model, err2 = C.sh2("%s < %s" % (drv, rf), timeout=3000)
    os.unlink(rf)
    il = impl.splitlines()
    ml = model.splitlines()
    if rc1 != 0 or rc2 != 0 or len(il) != len(reqs) or len(ml) != len(reqs):
        ctx.finding("corr:stream", dict(kind="correspondence", detail="response streams incomplete",
                                        rc_impl=rc1, rc_model=rc2, n_req=len(reqs), n_impl=len(il),
                                        n_model=len(ml), stderr=(err1 + err2)[-2000:]),
                    "harness or driver did not answer every request", no_input=True)
        return
    to_llvm = {}          # hex -> (request, decoded text)
    for i, req in enumerate(reqs):
        stats["evaluations"] += 1
        toks = req.split(" ")
        method = toks[1] if len(toks) > 1 else "?"
        sh = shape(req)
        stats["hist"][sh] = stats["hist"].get(sh, 0) + 1
        stats["methods"].add(method if sh != "script" else "script")
        iv = "!panic" if il[i].startswith("!panic") else il[i]
        mparts = ml[i].split("\t")
        mv = mparts[0]
        if nontrivial(req):
            stats["distinct"].add(req)
        if iv != mv:
            stats["disagreements"] += 1
            ctx.finding("corr:%s" % (method if sh != "script" else "script"),
                        dict(kind="correspondence", request=req, impl=iv, model=ml[i],
                             how_to_replay="./check C07 --replay <this file>"),
                        "regenerated model and Rust assembler disagree on `%s`: impl=%s model=%s" % (req[:160], iv[:80], mv[:80]),
                        no_input=True)
            continue
        if iv == "!panic":
            stats["hist"]["refused"] = stats["hist"].get("refused", 0) + 1
            continue
        if len(mparts) < 4:
            continue
        status, spec_txt, dec_txt = mparts[1], mparts[2], mparts[3]
        stats["status"][status] = stats["status"].get(status, 0) + 1
        if len(stats["samples"]) < 6 and nontrivial(req) and i % 9973 == 17:
            stats["samples"].append(dict(request=req, impl=iv, model_bytes=mv, requested=spec_txt, decoded=dec_txt))
        if status == "mismatch":
            stats["oracle_failures"] += 1
            kind = classify(spec_txt, dec_txt)
            name = method if sh != "script" else "script"
            ctx.finding("oracle:%s:%s" % (name, kind),
                        dict(kind="oracle", request=req, bytes=iv, requested=spec_txt, decoded=dec_txt,
                             how_to_replay="./check C07 --replay <this file>  (or: echo '<request>' | h_c07 run)"),
                        "`%s` emits %s, which decodes to `%s`, not to the requested `%s`"
                        % (req[:120], iv[:40], dec_txt[:80], spec_txt[:80]))
        elif status == "nospec":
            stats["unspecified_hits"] += 1
        if status in ("ok", "mismatch") and dec_txt not in ("undecodable", "") and iv != "-" \
                and method not in ("int3", "align_to") and "int3" not in dec_txt:
            to_llvm.setdefault(iv, (req, dec_txt))
    if mc and to_llvm:
        hexes = list(to_llvm.keys())
        dis = llvm_disassemble(mc, hexes)
        for h, got in zip(hexes, dis):
            req, dec_txt = to_llvm[h]
            want = parse_lean_att(dec_txt)
            stats["llvm_checked"] += 1
            ok = got is not None and len(got) == len(want) and all(same_instr(w[0], g, w[1]) for w, g in zip(want, got))
            if not ok:
                stats["llvm_disagreements"] += 1
                ctx.finding("oracle:llvm:%s" % req.split(" ")[1],
                            dict(kind="oracle", request=req, bytes=h, reference_decoder=dec_txt, llvm=str(got)[:600]),
                            "reference decoder and llvm-mc disagree on %s (from `%s`): decoder `%s`, llvm %s"
                            % (h[:40], req[:100], dec_txt[:100], str(got)[:160]))


# ----------------------------------------------------------------------------- failed theorems -> findings

def failed_theorems(log):
    """error positions of a failed `lake build` -> [(theorem name or None, file, line, first line of the message)]"""
    res, seen = [], set()
    for m in re.finditer(r"error: (?:\./)*(DoraModel/[\w/]+\.lean):(\d+):(\d+): ([^\n]*)", log):
        f, line, msg = m.group(1), int(m.group(2)), m.group(4)
        name = None
        try:
            src = open(os.path.join(C.LEAN, f), encoding="utf-8").read().splitlines()
            for k in range(min(line, len(src)) - 1, -1, -1):
                mm = re.match(r"^(?:@\[[^\]]*\]\s*)?(?:private\s+|protected\s+)?theorem\s+([^\s:({\[]+)", src[k])
                if mm:
                    name = mm.group(1)
                    break
        except OSError:
            pass
        if (name, f) not in seen:
            seen.add((name, f))
            res.append((name, f, line, msg[:200]))
    return res


ADDR_DISPS = [-2147483648, -2147483647, -129, -128, -127, -1, 0, 1, 127, 128, 129, 2147483646, 2147483647]
SUFFIXES = ("_addr", "_offset_ok", "_index_ok", "_array_ok", "_rip_ok", "_ok", "_all")


def method_of_theorem(name, sigs):
    for suf in SUFFIXES:
        if name.endswith(suf) and name[:-len(suf)] in sigs:
            return name[:-len(suf)]
    return None


def address_grid():
    """all four Address shapes: every base / index / scale x the displacements at which the encoding changes"""
    out = []
    for d in ADDR_DISPS:
        out.append("rip %d" % d)
        for b in range(16):
            out.append("off %d %d" % (b, d))
        for i in range(16):
            for sc in range(4):
                out.append("idx %d %d %d" % (i, sc, d))
    for b in range(16):
        for i in range(16):
            for sc in range(4):
                for d in (-2147483648, -129, -128, -1, 0, 1, 127, 128, 2147483647):
                    out.append("arr %d %d %d %d" % (b, i, sc, d))
    return out


def search_requests(method, sig):
    """the operand grid of one method for the search after a failed theorem (deterministic, no seed needed)"""
    regs_full = [str(x) for x in range(16)]
    regs_some = ["0", "3", "4", "5", "7", "8", "9", "12", "13", "15"]
    imms = ["0", "1", "-1", "127", "128", "-128", "-129", "255", "256", "65535", "2147483647", "2147483648",
            "-2147483648", "-2147483649", "4294967295", "4294967296", "9223372036854775807", "-9223372036854775808"]
    lists = []
    nreg = 0
    for k in sig:
        if k in "rx":
            lists.append(regs_full if (nreg == 0 and "a" not in sig) else regs_some)
            nreg += 1
        elif k == "a":
            lists.append(address_grid())
        elif k == "i":
            lists.append(imms)
        elif k == "c":
            lists.append([str(x) for x in range(28)])
        elif k == "b":
            lists.append(["0", "1", "3", "7", "8", "255"])
        elif k == "d":
            lists.append([str(x) for x in ADDR_DISPS])
        else:
            return []
    reqs = []

    def rec(i, acc):
        if i == len(lists):
            for avx in "01":
                reqs.append("%s %s %s" % (avx, method, " ".join(acc)))
            return
        for v in lists[i]:
            rec(i + 1, acc + [v])
    rec(0, [])
    return reqs


# ----------------------------------------------------------------------------- main

def regenerate():
    """Regenerate Gen/X64*.lean and the harness dispatch table from /repo's current x64.rs (used by ./check setup;
    run() does the same at its start)."""
    os.makedirs(C.BUILD + "/tmp", exist_ok=True)
    rep_path = os.path.join(C.BUILD, "tmp", "c07_translator_setup.json")
    rc, out = C.sh(["python3", TRANSLATOR, "--report", rep_path], timeout=600)
    if rc != 0:
        raise RuntimeError("translator failed:\n" + out[-2000:])

def run(ctx):
    os.makedirs(C.BUILD + "/tmp", exist_ok=True)
    # the kernel evaluations behind `decide +kernel` allocate and free a lot; mimalloc's default of purging freed pages
    # after 10 ms costs more system time than the evaluation itself (measured with strace: 26k madvise calls per module)
    os.environ.setdefault("MIMALLOC_PURGE_DELAY", "2000")
    rep_path = os.path.join(C.BUILD, "tmp", "c07_translator_%d.json" % os.getpid())
    rc, out = C.sh(["python3", TRANSLATOR, "--report", rep_path], timeout=600)
    if rc != 0:
        raise RuntimeError("translator failed:\n" + out[-3000:])
    rep = json.load(open(rep_path))
    os.unlink(rep_path)
    gen_thms = [n for mod in sorted(rep["theorem_modules"]) for n in rep["theorem_modules"][mod]]
    addr_mods = rep.get("addr_theorem_modules", {})
    addr_thms = [n for mod in sorted(addr_mods) for n in addr_mods[mod]]
    # hand-written property files imported by Props/C07.lean: their theorems are obligations too
    prop_src = open(os.path.join(C.LEAN, PROP_FILE), encoding="utf-8").read()
    side_files = [f for f in ("DoraModel/Props/C07Addr.lean", "DoraModel/Props/C07Jumps.lean")
                  if os.path.exists(os.path.join(C.LEAN, f))
                  and re.search(r"^import %s\s*$" % re.escape(f[:-5].replace("/", ".")), prop_src, re.M)]
    side_thms = [n for f in side_files for n in C.lean_theorems(f)]
    hy = ["DoraModel/X64", PROP_FILE, "DoraModel/Gen/X64.lean", "DoraModel/Gen/X64Dispatch.lean"] + side_files + \
         ["DoraModel/Gen/%s.lean" % m.split(".")[-1] for m in list(rep["theorem_modules"]) + list(addr_mods)]
    po = C.proof_obligations(ctx, PROP_MODULE, PROP_FILE, hygiene_paths=tuple(hy),
                             extra_theorems=gen_thms + addr_thms + side_thms)
    drv, dlog = C.lean_exe("drv_c07")
    hbin, hlog = C.build_harness("h_c07")
    if hbin is None:
        ctx.finding("corr:build", dict(kind="correspondence", log=hlog[-3000:]),
                    "harness does not build against /repo (API of dora-asm changed?)", no_input=True)
    if drv is None:
        ctx.finding("corr:driver-build", dict(kind="correspondence", log=dlog[-3000:]),
                    "the regenerated model / driver does not build (translator output rejected by Lean)", no_input=True)
    mc = llvm_mc()
    stats = dict(evaluations=0, distinct=set(), samples=[], hist={}, status={}, disagreements=0, oracle_failures=0,
                 llvm_checked=0, llvm_disagreements=0, unspecified_hits=0, methods=set())
    if hbin and drv:
        if ctx.replay:
            r = json.load(open(ctx.replay))
            reqs = [r["request"]] if "request" in r else []
            run_requests(ctx, hbin, drv, mc, reqs, "replay", stats)
        else:
            cdir = os.path.join(C.VERIF, "corpus", "C07")
            if os.path.isdir(cdir):
                for f in sorted(os.listdir(cdir)):
                    if f.endswith(".req"):
                        reqs = [l.strip() for l in open(os.path.join(cdir, f)) if l.strip() and not l.startswith("#")]
                        run_requests(ctx, hbin, drv, mc, reqs, "corpus", stats)
            level = "0" if ctx.tier == "quick" else "1"
            rc, gen, err = C.sh2([hbin, "gen", level], env={"VERIF_SEED": str(ctx.seed)}, timeout=3000)
            reqs = [l for l in gen.splitlines() if l]
            step = 500000
            for lo in range(0, len(reqs), step):
                run_requests(ctx, hbin, drv, mc, reqs[lo:lo + step], "gen%d" % lo, stats)
    # unmodelled / unspecified are broken ties, never silent
    instr_unmodelled = [m["name"] for m in rep["methods"] if not m["admin"] and (m["sig"] is None or not m["modelled"])]
    if instr_unmodelled:
        ctx.finding("corr:unmodelled", dict(kind="correspondence", methods=instr_unmodelled, reasons=rep["unmodelled"]),
                    "public instruction methods the translator cannot model: %s" % ", ".join(instr_unmodelled)[:300],
                    no_input=True)
    if rep["unspecified"]:
        ctx.finding("corr:unspecified", dict(kind="correspondence", methods=rep["unspecified"]),
                    "public instruction methods without an entry in X64/Spec.lean: %s" % ", ".join(rep["unspecified"])[:300],
                    no_input=True)
    if not po["build_ok"] or po["failed"]:
        # which theorems? `lake build` stops at the first failing module of a dependency chain; build the generated
        # theorem modules with --keep-going semantics (one target at a time is too slow: ask lake for all of them, it
        # reports every module that fails) to name every broken per-method theorem
        log_all = po.get("build_log_tail", "")
        if not po["build_ok"]:
            targets = [PROP_MODULE] + sorted(rep["theorem_modules"]) + sorted(addr_mods)
            with C.FLock("lake"):
                rc_k, out_k = C.sh(["lake", "build"] + targets, cwd=C.LEAN, timeout=3000)
            log_all = out_k
        sigs = {m["name"]: m["sig"] for m in rep["methods"] if m["sig"] is not None}
        failed = failed_theorems(log_all)
        named = [(n, f, ln, msg) for (n, f, ln, msg) in failed if n]
        searched = {}
        for (n, f, ln, msg) in named[:12]:
            meth = method_of_theorem(n, sigs)
            hits_before = stats["disagreements"] + stats["oracle_failures"]
            if meth and hbin and drv and meth not in searched:
                reqs = search_requests(meth, sigs[meth])
                step = 400000
                for lo in range(0, len(reqs), step):
                    run_requests(ctx, hbin, drv, mc, reqs[lo:lo + step], "search_%s_%d" % (meth, lo), stats)
                searched[meth] = stats["disagreements"] + stats["oracle_failures"] - hits_before
            found = (searched.get(meth, 0) > 0) if meth else (stats["disagreements"] + stats["oracle_failures"] > 0)
            ctx.finding("proof:%s" % n, dict(kind="proof", theorem=n, file=f, line=ln, message=msg, method=meth,
                                              search_requests=len(search_requests(meth, sigs[meth])) if meth else 0,
                                              search_hits=searched.get(meth, 0) if meth else None,
                                              how_to_replay="cd /verif/lean && lake build %s" % f[:-5].replace("/", ".")),
                        "theorem %s (%s:%d) no longer checks against the regenerated model: %s%s"
                        % (n, f, ln, msg[:120],
                           ("; search over the operand grid of `%s`: %d failing operands (reported as oracle:/corr: findings)"
                            % (meth, searched.get(meth, 0))) if meth else ""),
                        no_input=not found)
        if not named:
            found_input = stats["disagreements"] > 0 or stats["oracle_failures"] > 0
            ctx.finding("proof:C07", dict(kind="proof", failed=po["failed"], log=log_all[-3000:]),
                        "property theorems of C07 no longer check: %s" % "; ".join(po["failed"])[:400],
                        no_input=not found_input)
    if mc is None:
        ctx.notes.append("llvm-mc not found: reference decoder not cross-checked on this run")
    cov = dict(obligations=po["obligations"], discharged=po["discharged"], checker_cmd=po["checker_cmd"],
               trusted_base=po["trusted_base"] + [
                   "tools/rs2lean_x64.py + rsparse.py (Rust subset -> Lean; validated per run by the byte-equality sweep)",
                   "X64/Prelude.lean: Rust integer/cast reading and the hand model of dora-asm/src/lib.rs (AssemblerBuffer), "
                   "tied by the sweep only",
                   "X64/Dec.lean (reference decoder) and X64/Spec.lean (requested instruction per method): hand-written "
                   "specifications, the decoder validated against llvm-mc 14 on every byte string of the sweep",
                   "harness h_c07, driver drv_c07, checks/c07.py"],
               theorems=po["theorems"],
               leanchecker_rc=po.get("leanchecker_rc"),
               generated_theorems=len(gen_thms),
               generated_address_theorems=len(addr_thms),
               address_methods_without_theorem=rep.get("addr_skipped", {}),
               translated_functions=len(rep["translated"]),
               unmodelled=rep["unmodelled"],
               unspecified=rep["unspecified"],
               public_methods=len([m for m in rep["methods"] if not m["admin"]]),
               methods_swept=len(stats["methods"]),
               evaluations=stats["evaluations"], distinct_nontrivial=len(stats["distinct"]),
               rule="requests from `h_c07 gen` (seeded): every public method x both has_avx2 values x register operands "
                    "(quick: all 16 for the first register operand, {0,3,4,5,7,8,12,13,15} for the others; thorough: all) x "
                    "address shapes off/idx/arr/rip over all 16 bases and indices incl. rsp/rbp/r12/r13, scales 1-8, "
                    "displacements {0,+-1,+-127,+-128,+-129,i32 MIN/MAX,random} x boundary and random immediates (after a failed "
                    "per-method theorem additionally the full grid of that method: all bases x indexes x scales x the "
                    "displacements -2^31,-129,-128,-1,0,1,127,128,2^31-1 for all four Address shapes); label "
                    "scripts: forward/backward references at distances around the rel8 limit, unbound/rebound labels, random "
                    "programs. non-trivial = uses a register >= 8, an address operand, a negative or >= 127 operand, or a label script",
               histogram=dict(stats["hist"], **{"status_" + k: v for k, v in stats["status"].items()}),
               samples=stats["samples"] or [dict(note="no sample")],
               disagreements=stats["disagreements"], oracle_failures=stats["oracle_failures"],
               llvm_checked=stats["llvm_checked"], llvm_disagreements=stats["llvm_disagreements"],
               exhaustive=False)
    ctx.write_evidence("proof", cov, assumptions=[
        "the Dora-side assembler pkgs/boots/assembler/x64.dora is not driven by this check",
        "u8 additions in x64.rs are modelled as wrapping (Rust debug builds would panic on overflow; none can overflow)",
        "XmmRegister::new accepts any u8; the property and the theorems quantify over the 16 architectural registers",
        "per-method theorems speak about the bytes a method leaves in a fresh assembler (position = end of buffer)"])
