"""C11 — Match exhaustiveness and reachability are decided exactly.

proof:  lean/DoraModel/Props/C11.lean over the model lean/DoraModel/Match/Model.lean
        (function-by-function transcription of dora-frontend/src/exhaustiveness.rs incl. convert_pattern)
tie:    hand model + correspondence: h_c11 (real front end, in-process) vs drv_c11 (Lean model) on the same
        S-expression requests (type declarations + one match); verdict, witness text, useless (sub-)patterns;
        the driver answers `!illtyped` when an arm's pattern fails `spatWT` (hypothesis of accepted_no_fallthrough)
oracle: the driver also evaluates the SURFACE semantics (smatch / firstMatch, `..` skips to the end) by brute
        force over all values (literal types: the literals that occur + one fresh); the real front end's
        answers are checked against that: accepted => every value matched by an unguarded arm; rejected =>
        some value unmatched; arm reported unreachable <=> no value reaches it; no panic.
run-time half: accepted matches over finite scrutinee types are compiled (dora compile --cannon) into one
        program that evaluates every match on every value (and every combination of guard outcomes); the
        arm taken must be the model's firstMatch.
literal leg: `h_c11 genlit` writes matches over Int64 / Int32 / UInt8 / Char / String scrutinees with literal arms
        (`(lm L (arms) (selector values))`: dense literal sets = jump table, sparse = binary search, smallest literal
        0 / non-zero / negative / the type's minimum, largest = the maximum, duplicates, guards, alternatives, consts,
        hex / binary / underscore spellings, `_` or binding default). They go through the same verdict comparison, and
        the accepted ones are compiled with BOTH code generators; the selector values (every literal, neighbours of
        the range, the type's extremes, 0, -1, values congruent to a literal modulo 2^8/2^16/2^31/2^32) come out of an
        array at run time. Arm taken = the model's firstMatch (`firstMatch_least`); keys
        `oracle:runtime-arm:lit:<type>:<back end>`, `oracle:runtime-trap:lit:<type>:<back end>`.
"""
import concurrent.futures
import json
import os
import re
import shutil

from . import common as C

PROP_MODULE = "DoraModel.Props.C11"
PROP_FILE = "DoraModel/Props/C11.lean"
TMP = os.path.join(C.BUILD, "tmp")


# --------------------------------------------------------------------------- request shape

def tokens(req):
    return req.replace("(", " ( ").replace(")", " ) ").split()


def parse(req):
    toks = tokens(req)
    pos = 0

    def rd():
        nonlocal pos
        t = toks[pos]
        pos += 1
        if t == "(":
            xs = []
            while toks[pos] != ")":
                xs.append(rd())
            pos += 1
            return xs
        return t
    return rd()


def walk(p, f):
    f(p)
    if isinstance(p, list):
        for x in p:
            walk(x, f)


def shape(req):
    """Features of a request (for the histogram, the non-trivial rule and for finding keys)."""
    try:
        t = parse(req)
    except Exception:
        return dict(bad=True)
    arms = t[2] if t[0] == "lm" else t[3]
    feats = dict(rows=len(arms), guard=False, alt=False, nested=False, rest_ctor_not_last=False,
                 rest_ctor_last=False, rest_tuple=False, named=False, lit=False, binder=False, depth=0)

    def pat(p, d):
        feats["depth"] = max(feats["depth"], d)
        if not isinstance(p, list):
            return
        h = p[0]
        if h == "|":
            feats["alt"] = True
            for x in p[1:]:
                pat(x, d)
        elif h in ("i", "c", "s") or (h == "k" and len(p) == 2 and p[1].lstrip("-").isdigit()):
            feats["lit"] = True
        elif h == "v":
            feats["binder"] = True
        elif h in ("t", "k", "e"):
            items = p[1:] if h == "t" else (p[2:] if h == "k" else p[3:])
            if d >= 1 and items:
                feats["nested"] = True
            for i, it in enumerate(items):
                if it == "..":
                    if h == "t":
                        feats["rest_tuple"] = True
                    elif i + 1 < len(items):
                        feats["rest_ctor_not_last"] = True
                    else:
                        feats["rest_ctor_last"] = True
                elif isinstance(it, list) and it and it[0] == "=":
                    feats["named"] = True
                    pat(it[2], d + 1)
                else:
                    pat(it, d + 1)
    for a in arms:
        if a[0] == "g":
            feats["guard"] = True
        pat(a[1], 0)
    if t[0] == "lm":
        feats["lm"] = True
        feats["lty"] = t[1]
        feats.update(lit_lowering(t))
    return feats


def lit_lowering(t):
    """which lowering int_dispatch.rs chooses for an `lm` request (for the histogram and the finding text only)"""
    vals, binder = set(), False

    def pat(p):
        nonlocal binder
        if isinstance(p, list) and p:
            if p[0] in ("i", "k"):
                vals.add(int(p[1]))
            elif p[0] == "v":
                binder = True
            elif p[0] == "|":
                for x in p[1:]:
                    pat(x)
    for a in t[2]:
        pat(a[1])
    if t[1] not in ("Int64", "Int32", "UInt8") or binder:
        return dict(lowering="chain")          # generic test-and-branch chain (gen_int_match returns None for a binder)
    if len(vals) >= 3 and max(vals) - min(vals) + 1 <= 128:
        return dict(lowering="table")
    return dict(lowering="bsearch")


def nontrivial(f):
    return (not f.get("bad")) and (f["alt"] or f["nested"] or f["guard"])


def useless_arms(algo):
    """whole-arm entries of `useless[...]` (entries `k:` with empty path)."""
    m = re.search(r"useless\[([^\]]*)\]", algo)
    if not m or not m.group(1):
        return []
    return sorted(int(e[:-1]) for e in m.group(1).split(";") if e.endswith(":"))


def truth_fields(truth):
    """('exhaustive'|'missing', missing index or None, [unreachable arms]) or None if not computed."""
    m = re.match(r"^(exhaustive|missing@(\d+)) unreach\[([^\]]*)\]$", truth)
    if not m:
        return None
    un = [int(x) for x in m.group(3).split(";")] if m.group(3) else []
    return ("exhaustive" if m.group(1) == "exhaustive" else "missing",
            int(m.group(2)) if m.group(2) else None, un)


# --------------------------------------------------------------------------- running both sides

def run_impl(hbin, reqs, label, jobs=12):
    """Answers of the real front end, in request order; the file is split over several processes."""
    os.makedirs(TMP, exist_ok=True)
    if not reqs:
        return [], ""
    n = max(1, min(jobs, (len(reqs) + 199) // 200))
    chunks = [reqs[i::n] for i in range(n)]
    files = []
    for i, ch in enumerate(chunks):
        fp = os.path.join(TMP, "c11_%s_%d_%d.req" % (label, os.getpid(), i))
        open(fp, "w").write("\n".join(ch) + "\n")
        files.append(fp)

    def one(fp):
        return C.sh2([hbin, "run", fp], timeout=1500)
    with concurrent.futures.ThreadPoolExecutor(max_workers=n) as ex:
        outs = list(ex.map(one, files))
    for fp in files:
        os.unlink(fp)
    res = [None] * len(reqs)
    err = ""
    for i, (rc, out, e) in enumerate(outs):
        lines = out.splitlines()
        if rc != 0 or len(lines) != len(chunks[i]):
            err += "chunk %d: rc=%s lines=%d/%d %s\n" % (i, rc, len(lines), len(chunks[i]), e[-500:])
            continue
        for j, l in enumerate(lines):
            res[i + j * n] = l
    return res, err


def run_model(drv, reqs):
    rc, out, err = C.sh2([drv], stdin="\n".join(reqs) + "\n", timeout=1500)
    lines = out.splitlines()
    if rc != 0 or len(lines) != len(reqs):
        return None, "driver rc=%s lines=%d/%d %s" % (rc, len(lines), len(reqs), err[-500:])
    return lines, ""


def key_suffix(f):
    if f.get("rest_ctor_not_last"):
        return "rest-not-last:ctor"
    if f.get("rest_tuple"):
        return "rest:tuple"
    return None


def process(ctx, hbin, drv, reqs, label, stats, tc_holder):
    impl, err1 = run_impl(hbin, reqs, label)
    model, err2 = run_model(drv, reqs)
    if model is None or any(x is None for x in impl):
        ctx.finding("corr:stream", dict(kind="correspondence", detail="response streams incomplete",
                                        stderr=(err1 + err2)[-2000:]),
                    "harness or driver did not answer every request", no_input=True)
        return
    rt_candidates = []
    for i, req in enumerate(reqs):
        stats["evaluations"] += 1
        f = shape(req)
        for k, v in f.items():
            if v is True:
                stats["hist"][k] = stats["hist"].get(k, 0) + 1
        stats["hist"]["rows=%s" % f.get("rows")] = stats["hist"].get("rows=%s" % f.get("rows"), 0) + 1
        stats["hist"]["depth=%s" % f.get("depth")] = stats["hist"].get("depth=%s" % f.get("depth"), 0) + 1
        if nontrivial(f):
            stats["distinct"].add(req)
        parts = model[i].split(" ## ")
        algo = parts[0]
        truth = truth_fields(parts[1]) if len(parts) == 3 else None
        rt = parts[2] if len(parts) == 3 else "-"
        il = impl[i]
        cls = il.split("[")[0].split(" ")[0]
        stats["hist"]["impl:" + cls] = stats["hist"].get("impl:" + cls, 0) + 1
        if "useless[]" not in il and "useless[" in il:
            stats["hist"]["impl:some-useless"] = stats["hist"].get("impl:some-useless", 0) + 1
        if len(stats["samples"]) < 5 and nontrivial(f) and (i % 211 == 0 or "useless[]" not in il and i % 17 == 0):
            stats["samples"].append(dict(request=req, impl=il, model=model[i]))
        sfx = key_suffix(f)
        replay = dict(request=req, impl=il, model=model[i], how_to_replay="./check C11 --replay <this file>")
        # ---- correspondence: the model transcribes the code, so it must print the same line
        if il != algo:
            stats["disagreements"] += 1
            what = "verdict" if il.split(" useless")[0] != algo.split(" useless")[0] else "useless"
            if il.startswith("!") or algo.startswith("!"):
                what = "failure"
            propfail = oracle(il, truth)
            ctx.finding("corr:%s" % what, dict(kind="correspondence", oracle=propfail, **replay),
                        "model and front end disagree on %s: impl=`%s` model=`%s`%s"
                        % (req[:160], il[:100], algo[:100],
                           ("; property fails on the implementation: " + propfail) if propfail else ""),
                        no_input=(propfail is None))
            stats["min"].setdefault("corr:%s" % what, req)
            continue
        # ---- oracle: the implementation's answer against the brute-force surface semantics
        o = oracle(il, truth)
        if o:
            stats["oracle_failures"] += 1
            kind = o.split(":")[0]
            if il.startswith("!panic"):
                key = "oracle:panic:" + il.split(" ")[1]
            elif sfx and kind == "accepted-nonexhaustive":
                key = "oracle:" + sfx                      # the accepted match that falls through
            elif sfx:
                key = "oracle:%s:%s" % (sfx, kind)
            else:
                key = "oracle:" + kind
            prev = stats["min"].get(key)
            if prev is None or len(req) < len(prev[0]):
                stats["min"][key] = (req, il, parts[1] if len(parts) == 3 else "-", o)
            stats["okeys"][key] = stats["okeys"].get(key, 0) + 1
        elif il.startswith("exhaustive") and rt != "-" and truth and truth[0] == "exhaustive":
            rt_candidates.append((req, rt))
            stats["rt_order"].setdefault(req, len(stats["rt_order"]))
    stats["rt_candidates"] += rt_candidates


def oracle(il, truth):
    """Property evaluated on the implementation's answer. None = fine."""
    if il.startswith("!panic"):
        return "panic: front end panics at " + il[7:]
    if il.startswith("!"):
        return None          # generator/renderer problem, reported as correspondence failure
    if truth is None:
        return None
    accepted = il.startswith("exhaustive")
    if accepted and truth[0] == "missing":
        return "accepted-nonexhaustive: match accepted but value #%d (canonical order) is matched by no unguarded arm" % truth[1]
    if not accepted and truth[0] == "exhaustive":
        return "rejected-exhaustive: match rejected although the unguarded arms cover every value"
    ua = useless_arms(il)
    if ua != truth[2]:
        return "unreachable-mismatch: arms reported unreachable %s, arms no value can reach %s" % (ua, truth[2])
    return None


# --------------------------------------------------------------------------- run-time half

def compile_and_run(tc, hbin, reqs, name, backend="cannon"):
    """h_c11 prog -> dora compile [--cannon] -> run. Returns (rc, stdout, log)."""
    d = os.path.join(TMP, "c11_rt_%d_%s_%s" % (os.getpid(), name, backend))
    shutil.rmtree(d, ignore_errors=True)
    os.makedirs(d)
    rf = os.path.join(d, "r.req")
    open(rf, "w").write("\n".join(reqs) + "\n")
    rc, src, err = C.sh2([hbin, "prog", rf], timeout=300)
    if rc != 0:
        return None, "", "h_c11 prog failed: " + err[-1000:]
    sp = os.path.join(d, "p.dora")
    open(sp, "w").write(src)
    rc, out = C.sh([tc["dora"], "compile"] + (["--cannon"] if backend == "cannon" else []) + [sp, "-o", os.path.join(d, "p")],
                   cwd=d, timeout=1800)
    if rc != 0 or not os.path.exists(os.path.join(d, "p")):
        return None, "", "dora compile failed (rc=%s): %s" % (rc, "\n".join(
            l for l in out.splitlines() if "warning" not in l and "ld:" not in l)[-1500:])
    rc, out, err = C.sh2([os.path.join(d, "p")], cwd=d, timeout=600)
    shutil.rmtree(d, ignore_errors=True)
    return rc, out, err


def parse_rt_output(out):
    got = {}
    for line in out.splitlines():
        p = line.split(" ")
        if len(p) >= 2 and p[0].isdigit() and p[1].isdigit():
            got.setdefault(int(p[0]), {})[int(p[1])] = p[2:]
    return got


def runtime_lit_start(ctx, hbin, stats, cands, ex):
    """literal leg: accepted `lm` matches, compiled with both code generators, arm per selector value = firstMatch.
    Submits the compile-and-run jobs to `ex`; `runtime_lit_finish` compares the outputs."""
    rt = stats["rt_lit"] = dict(programs=0, matches=0, evaluations=0, mismatches=0, traps=0, by_type={}, by_lowering={},
                                backends=[])
    if not cands:
        return None
    try:
        tc = C.toolchain(need_boots=True)
        backends = ["cannon", "boots"]
    except RuntimeError as e:
        ctx.notes.append("literal leg: optimizing code generator does not bootstrap, baseline only: %s" % str(e)[-300:])
        try:
            tc = C.toolchain(need_boots=False)
        except RuntimeError as e2:
            ctx.notes.append("literal leg skipped: tool chain does not build: %s" % str(e2)[-300:])
            return None
        backends = ["cannon"]
    rt["backends"] = backends
    for req, _ in cands:
        f = shape(req)
        rt["by_type"][f.get("lty")] = rt["by_type"].get(f.get("lty"), 0) + 1
        rt["by_lowering"][f.get("lowering")] = rt["by_lowering"].get(f.get("lowering"), 0) + 1
    step = 40
    jobs = [(b, be) for b in range(0, len(cands), step) for be in backends]

    def one(job):
        b, be = job
        batch = list(cands[b:b + step])
        results = []            # (batch, rc, out, log) per attempt; after a trap the rest of the batch is run again
        for attempt in range(4):
            rc, out, log = compile_and_run(tc, hbin, [c[0] for c in batch], "lit%d_%d" % (b, attempt), be)
            results.append((batch, rc, out, log))
            if rc is None or rc == 0:
                break
            got = parse_rt_output(out)
            # first match whose output is incomplete = the one that trapped; continue behind it
            k = 0
            while k < len(batch) and all(
                    len(got.get(k, {}).get(c, [])) == len(e.split(" "))
                    for c, e in enumerate(batch[k][1].split("|"))):
                k += 1
            batch = batch[k + 1:]
            if not batch:
                break
        return job, results

    return [ex.submit(one, j) for j in jobs]


def runtime_lit_finish(ctx, stats, futures):
    rt = stats["rt_lit"]
    if not futures:
        return
    done = [f.result() for f in futures]
    seen_match = set()
    for (b, be), results in done:
        for batch, rc, out, log in results:
            rt["programs"] += 1
            if rc is None:
                ctx.finding("corr:rt-build:lit:" + be, dict(kind="correspondence", log=log, backend=be,
                                                            requests=[c[0] for c in batch][:5]),
                            "literal-leg program does not build (%s): %s" % (be, log[:300]), no_input=True)
                continue
            got = parse_rt_output(out)
            trapped = False
            for k, (req, rtexp) in enumerate(batch):
                if trapped:
                    break           # the rest of this batch was run again in the next attempt
                t = parse(req)
                sel = t[3]
                if (req, be) not in seen_match:
                    seen_match.add((req, be))
                    rt["matches"] += 1
                for c, e in enumerate(rtexp.split("|")):
                    e = e.split(" ")
                    g = got.get(k, {}).get(c)
                    rt["evaluations"] += len(e)
                    if g == e:
                        continue
                    f = shape(req)
                    g = g or []
                    j = next((j for j in range(len(e)) if j >= len(g) or g[j] != e[j]), len(e))
                    val = sel[j] if j < len(sel) else "?"
                    common = dict(kind="oracle", request=req, backend=be, guard_mask_index=c, selector_values=sel,
                                  expected_arms=e, observed=g, first_difference=dict(selector=val, expected=e[j] if j < len(e) else None,
                                                                                     observed=g[j] if j < len(g) else None),
                                  lowering=f.get("lowering"), exit_status=rc, how_to_replay="./check C11 --replay <this file>")
                    stats["oracle_failures"] += 1
                    if j >= len(g) and rc != 0:
                        # the program stopped inside this match: a trap where the language prescribes an arm
                        rt["traps"] += 1
                        trapped = True
                        ctx.finding("oracle:runtime-trap:lit:%s:%s" % (f.get("lty"), be), common,
                                    "compiled literal match (%s, %s lowering) ends the program with exit status %s at selector value %s "
                                    "(guard mask #%d) where firstMatch selects arm %s: %s"
                                    % (be, f.get("lowering"), rc, val, c, e[j] if j < len(e) else "?", req[:220]))
                    else:
                        rt["mismatches"] += 1
                        ctx.finding("oracle:runtime-arm:lit:%s:%s" % (f.get("lty"), be), common,
                                    "compiled literal match (%s, %s lowering) takes arm %s for selector value %s (guard mask #%d), "
                                    "firstMatch selects arm %s: %s"
                                    % (be, f.get("lowering"), g[j] if j < len(g) else "none", val, c,
                                       e[j] if j < len(e) else "?", req[:220]))
                    break


def runtime_half(ctx, hbin, stats):
    lit_cands = sorted(set(c for c in stats["rt_candidates"] if c[0].startswith("(lm ")),
                       key=lambda c: stats["rt_order"].get(c[0], 0))
    stats["rt_candidates"] = [c for c in stats["rt_candidates"] if not c[0].startswith("(lm ")]
    import time
    t0 = time.time()
    # the two legs share one pool: the literal programs compile while the finite leg runs
    with concurrent.futures.ThreadPoolExecutor(max_workers=6) as ex:
        futures = runtime_lit_start(ctx, hbin, stats, lit_cands, ex)
        runtime_finite(ctx, hbin, stats, ex)
        t1 = time.time()
        runtime_lit_finish(ctx, stats, futures)
    stats["rt_lit"]["wall_s_after_finite_leg"] = round(time.time() - t1, 1)
    stats["rt_lit"]["wall_s_both_legs"] = round(time.time() - t0, 1)


def runtime_finite(ctx, hbin, stats, ex):
    cands = stats["rt_candidates"]
    limit = 60 if ctx.tier == "quick" else 1500
    # prefer non-trivial shapes, keep order deterministic
    def rank(c):
        f = shape(c[0])
        return (not (f.get("rest_ctor_not_last") or f.get("rest_tuple")), not nontrivial(f), len(c[0]), c[0])
    # a third of the budget for matches with a `..` that is not last / in a tuple (the conversion that was wrong),
    # the rest by shape; order is deterministic
    cands = sorted(set(cands), key=rank)
    special = [c for c in cands if not rank(c)[0]][:limit // 3]
    cands = special + [c for c in sorted(cands, key=lambda c: (not nontrivial(shape(c[0])), len(c[0]), c[0]))
                       if c not in special][:limit - len(special)]
    stats["rt"] = dict(programs=0, matches=0, evaluations=0, mismatches=0, confirmed_fallthrough=0)
    try:
        tc = C.toolchain(need_boots=False)
    except RuntimeError as e:
        ctx.notes.append("run-time half skipped: tool chain does not build: %s" % str(e)[-300:])
        return
    # (1) replay of accepted-but-not-exhaustive matches: they must fall through at run time
    for key, val in sorted(stats["min"].items()):
        if not isinstance(val, tuple):
            continue
        req, il, truth, o = val
        if o.startswith("accepted-nonexhaustive") and " ## " not in truth:
            f = truth_fields(truth)
            rc, out, err = compile_and_run(tc, hbin, [req], "ft")
            stats["rt"]["programs"] += 1
            fell = rc is not None and rc != 0 and "unreachable code executed" in (out + err)
            stats["confirm"][key] = dict(rc=rc, fell_through=fell, stdout=out[-300:], stderr=err[-300:])
            if fell:
                stats["rt"]["confirmed_fallthrough"] += 1
    # (2) batch program over accepted finite matches
    if not cands:
        return
    step = 30
    batches = [cands[b:b + step] for b in range(0, len(cands), step)]
    outs = list(ex.map(lambda ib: compile_and_run(tc, hbin, [c[0] for c in ib[1]], "b%d" % ib[0]), enumerate(batches)))
    for batch, (rc, out, log) in zip(batches, outs):
        stats["rt"]["programs"] += 1
        if rc is None:
            ctx.finding("corr:rt-build", dict(kind="correspondence", log=log, requests=[c[0] for c in batch][:5]),
                        "run-time program does not build: %s" % log[:300], no_input=True)
            continue
        got = {}
        for line in out.splitlines():
            p = line.split(" ")
            if len(p) >= 2 and p[0].isdigit():
                got.setdefault(int(p[0]), {})[int(p[1])] = p[2:]
        for k, (req, rt) in enumerate(batch):
            stats["rt"]["matches"] += 1
            exp = [m.split(" ") for m in rt.split("|")]
            for c, e in enumerate(exp):
                stats["rt"]["evaluations"] += len(e)
                g = got.get(k, {}).get(c)
                if g != e:
                    stats["rt"]["mismatches"] += 1
                    stats["oracle_failures"] += 1
                    sfx = key_suffix(shape(req))
                    ctx.finding("oracle:runtime-arm" + (":" + sfx if sfx else ""),
                                dict(kind="oracle", request=req, guard_mask_index=c, expected_arms=e, observed=g,
                                     exit_status=rc, how_to_replay="./check C11 --replay <this file>"),
                                "compiled match selects other arms than firstMatch (mask #%d): expected %s got %s (exit %s) for %s"
                                % (c, " ".join(e)[:80], " ".join(g)[:80] if g else g, rc, req[:200]))
                    break


# --------------------------------------------------------------------------- main

def run(ctx):
    po = C.proof_obligations(ctx, PROP_MODULE, PROP_FILE, hygiene_paths=("DoraModel/Match", PROP_FILE))
    drv, dlog = C.lean_exe("drv_c11")
    hbin, hlog = C.build_harness("h_c11")
    if hbin is None:
        ctx.finding("corr:build", dict(kind="correspondence", log=hlog[-3000:]),
                    "harness does not build against /repo (API of dora-frontend changed?)", no_input=True)
    if drv is None:
        raise RuntimeError("driver build failed:\n" + dlog[-3000:])
    stats = dict(evaluations=0, distinct=set(), samples=[], hist={}, disagreements=0, oracle_failures=0,
                 min={}, okeys={}, rt_candidates=[], confirm={}, rt={}, rt_lit={}, rt_order={})
    if hbin:
        if ctx.replay:
            r = json.load(open(ctx.replay))
            reqs = [r["request"]] if "request" in r else []
            process(ctx, hbin, drv, reqs, "replay", stats, None)
        else:
            cdir = os.path.join(C.VERIF, "corpus", "C11")
            if os.path.isdir(cdir):
                for fn in sorted(os.listdir(cdir)):
                    reqs = [l.strip() for l in open(os.path.join(cdir, fn)) if l.strip() and not l.startswith("#")]
                    process(ctx, hbin, drv, reqs, "corpus", stats, None)
            n, sysn = (1000, 1500) if ctx.tier == "quick" else (60000, 400000)
            rc, gen, err = C.sh2([hbin, "gen", str(n), str(sysn)], env={"VERIF_SEED": str(ctx.seed)}, timeout=1500)
            reqs = [l for l in gen.splitlines() if l]
            if rc != 0 or not reqs:
                ctx.finding("corr:gen", dict(kind="correspondence", stderr=err[-2000:]),
                            "h_c11 gen failed", no_input=True)
            process(ctx, hbin, drv, reqs, "gen", stats, None)
            # literal scrutinees (run-time leg for Int64 / Int32 / UInt8 / Char / String matches)
            nlit = 80 if ctx.tier == "quick" else 2500
            rc, gen, err = C.sh2([hbin, "genlit", str(nlit)], env={"VERIF_SEED": str(ctx.seed)}, timeout=600)
            lreqs = [l for l in gen.splitlines() if l]
            if rc != 0 or not lreqs:
                ctx.finding("corr:genlit", dict(kind="correspondence", stderr=err[-2000:]),
                            "h_c11 genlit failed", no_input=True)
            process(ctx, hbin, drv, lreqs, "lit", stats, None)
        import time
        t_rt = time.time()
        runtime_half(ctx, hbin, stats)
        stats["rt"]["wall_s"] = round(time.time() - t_rt, 1)
        # report oracle failures: one finding per key, with the smallest input seen
        for key, val in sorted(stats["min"].items()):
            if not isinstance(val, tuple):
                continue
            req, il, truth, o = val
            rc, src, _ = C.sh2([hbin, "src"], stdin=req + "\n", timeout=60)
            ctx.finding(key, dict(kind="oracle", request=req, impl=il, truth=truth, why=o, source=src,
                                  occurrences=stats["okeys"].get(key), runtime_replay=stats["confirm"].get(key),
                                  how_to_replay="./check C11 --replay <this file>"),
                        "%s [%d inputs; smallest: %s]%s" % (o, stats["okeys"].get(key, 0), req[:300],
                                                            " — confirmed at run time: compiled program prints `unreachable code executed.`"
                                                            if (stats["confirm"].get(key) or {}).get("fell_through") else ""))
    if not po["build_ok"] or po["failed"]:
        found_input = stats["disagreements"] > 0 or stats["oracle_failures"] > 0
        ctx.finding("proof:C11", dict(kind="proof", failed=po["failed"], log=po.get("build_log_tail", "")),
                    "property theorems of C11 no longer check: %s" % "; ".join(po["failed"])[:400],
                    no_input=not found_input)
    cov = dict(obligations=po["obligations"], discharged=po["discharged"], checker_cmd=po["checker_cmd"],
               trusted_base=po["trusted_base"] + [
                   "hand-written model DoraModel/Match/Model.lean (transcription of exhaustiveness.rs) tied by the correspondence run below",
                   "harness h_c11 (renders requests to Dora source, runs dora_frontend::check_program in-process), driver drv_c11, checks/c11.py",
                   "identifier resolution, stored field indices and constant values are inputs of the model (taken from the request), not modelled",
                   "run-time half: dora compile --cannon (finite leg) / both code generators (literal leg), gcc link, the runtime"],
               theorems=po["theorems"],
               evaluations=stats["evaluations"], distinct_nontrivial=len(stats["distinct"]),
               rule="requests from `h_c11 gen` (seeded): systematic part = all 1-/2-row and strided 3-row matrices over a "
                    "pattern pool per scrutinee type (Bool, 2/3-variant enums, Option-like, payload enums, named-field "
                    "variants, pairs/triples, structs, classes, nested Option) incl. `..` in every position; random part "
                    "= up to 6 arms, depth <= 3, literals Int/Char/String, guards, alternatives, named fields permuted; "
                    "literal part (`h_c11 genlit`, requests `lm`) = matches over Int64/Int32/UInt8/Char/String with literal "
                    "arms (dense and sparse literal sets at 0 / non-zero / negative / the type's minimum and maximum, duplicates, "
                    "guards, alternatives, consts, hex/binary/underscore spellings, `_` or binding default) with selector values; "
                    "non-trivial = the matrix has an alternative, a nested constructor/tuple pattern or a guard",
               histogram=stats["hist"], samples=stats["samples"] or [dict(note="no sample")],
               disagreements=stats["disagreements"], oracle_failures=stats["oracle_failures"],
               oracle_keys=stats["okeys"], runtime=stats["rt"], runtime_literal=stats["rt_lit"],
               minimized={k: v[0] for k, v in stats["min"].items() if isinstance(v, tuple)})
    if ctx.replay:
        return          # a replay does not overwrite the evidence of the last full run
    ctx.write_evidence("proof", cov, assumptions=[
        "the model's recursion carries a fuel argument. For check_useful and check_exhaustive termination (a computable "
        "fuel bound) and panic freedom on well-typed input are theorems (useful_decided, exhaustive_decided). For "
        "check_useful_expand_inner no fuel bound is proved and its assert!(spans.insert(span)) is not excluded "
        "(arm_check_no_other_panic_partial excludes all other sites); the driver answers !fuel / !panic if that ever "
        "happens (it did not on any request of this run)",
        "accepted_no_fallthrough / convert_pattern_correct assume every arm's pattern satisfies the decidable predicate "
        "spatWT (what typeck/pattern.rs accepts); the driver evaluates spatWT on every request and answers !illtyped if it "
        "fails, so a match the real type checker accepts outside spatWT is reported as corr:failure",
        "the literal leg compares the arm the compiled code takes with firstMatch only on the listed selector values "
        "(literals, range neighbours, type extremes, 0, -1, values congruent to a literal mod 2^8/2^16/2^31/2^32)",
        "Int/Char/String literal types are infinite in the model (Char has 1 112 064 values in Dora); Float patterns excluded",
        "hypotheses of the theorems: matrix well-typed for its column types, every type inhabited",
        "the model is hand-written; agreement with exhaustiveness.rs is checked on the generated requests only"])
