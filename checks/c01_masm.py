"""C01, machine leg — the baseline code generator's integer helper sequences at the level of x86-64 instructions.

proof:  lean/DoraModel/Props/C01Masm.lean over the REGENERATED lean/DoraModel/Gen/Masm*.lean (tools/rs2lean_masm.py) and the
        hand-written micro-semantics lean/DoraModel/X64/Sem.lean.
ties:   (a) regeneration from /repo on every run;
        (d) bytes of the REAL MacroAssembler (`h_c01m real`) = bytes of the model's instruction list assembled by the real
            dora-asm encoder (`h_c01m asm`), per helper x mode x register assignment      -> ties Gen/Masm.lean to the code;
        (c) the model's instruction lists executed natively on the host CPU (`h_c01m exec`) and by `Sem.exec` (`drv_c01m exec`)
            on boundary + random operands: exit, registers, defined flags must agree            -> validates X64/Sem.lean;
        and every native outcome is compared with exact integer arithmetic (division and remainder are covered only this way).
keys:   corr:masm-translate:<helper>   a required helper could not be translated (broken tie)
        corr:masm-bytes:<helper>       model instruction list != what the real macro assembler emits
        corr:x64sem:<instr-set>        micro-semantics != host CPU
        corr:remembered-rule           the hand model of the runtime's large-object / remembered rule (X64/MasmRuntimeRules.lean)
                                       no longer matches the text of swiper.rs / mirror.rs / abi.rs
        oracle:masm-grid:<case>        a sequence computes something else than the exact result / takes the wrong trap
        proof:<theorem>                a theorem no longer builds; replay = the boundary-grid input on which the regenerated
                                       sequence differs from exact arithmetic, if the search finds one
`leg(ctx)` is called from checks/c01.py; `regenerate()` restores the Gen files from the real /repo (tools/with_patch.sh).
"""
import json
import os
import re

from . import common as C

PROP_MODULE = "DoraModel.Props.C01Masm"
PROP_FILE = "DoraModel/Props/C01Masm.lean"
ALLOC_MODULE = "DoraModel.Props.C13Masm"     # determine_array_size / compute_remembered_bit (serves C13, C02, C03)
ALLOC_FILE = "DoraModel/Props/C13Masm.lean"
RULES_FILE = "DoraModel/X64/MasmRuntimeRules.lean"
ARRAY_ES = [1, 2, 3, 4, 5, 6, 7, 8, 12, 16, 20, 24, 32, 40, 1000]
BV_AXIOM = "bv_decide"          # `..._native.bv_decide.ax_*`: the flag/bit lemmas of X64/MasmLemmas3.lean, MasmLemmasDiv.lean
HYGIENE = (PROP_FILE, ALLOC_FILE, RULES_FILE, "DoraModel/X64/MasmLemmasAlloc.lean", "DoraModel/X64/MasmSpec.lean", "DoraModel/X64/MasmLemmas.lean", "DoraModel/X64/MasmLemmas2.lean",
           "DoraModel/X64/MasmLemmas3.lean", "DoraModel/X64/MasmLemmasDiv.lean", "DoraModel/X64/Sem.lean",
           "DoraModel/X64/MasmPrelude.lean", "DoraModel/X64/MasmIOBase.lean", "DoraModel/Gen/Masm.lean",
           "DoraModel/Gen/MasmTypes.lean", "DoraModel/Gen/MasmDispatch.lean", "DoraModel/Gen/MasmInstrIO.lean")
DATA_BASE = 0x10_0000_0000      # the harness's fixed data region (64 KiB)
M64 = (1 << 64) - 1


def regenerate():
    """run the translator against /repo; returns its report (dict) or raises RuntimeError"""
    rep = os.path.join(C.BUILD, "c01_masm_report_%d.json" % os.getpid())
    os.makedirs(C.BUILD, exist_ok=True)
    rc, out = C.sh(["python3", os.path.join(C.VERIF, "tools", "rs2lean_masm.py"), "--repo", C.REPO, "--lean", C.LEAN,
                    "--report", rep], timeout=300)
    if rc != 0 or not os.path.exists(rep):
        raise RuntimeError("rs2lean_masm.py failed:\n" + out[-2000:])
    r = json.load(open(rep))
    os.unlink(rep)
    return r


# ----------------------------------------------------------------------------------------------- cases
def sx(v, w):
    v &= (1 << w) - 1
    return v - (1 << w) if v >> (w - 1) else v


def edges(w):
    mx, mn = (1 << (w - 1)) - 1, -(1 << (w - 1))
    rt = 46340 if w == 32 else 3037000499
    return [0, 1, -1, 2, -2, 3, -3, 7, mx, mx - 1, mn, mn + 1, mx // 2, mx // 2 + 1, mn // 2, mn // 2 - 1, rt, rt + 1, -rt, -rt - 1,
            (1 << (w // 2)), (1 << (w // 2)) - 1, -(1 << (w // 2))]


def pairs(kind, w, rng, nrand):
    mx, mn = (1 << (w - 1)) - 1, -(1 << (w - 1))
    E = edges(w)
    ps = set()
    for a in E:
        for b in (0, 1, -1, 2, -2, mx, mn, mn + 1, mx - 1):
            ps.add((a, b))
        for d in (-1, 0, 1):                      # +-1 around every overflow edge
            for edge in (mx, mn):
                if kind.startswith("add"):
                    ps.add((a, edge - a + d))
                elif kind.startswith("sub"):
                    ps.add((a, a - edge + d))
                elif kind.startswith("mul") and a not in (0,):
                    ps.add((a, edge // a + d))
                    ps.add((a, -(edge // -a) + d) if a != 0 else (a, d))
    if kind.startswith(("div", "mod")):
        for a in E:
            for b in (0, 1, -1, 2, -2, 3, -3, 7, mn, mx, mn + 1):
                ps.add((a, b))
    ps = [(a, b) for a, b in ps if mn <= a <= mx and mn <= b <= mx]
    ps.sort()
    for _ in range(nrand):
        k = rng.choice((8, 16, w - 2, w))
        ps.append((sx(rng.getrandbits(k), w) if k < w else sx(rng.getrandbits(w), w),
                   sx(rng.getrandbits(rng.choice((4, 16, w))), w)))
    return ps


def exact(kind, w, a, b, traps):
    """('done', value as unsigned w-bit) or ('trap', number) by exact integer arithmetic"""
    mx, mn = (1 << (w - 1)) - 1, -(1 << (w - 1))
    mask = (1 << w) - 1

    def chk(z):
        return ("done", z & mask) if mn <= z <= mx else ("trap", traps["OVERFLOW"])
    if kind == "add_checked":
        return chk(a + b)
    if kind == "sub_checked":
        return chk(a - b)
    if kind == "mul_checked":
        return chk(a * b)
    if kind == "neg_checked":
        return chk(-a)
    if kind in ("div_checked", "mod_checked"):
        if b == 0:
            return ("trap", traps["DIV0"])
        if a == mn and b == -1:
            return ("trap", traps["OVERFLOW"])          # the code that exists: also for the remainder
        q = abs(a) // abs(b)
        q = q if (a < 0) == (b < 0) else -q
        return ("done", (q if kind == "div_checked" else a - q * b) & mask)
    if kind == "add":
        return ("done", (a + b) & mask)
    if kind == "sub":
        return ("done", (a - b) & mask)
    if kind == "mul":
        return ("done", (a * b) & mask)
    if kind in ("shl", "shr", "sar"):
        if not 0 <= b < w:
            return ("trap", traps["SHIFT"])
        if kind == "shl":
            return ("done", (a << b) & mask)
        if kind == "shr":
            return ("done", (a & mask) >> b)
        return ("done", (a >> b) & mask)
    raise KeyError(kind)


REL = {"Equal": lambda a, b, ua, ub: a == b, "Zero": lambda a, b, ua, ub: a == b,
       "NotEqual": lambda a, b, ua, ub: a != b, "NonZero": lambda a, b, ua, ub: a != b,
       "Less": lambda a, b, ua, ub: a < b, "LessEq": lambda a, b, ua, ub: a <= b,
       "Greater": lambda a, b, ua, ub: a > b, "GreaterEq": lambda a, b, ua, ub: a >= b,
       "UnsignedLess": lambda a, b, ua, ub: ua < ub, "UnsignedLessEq": lambda a, b, ua, ub: ua <= ub,
       "UnsignedGreater": lambda a, b, ua, ub: ua > ub, "UnsignedGreaterEq": lambda a, b, ua, ub: ua >= ub}

# kind -> call text template (d = dest, l = lhs, r = rhs)
CALLS = {
    "add_checked": "int_add_checked {m} {d} {l} {r}", "sub_checked": "int_sub_checked {m} {d} {l} {r}",
    "mul_checked": "int_mul_checked {m} {d} {l} {r}", "neg_checked": "int_neg_checked {m} {d} {l}",
    "div_checked": "int_div_checked {m} {d} {l} {r}", "mod_checked": "int_mod_checked {m} {d} {l} {r}",
    "add": "int_add {m} {d} {l} {r}", "sub": "int_sub {m} {d} {l} {r}", "mul": "int_mul {m} {d} {l} {r}",
    "shl": "check_shift_amount {r} {m};int_shl {m} {d} {l} {r}", "shr": "check_shift_amount {r} {m};int_shr {m} {d} {l} {r}",
    "sar": "check_shift_amount {r} {m};int_sar {m} {d} {l} {r}",
}
THEOREM_KINDS = [("add_checked", "add_checked"), ("sub_checked", "sub_checked"), ("mul_checked", "mul_checked"),
                 ("neg_checked", "neg_checked"), ("add_wrapping", "add"), ("sub_wrapping", "sub"), ("mul_wrapping", "mul"),
                 ("add", "add"), ("sub", "sub"), ("mul", "mul"), ("neg", "neg_checked"),
                 ("shl", "shl"), ("shr", "shr"), ("sar", "sar"), ("bounds", "bounds"), ("index", "bounds"),
                 ("cmp", "cmp"), ("compare", "cmp"), ("div", "div_checked"), ("mod", "mod_checked"),
                 ("array_size", "array_size"), ("arraySize", "array_size"), ("remembered", "remembered")]
# helper calls whose bytes are compared beyond the arithmetic cases (what `h_c01m real` supports)
EXTRA_CALLS = [
    "int_and {m} {d} {l} {r}", "int_or {m} {d} {l} {r}", "int_xor {m} {d} {l} {r}", "int_not {m} {d} {l}", "int_neg {m} {d} {l}",
    "int_add_overflowing {m} {d} 11 {l} {r}", "int_sub_overflowing {m} {d} 11 {l} {r}", "int_mul_overflowing {m} {d} 11 {l} {r}",
    "int_div_overflowing {m} {d} 11 {l} {r}", "int_mod_overflowing {m} {d} 11 {l} {r}", "int_neg_overflowing {m} {d} 11 {l}",
    "int_shl {m} {d} {l} {r}", "int_shr {m} {d} {l} {r}", "int_sar {m} {d} {l} {r}", "int_shr_imm {m} {d} {l} 3",
    "cmp_ordering {m} {d} {l} {r}", "copy_reg {m} {d} {l}", "extend_byte {m} {d} {l}", "extend_int_long {d} {l}",
    "bool_not {d} {l}", "check_index_out_of_bounds {l} {r}", "load_int_const {m} {d} 0", "load_int_const {m} {d} 77",
    "load_int_const {m} {d} -5", "load_true {d}", "load_false {d}", "cmp_reg_imm Int32 {l} 64",
    "bailout_if UnsignedGreaterEq SHIFT", "bailout_if Zero DIV0", "check_shift_amount {r} {m}",
]
ASSIGN = [(0, 0, 13), (3, 6, 9), (8, 8, 1), (12, 1, 1), (2, 7, 0), (15, 14, 10), (14, 13, 13), (13, 13, 13), (7, 14, 14)]
CONDS = list(REL)


def word(v):
    return "%x" % (v & M64)


def regs_line(vals, rng):
    rs = [rng.getrandbits(64) for _ in range(16)]
    rs[4] = 0
    for r, v in vals.items():
        rs[r] = v & M64
    return rs


def parse_state(tok_regs):
    return [int(x, 16) for x in tok_regs.split(",")]


def run_lines(exe, lines, what):
    rc, out, err = C.sh2([exe] if not isinstance(exe, list) else exe, stdin="\n".join(lines) + "\n", timeout=900)
    res = [l for l in out.split("\n") if l != ""]
    if len(res) != len(lines):
        raise RuntimeError("%s answered %d lines for %d requests (rc=%d): %s" % (what, len(res), len(lines), rc, (err or out)[-800:]))
    return res


def theorem_of_error(errline):
    """name of the declaration a lake error line `error: <file>:<line>:<col>: …` falls into, and the file"""
    m = re.match(r"\s*(\S+\.lean):(\d+):\d+", errline)
    if not m:
        return None, None
    path = os.path.join(C.LEAN, m.group(1))
    if not os.path.exists(path):
        return None, m.group(1)
    name = None
    for i, l in enumerate(open(path, encoding="utf-8"), 1):
        mm = re.match(r"^(?:@\[[^\]]*\]\s*)?theorem\s+(\S+)", l)
        if mm:
            if i > int(m.group(2)):
                break
            name = mm.group(1)
    return name, m.group(1)


def kinds_of(name):
    ks = []
    for pat, k in THEOREM_KINDS:
        if name and re.search(r"(^|_)%s(\d|_|$)" % pat, name) and k not in ks:
            ks.append(k)
    return ks


def check_runtime_rules(ctx, report):
    """the hand model X64/MasmRuntimeRules.lean against the Rust text: constants and comparison operators"""
    rd = lambda p: open(os.path.join(C.REPO, p), encoding="utf-8").read()
    sw, mi = rd("dora-runtime/src/gc/swiper.rs"), rd("dora-runtime/src/mirror.rs")
    lean = open(os.path.join(C.LEAN, RULES_FILE), encoding="utf-8").read()
    abi = report.get("abi_consts", {})
    problems = []

    def need(cond, what):
        if not cond:
            problems.append(what)
    flat = lambda t: re.sub(r"\s+", " ", t)
    m = re.search(r"fn alloc_object\(&self[^{]*\{(.*?)\n    \}", sw, re.S)
    need(m and flat(m.group(1)).strip() == "if size < LARGE_OBJECT_SIZE { self.alloc_normal(rt, size) } else { self.alloc_large(rt, size) }",
         "Swiper::alloc_object is no longer `if size < LARGE_OBJECT_SIZE { alloc_normal } else { alloc_large }`")
    m = re.search(r"fn initial_metadata_value\(&self, size: usize, is_readonly: bool\) -> \(bool, bool\) \{(.*?)\n    \}", sw, re.S)
    need(m and flat(m.group(1)).strip() == "if is_readonly { assert!(size < LARGE_OBJECT_SIZE); (true, false) } else if size < LARGE_OBJECT_SIZE "
         "{ (false, true) } else { (false, false) }",
         "Swiper::initial_metadata_value no longer has the transcribed body")
    need(re.search(r"pub const LARGE_OBJECT_SIZE: usize = dora_compiler::LARGE_OBJECT_SIZE;", sw), "swiper.rs LARGE_OBJECT_SIZE is not dora_compiler's")
    need(re.search(r"pub const REMEMBERED_BIT_SHIFT: usize = dora_compiler::REMEMBERED_BIT_SHIFT;", mi), "mirror.rs REMEMBERED_BIT_SHIFT is not dora_compiler's")
    need(re.search(r"\(is_remembered as usize\) << REMEMBERED_BIT_SHIFT", mi), "HeaderWord::compute_word no longer shifts is_remembered by REMEMBERED_BIT_SHIFT")
    ml = re.search(r"def largeObjectSize : Nat := ([0-9 *]+)", lean)
    ms = re.search(r"def rememberedBitShift : Nat := (\d+)", lean)
    need(ml and eval(ml.group(1), {"__builtins__": {}}) == abi.get("LARGE_OBJECT_SIZE"), "largeObjectSize of the hand model != LARGE_OBJECT_SIZE of abi.rs (%s)" % abi.get("LARGE_OBJECT_SIZE"))
    need(ms and int(ms.group(1)) == abi.get("REMEMBERED_BIT_SHIFT"), "rememberedBitShift of the hand model != REMEMBERED_BIT_SHIFT of abi.rs (%s)" % abi.get("REMEMBERED_BIT_SHIFT"))
    need("if size < largeObjectSize then some (false, true)" in lean and "!decide (size < largeObjectSize)" in lean,
         "the hand model's comparison is no longer `size < largeObjectSize`")
    for pr in problems:
        ctx.finding("corr:remembered-rule", dict(kind="correspondence", problem=pr, hand_model=RULES_FILE,
                                                  sources=["dora-runtime/src/gc/swiper.rs", "dora-runtime/src/mirror.rs", "dora-compiler/src/abi.rs"]),
                    "runtime rule vs hand model: " + pr, no_input=True)
    return dict(checked=8, problems=problems, LARGE_OBJECT_SIZE=abi.get("LARGE_OBJECT_SIZE"), REMEMBERED_BIT_SHIFT=abi.get("REMEMBERED_BIT_SHIFT"))


# ----------------------------------------------------------------------------------------------- the leg
def alloc_obligations(ctx):
    """For C13 / C02 / C03: the theorems of Props/C13Masm.lean about the REGENERATED allocation sequences of the baseline
    code generator (determine_array_size = (hdr + len*es + 7) & -8 = the size model of Props/C13.lean = the runtime's size;
    compute_remembered_bit = the runtime's large-object rule). Regenerates the model from /repo, builds and audits the
    theorems and checks the runtime-rule source lines. When a theorem no longer builds (or the rule text changed) the whole
    machine leg runs under this property's context: it executes the regenerated sequences natively on the boundary grid and
    reports the failing operand (`proof:<lemma>` with the input, `oracle:masm-grid:array_size|remembered`)."""
    report = regenerate()
    for h, why in report["unmodelled"].items():
        ctx.finding("corr:masm-translate:" + h, dict(kind="correspondence", helper=h, reason=why),
                    "tools/rs2lean_masm.py cannot translate required helper %s: %s" % (h, why), no_input=True)
    po = C.proof_obligations(ctx, ALLOC_MODULE, ALLOC_FILE, extra_allowed=(BV_AXIOM,), hygiene_paths=HYGIENE)
    before = len(ctx.violations)
    rules = check_runtime_rules(ctx, report)
    res = dict(module=ALLOC_MODULE, obligations=po["obligations"], discharged=po["discharged"], theorems=po["theorems"],
               runtime_rules=rules, trusted_base=po["trusted_base"])
    if not po["build_ok"] or po["failed"] or len(ctx.violations) > before:
        full = leg(ctx)
        res["search"] = dict(grid=full.get("grid"), x64sem=full.get("x64sem", {}).get("mismatch"))
    return res


def leg(ctx):
    import time
    t0 = time.time()
    cov = dict(evaluations=0, disagreements=0, oracle_failures=0)
    # (a) regeneration
    report = regenerate()
    cov["translator"] = dict(translated=len(report["translated"]), unmodelled=report["unmodelled"],
                             unmodelled_optional=report["unmodelled_optional"], partial=report["partial"],
                             codegen_assignments={k: v for k, v in report["codegen"].items()},
                             gen_files_changed=report.get("changed", []))
    for h, why in report["unmodelled"].items():
        ctx.finding("corr:masm-translate:" + h, dict(kind="correspondence", helper=h, reason=why),
                    "tools/rs2lean_masm.py cannot translate required helper %s: %s" % (h, why), no_input=True)
    # (b) theorems
    po = C.proof_obligations(ctx, PROP_MODULE, PROP_FILE, extra_allowed=(BV_AXIOM,), hygiene_paths=HYGIENE)
    po2 = C.proof_obligations(ctx, ALLOC_MODULE, ALLOC_FILE, extra_allowed=(BV_AXIOM,), hygiene_paths=HYGIENE)
    for k in ("obligations", "discharged"):
        po[k] += po2[k]
    po["theorems"] = dict(po["theorems"], **po2["theorems"])
    po["failed"] = po["failed"] + po2["failed"]
    po["build_ok"] = po["build_ok"] and po2["build_ok"]
    po["build_log_tail"] = (po.get("build_log_tail", "") + "\n" + po2.get("build_log_tail", ""))[-3000:]
    po["checker_cmd"] = po["checker_cmd"].replace(PROP_MODULE, PROP_MODULE + " " + ALLOC_MODULE, 1) + " (and of " + ALLOC_FILE + ")"
    cov["alloc_theorems"] = dict(module=ALLOC_MODULE, obligations=po2["obligations"], discharged=po2["discharged"],
                                 serves=["C13", "C02", "C03"])
    cov["runtime_rules"] = check_runtime_rules(ctx, report)
    C.log("[c01m] regenerate + theorems %.0fs (%d/%d)" % (time.time() - t0, po["discharged"], po["obligations"]))
    t0 = time.time()
    cov.update(obligations=po["obligations"], discharged=po["discharged"], checker_cmd=po["checker_cmd"],
               trusted_base=po["trusted_base"] + [
                   "x86-64 micro-semantics lean/DoraModel/X64/Sem.lean (hand-written from the Intel SDM; validated per run against the host CPU)",
                   "lean/DoraModel/X64/MasmPrelude.lean (labels, bailout list, scratch registers of MacroAssembler; tied by the byte comparison)",
                   "tools/rs2lean_masm.py, harness/crates/c01m (assembles with the real dora-asm encoder, executes natively)"],
               theorems=po["theorems"])
    drv, dlog = C.lean_exe("drv_c01m")
    if drv is None:
        ctx.finding("corr:masm-translate:model-does-not-build", dict(kind="correspondence", log=dlog[-3000:]),
                    "the regenerated model (Gen/Masm*.lean) or its driver no longer builds", no_input=True)
        if not po["build_ok"] or po["failed"]:
            ctx.finding("proof:C01Masm", dict(kind="proof", failed=po["failed"], log=po.get("build_log_tail", "")),
                        "machine-leg theorems no longer check: %s" % "; ".join(po["failed"])[:400], no_input=True)
        return cov
    hx, hlog = C.build_harness("h_c01m")
    if hx is None:
        raise RuntimeError("h_c01m does not build:\n" + hlog[-3000:])
    C.log("[c01m] driver + harness %.0fs" % (time.time() - t0))
    t0 = time.time()
    rng = ctx.rng()
    traps = {}
    for m in re.finditer(r"\|\s*\.(\w+)\s*=>\s*(\d+)", open(os.path.join(C.LEAN, "DoraModel/Gen/MasmTypes.lean")).read().split("def Trap.toInt")[1].split("\n\n")[0]):
        traps[m.group(1)] = int(m.group(2))

    # ---- programs of the model
    progreq, tags = [], {}

    def want(call):
        if call not in tags:
            tags[call] = "p%d" % len(tags)
            progreq.append("prog %s | %s" % (tags[call], call))
        return tags[call]
    bytecalls = []
    for (d, l, r) in ASSIGN:
        for m in ("Int32", "Int64"):
            for k, tpl in CALLS.items():
                bytecalls.append(tpl.format(m=m, d=d, l=l, r=r))
            for tpl in EXTRA_CALLS:
                bytecalls.append(tpl.format(m=m, d=d, l=l, r=r))
        for m in ("Int8", "Int32", "Int64", "Ptr"):
            bytecalls.append("cmp_reg %s %d %d" % (m, l, r))
        for es in ARRAY_ES:
            for hdr in ("true", "false"):
                bytecalls.append("determine_array_size %d %d %d %s" % (d, l, es, hdr))
        if d != l:
            bytecalls.append("compute_remembered_bit %d %d" % (d, l))
        for c in CONDS:
            bytecalls.append("set %d %s" % (d, c))
            bytecalls.append("cmp_reg Int64 %d %d;set %d %s" % (l, r, d, c))
    bytecalls = list(dict.fromkeys(bytecalls))
    for c in bytecalls:
        want(c)
    progs_out = run_lines(drv, progreq, "drv_c01m prog")
    prog = {}
    for call, tag in tags.items():
        line = progs_out[int(tag[1:])]
        t, st, rest = (line.split(" ", 2) + [""])[:3]
        prog[call] = (st, rest)

    # ---- (d) bytes: real macro assembler vs model list assembled by the real encoder
    req = []
    for i, c in enumerate(bytecalls):
        req.append("real r%d | %s" % (i, c))
        req.append("asm a%d | %s" % (i, prog[c][1] if prog[c][0] == "ok" else "nop"))
    ans = run_lines([hx, "run"], req, "h_c01m real/asm")
    nbytes = {"compared": 0, "both_refuse": 0, "not_supported_by_harness": 0, "mismatch": 0, "helpers": set()}
    for i, c in enumerate(bytecalls):
        # a panic of the real code (an `assert!`) comes back untagged: `!panic <message>`
        real = ans[2 * i] if ans[2 * i].startswith("!panic") else ans[2 * i].split(" ", 1)[1]
        asm = ans[2 * i + 1] if ans[2 * i + 1].startswith("!panic") else ans[2 * i + 1].split(" ", 1)[1]
        helper = c.split(";")[-1].split()[0]
        if real.startswith("!unsupported"):
            nbytes["not_supported_by_harness"] += 1
            continue
        real_err = real.startswith("!")
        model_err = prog[c][0] != "ok"
        if real_err and model_err:
            nbytes["both_refuse"] += 1          # an assert! of the Rust code = a `throw` of the model
            continue
        nbytes["compared"] += 1
        nbytes["helpers"].add(helper)
        if real_err != model_err or real != asm:
            nbytes["mismatch"] += 1
            cov["disagreements"] += 1
            ctx.finding("corr:masm-bytes:" + helper,
                        dict(kind="correspondence", call=c, real_bytes=real, model_instrs=prog[c][1] if not model_err else None,
                             model_error=prog[c][1] if model_err else None, model_bytes=asm,
                             how_to_replay="echo 'real x | %s' | h_c01m run ; echo 'prog x | %s' | drv_c01m" % (c, c)),
                        "macro assembler helper `%s`: the real MacroAssembler emits %s, the regenerated model %s"
                        % (c, real[:60], ("refuses: " + prog[c][1]) if model_err else asm[:60]))
    nbytes["helpers"] = sorted(nbytes["helpers"])
    cov["bytes"] = nbytes
    cov["evaluations"] += nbytes["compared"]
    C.log("[c01m] bytes: %d compared, %d mismatches %.0fs" % (nbytes["compared"], nbytes["mismatch"], time.time() - t0))
    t0 = time.time()

    # ---- (c) + oracle: execute the model's lists natively and in the model on the grid
    nr = 24 if ctx.tier == "quick" else 400
    cases = []          # (case name, kind, w, call, d, l, r, a, b, exec request fields)
    for (d, l, r) in ((0, 0, 13), (3, 6, 9)):
        for m, w in (("Int32", 32), ("Int64", 64)):
            for k, tpl in CALLS.items():
                call = tpl.format(m=m, d=d, l=l, r=r)
                if prog[call][0] != "ok":
                    continue
                if k in ("shl", "shr", "sar"):
                    ps = [(a, b) for a in edges(w)[:12] for b in list(range(-1, 66)) + [1 << 31, -(1 << 31), 255, 256]]
                    if (d, l, r) != (0, 0, 13):
                        ps = ps[::7]
                else:
                    ps = pairs(k, w, rng, nr)
                    if (d, l, r) != (0, 0, 13):
                        ps = ps[::3]
                for a, b in ps:
                    hi_a = rng.getrandbits(32) << 32 if w == 32 else 0          # 32-bit mode must ignore the upper halves
                    hi_b = rng.getrandbits(32) << 32 if w == 32 or k in ("shl", "shr", "sar") else 0
                    bb = (b & 0xFFFFFFFF) if k in ("shl", "shr", "sar") else (b & ((1 << w) - 1))
                    vals = {l: (a & ((1 << w) - 1)) | hi_a}
                    if k != "neg_checked":
                        vals[r] = bb | hi_b
                        if l == r:
                            continue
                    cases.append(("%s:%s:%d,%d,%d" % (k, m, d, l, r), k, w, call, d, l, r, a, b, regs_line(vals, rng), "-"))
    # comparisons (cg registers) and bounds check
    cmpcalls = {}
    extra_req = []
    for m, w in (("Int8", 8), ("Int32", 32), ("Int64", 64)):
        for c in CONDS:
            cmpcalls[(m, c)] = "cmp_reg %s 0 13;set 0 %s" % (m, c)
            extra_req.append("prog q%d | %s" % (len(extra_req), cmpcalls[(m, c)]))
    extra_req.append("prog q%d | check_index_out_of_bounds 0 13" % len(extra_req))
    eo = run_lines(drv, extra_req, "drv_c01m prog")
    k = 0
    for m, w in (("Int8", 8), ("Int32", 32), ("Int64", 64)):
        E = [0, 1, -1, 2, (1 << (w - 1)) - 1, -(1 << (w - 1)), -(1 << (w - 1)) + 1, 5, -5]
        for c in CONDS:
            st, rest = (eo[k].split(" ", 2) + [""])[1:3]
            k += 1
            if st != "ok":
                continue
            prog[cmpcalls[(m, c)]] = (st, rest)
            for a in E:
                for b in E:
                    hi = rng.getrandbits(64 - w) << w if w < 64 else 0          # narrow compares must ignore the upper bits
                    hi2 = rng.getrandbits(64 - w) << w if w < 64 else 0
                    cases.append(("cmp:%s:%s" % (m, c), "cmp", w, cmpcalls[(m, c)], 0, 0, 13, a, b,
                                  regs_line({0: (a & ((1 << w) - 1)) | hi, 13: (b & ((1 << w) - 1)) | hi2}, rng), c))
    st, rest = (eo[k].split(" ", 2) + [""])[1:3]
    if st == "ok":
        prog["check_index_out_of_bounds 0 13"] = (st, rest)
        arr = DATA_BASE + 0x100
        for ln in (0, 1, 5, (1 << 63) - 1, 1 << 31):
            for idx in (0, 1, -1, 4, 5, 6, ln - 1, ln, ln + 1, -(1 << 63), (1 << 63) - 1):
                cases.append(("bounds", "bounds", 64, "check_index_out_of_bounds 0 13", 0, 0, 13, idx, ln,
                              regs_line({0: arr, 13: idx}, rng), "%x=%x" % (arr + 8, ln & M64)))
    # allocation sequences: array size (all five shapes, with/without header) and the remembered bit
    los, rshift = report.get("abi_consts", {}).get("LARGE_OBJECT_SIZE", 0), report.get("abi_consts", {}).get("REMEMBERED_BIT_SHIFT", 0)
    for (d, l) in ((14, 13), (13, 13)):
        for es in ARRAY_ES:
            for hdr in ("true", "false"):
                call = "determine_array_size %d %d %d %s" % (d, l, es, hdr)
                if prog.get(call, ("", ""))[0] != "ok":
                    continue
                hs = 16 if hdr == "true" else 0
                lens = set(range(0, 18))
                for base in ((1 << 61), (1 << 63), (1 << 64) // es, ((1 << 64) - hs - 7) // es, ((1 << 63) - 1 - 24) // es, 32768 // es):
                    lens.update(base + dd for dd in (-2, -1, 0, 1, 2))
                lens.update(rng.getrandbits(rng.choice((8, 20, 40, 64))) for _ in range(4))
                lens = sorted(x & M64 for x in lens)
                if (d, l) != (14, 13):
                    lens = lens[::3]
                for ln in lens:
                    cases.append(("array_size:es%d:hdr-%s:%d,%d" % (es, hdr, d, l), "array_size", 64, call, d, l, l, ln, es,
                                  regs_line({l: ln}, rng), hdr))
    call = "compute_remembered_bit 7 14"
    if prog.get(call, ("", ""))[0] == "ok":
        szs = {0, 1, 8, 16, los - 9, los - 8, los - 1, los, los + 1, los + 8, 2 * los, (1 << 31), (1 << 32) + los - 1, (1 << 63), M64, M64 - 7}
        szs.update(rng.getrandbits(rng.choice((12, 15, 16, 17, 64))) for _ in range(24))
        for sz in sorted(x & M64 for x in szs):
            cases.append(("remembered", "remembered", 64, call, 7, 14, 14, sz, 0, regs_line({14: sz}, rng), "-"))
    req = []
    for i, cs in enumerate(cases):
        mem = cs[10] if cs[1] == "bounds" else "-"
        fl = "".join(rng.choice("01") for _ in range(5))
        req.append("exec e%d | %s | %s | %s | %s" % (i, prog[cs[3]][1], ",".join(word(v) for v in cs[9]), fl, mem))
    nat = run_lines([hx, "run"], req, "h_c01m exec")
    mod = run_lines(drv, req, "drv_c01m exec")
    sem = dict(executed=len(cases), mismatch=0, undefined_flag_positions=0, native_errors=0, by_kind={}, exits={})
    grid = dict(checked=0, wrong=0)
    samples = []
    model_wrong = {}        # kind -> first (case, input, expected, model outcome)
    for i, cs in enumerate(cases):
        name, kind, w, call, d, l, r, a, b, rin, aux = cs
        n = nat[i].split(" ")
        m = mod[i].split(" ")
        sem["by_kind"][kind] = sem["by_kind"].get(kind, 0) + 1
        if len(n) != 4 or n[1].startswith("!"):
            sem["native_errors"] += 1
            ctx.finding("corr:x64sem:harness-refuses", dict(kind="correspondence", request=req[i], answer=nat[i]),
                        "h_c01m cannot execute the model's list for %s: %s" % (name, nat[i][:120]), no_input=True)
            continue
        sem["exits"][n[1].split(":")[0]] = sem["exits"].get(n[1].split(":")[0], 0) + 1
        ok = len(m) == 4 and m[1] == n[1]
        if ok:
            nr_, mr_ = parse_state(n[2]), parse_state(m[2])
            ok = nr_ == mr_
            for cn, cm in zip(n[3], m[3]):
                if cm == "u":
                    sem["undefined_flag_positions"] += 1
                elif cn != cm:
                    ok = False
        if not ok:
            sem["mismatch"] += 1
            cov["disagreements"] += 1
            iset = "+".join(sorted(set(x.split()[0] for x in prog[call][1].split(";") if x.split()[0] not in ("bind", "done", "nop", "call_trap"))))[:60]
            ctx.finding("corr:x64sem:" + iset, dict(kind="correspondence", case=name, request=req[i], native=nat[i], model=mod[i],
                                                      how_to_replay="echo '<request>' | h_c01m run ; echo '<request>' | drv_c01m"),
                        "micro-semantics != host CPU on %s (a=%d b=%d): native %s, model %s" % (name, a, b, nat[i][:80], mod[i][:80]))
        # exact arithmetic on the native outcome, and separately on the model's (for the theorem search)
        for who, ans_ in (("native", n), ("model", m)):
            if len(ans_) != 4:
                continue
            regs_out = parse_state(ans_[2])
            got = None
            if kind == "cmp":
                rel = REL[aux](sx(a, w), sx(b, w), a & ((1 << w) - 1), b & ((1 << w) - 1))
                exp = ("done", (rin[0] & ~0xFF & M64) | (1 if rel else 0))
                got = (ans_[1], regs_out[0]) if ans_[1] == "done" else (ans_[1], None)
            elif kind == "array_size":
                exp = ("done", ((16 if aux == "true" else 0) + (a & M64) * b + 7) & ~7 & M64)
                got = (ans_[1], regs_out[d]) if ans_[1] == "done" else (ans_[1], None)
            elif kind == "remembered":
                exp = ("done", (1 << rshift) if (a & M64) < los else 0)
                got = (ans_[1], regs_out[d]) if ans_[1] == "done" else (ans_[1], None)
            elif kind == "bounds":
                inb = (a & M64) < (b & M64)
                exp = ("done", None) if inb else ("trap", traps["INDEX_OUT_OF_BOUNDS"])
                got = ("done", None) if ans_[1] == "done" else ("trap", int(ans_[1].split(":")[1])) if ans_[1].startswith("trap:") else (ans_[1], None)
            else:
                bb = sx(b, 32) if kind in ("shl", "shr", "sar") else b
                exp = exact(kind, w, a, bb, traps)
                if ans_[1] == "done":
                    got = ("done", regs_out[d])
                elif ans_[1].startswith("trap:"):
                    got = ("trap", int(ans_[1].split(":")[1]))
                else:
                    got = (ans_[1], None)
            if who == "native":
                grid["checked"] += 1
                if len(samples) < 4 and (exp[0] == "trap" or i % 997 == 0):
                    samples.append(dict(case=name, a=a, b=b, expected=list(exp), native=nat[i][:60]))
            if got != exp:
                if who == "native":
                    grid["wrong"] += 1
                    cov["oracle_failures"] += 1
                    ctx.finding("oracle:masm-grid:" + name.split(":")[0],
                                dict(kind="oracle", case=name, call=call, a=a, b=b, width=w, expected=list(exp), observed=list(got),
                                     request=req[i], how_to_replay="echo '<request>' | h_c01m run"),
                                "the sequence of `%s` executed on the host CPU with a=%d b=%d gives %s, exact arithmetic says %s"
                                % (call, a, b, got, exp))
                else:
                    model_wrong.setdefault(kind, dict(case=name, call=call, a=a, b=b, width=w, expected=list(exp), model=list(got), request=req[i]))
    cov["x64sem"] = sem
    cov["grid"] = grid
    cov["evaluations"] += sem["executed"]
    cov["samples"] = samples
    C.log("[c01m] exec: %d lists on CPU and model, %d mismatches, grid %d wrong %.0fs"
          % (sem["executed"], sem["mismatch"], grid["wrong"], time.time() - t0))

    # ---- (e) a theorem no longer builds: look for the operand pair
    if not po["build_ok"] or po["failed"]:
        reported = 0
        seen = set()
        for e in po["failed"]:
            th, f = theorem_of_error(e)
            if th is None and f is None:
                continue                        # "Lean exited with code 1" and the like
            key = th or f or "C01Masm"
            if key in seen:
                continue
            seen.add(key)
            ks = kinds_of(th) or list(model_wrong)
            hit = next((model_wrong[k] for k in ks if k in model_wrong), None)
            ctx.finding("proof:" + key,
                        dict(kind="proof", theorem=th, file=f, error=e, failing_input=hit, log=po.get("build_log_tail", "")[-1500:],
                             how_to_replay="cd /verif/lean && lake build %s" % PROP_MODULE),
                        "machine-leg theorem %s (%s) no longer checks: %s%s" % (
                            th, f, e[:160], ("; the regenerated sequence `%s` with a=%d b=%d gives %s, exact %s" % (
                                hit["call"], hit["a"], hit["b"], hit["model"], hit["expected"])) if hit else ""),
                        no_input=hit is None)
            reported += 1
        if not reported:
            ctx.finding("proof:C01Masm", dict(kind="proof", failed=po["failed"]), "machine-leg theorems no longer check", no_input=True)
    cov["not_proved"] = ["int_div_checked / int_mod_checked at instruction level (integer core proved in X64/MasmLemmasDiv.lean; "
                         "the sequences are compared with exact arithmetic on the grid each run)"]
    return cov
