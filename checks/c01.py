"""C01 — compiled programs behave exactly as the language semantics prescribe.

proof:  lean/DoraModel/Props/C01.lean — laws of the MiniDora reference semantics (lean/DoraModel/Mini/*)
tie:    gen/progs.py typed random programs -> prog.dora + prog.sexp (same AST) -> compiled with BOTH code
        generators and run; the Lean reference interpreter `drv_c01` runs the twin; stdout / exit status /
        trap kind must be equal.
keys:   oracle:miscompile:<backend>:<feature>   executable != reference semantics
        oracle:crash:<backend>                  signal / Rust panic / compiler failure on a valid program
        corr:mini:<what>                        reference interpreter stuck / out of fuel / unreadable twin
        (machine leg, checks/c01_masm.py: corr:masm-translate:*, corr:masm-bytes:*, corr:x64sem:*, oracle:masm-grid:*, proof:<theorem>)
        proof:C01                               a theorem no longer checks

Shared with C02: `build_results` caches per-program results under
/verif/.build/progs/<toolchain-hash>/<seed>-<generator-hash>/ (executables are 38 MB each and are
deleted right after the run; only the observations are kept).
"""
import concurrent.futures as cf
import hashlib
import json
import os
import shutil
import signal
import sys

from . import common as C
from . import c01_masm

sys.path.insert(0, os.path.join(C.VERIF, "gen"))
import progs as G  # noqa: E402

PROP_MODULE = "DoraModel.Props.C01"
PROP_FILE = "DoraModel/Props/C01.lean"
BACKENDS = ("cannon", "boots")
TRAPS = {101: "div0", 102: "assert", 103: "index", 104: "nil", 105: "cast", 106: "oom", 107: "stackoverflow",
         108: "illegal", 109: "overflow", 110: "shift"}
TRAP_MSG = {"div0": "division by 0", "assert": "assert failed", "index": "array index out of bounds",
            "nil": "nil check failed", "cast": "cast failed", "oom": "out of memory",
            "stackoverflow": "stack overflow", "illegal": "illegal state", "overflow": "overflow",
            "shift": "shift amount out of bounds"}
WORKERS = 16
QUICK_N = 72
RUN_TIMEOUT = 20


def ensure_pkgs():
    """`dora` looks for `pkgs/` in an ancestor directory of its executable."""
    link = os.path.join(C.BUILD, "pkgs")
    os.makedirs(C.BUILD, exist_ok=True)
    if not os.path.exists(link):
        try:
            os.symlink(os.path.join(C.REPO, "pkgs"), link)
        except FileExistsError:
            pass


def toolchain():
    """Shared tool chain of common.toolchain(), snapshotted into a private directory: other checks call
    common.toolchain() concurrently and that function deletes tool chains of other tree states, which
    must not pull the compiler away while 16 workers are using it.  The snapshot also freezes pkgs/."""
    ensure_pkgs()
    import time
    for attempt in range(8):
        try:
            tc = C.toolchain(need_boots=True)
        except (OSError, RuntimeError) as ex:     # "Text file busy" / concurrent removal: see toolchain() notes
            C.log("tool chain build attempt %d failed (%s); retrying" % (attempt, str(ex)[:120]))
            time.sleep(20)
            continue
        snap = os.path.join(C.BUILD, "c01tc", tc["hash"])
        if os.path.exists(os.path.join(snap, "ok")):
            break
        with C.FLock("toolchain"):
            if not os.path.exists(tc["boots"]):
                continue            # removed by a concurrent build of another tree state; build again
            root = os.path.join(C.BUILD, "c01tc")
            if os.path.isdir(root):
                for o in os.listdir(root):
                    if o != tc["hash"]:
                        shutil.rmtree(os.path.join(root, o), ignore_errors=True)
            tmp = snap + ".tmp%d" % os.getpid()
            shutil.rmtree(tmp, ignore_errors=True)
            os.makedirs(os.path.join(tmp, "bin"))
            for f in ("dora", "dora-cannon-compiler", "dora-boots-compiler", "libdora_runtime.a", "libdora_startup.a"):
                shutil.copy2(os.path.join(os.path.dirname(tc["dora"]), f), os.path.join(tmp, "bin", f))
            # the debug runtime archives carry ~120 MB of DWARF that every link would copy; drop it (code unchanged)
            C.sh(["strip", "-g", os.path.join(tmp, "bin", "libdora_runtime.a"), os.path.join(tmp, "bin", "libdora_startup.a")])
            shutil.copytree(os.path.join(C.REPO, "pkgs"), os.path.join(tmp, "pkgs"))
            open(os.path.join(tmp, "ok"), "w").write(tc["hash"])
            if os.path.exists(snap):
                shutil.rmtree(tmp, ignore_errors=True)
            else:
                os.rename(tmp, snap)
        break
    else:
        raise RuntimeError("tool chain keeps disappearing (concurrent builds of other tree states)")
    return dict(tc, dir=snap, dora=os.path.join(snap, "bin", "dora"),
                cannon=os.path.join(snap, "bin", "dora-cannon-compiler"),
                boots=os.path.join(snap, "bin", "dora-boots-compiler"))


def content_tag(programs):
    """cache key of a program family: hash of the program texts (an edit of gen/progs.py that does not change
    the generated programs keeps the cache warm)"""
    h = hashlib.sha256()
    for p in programs:
        h.update(p.name.encode())
        h.update(p.dora.encode())
    return h.hexdigest()[:8]


def gen_hash():
    h = hashlib.sha256(open(os.path.join(C.VERIF, "gen", "progs.py"), "rb").read())
    return h.hexdigest()[:8]


def cache_dir(tc, seed, tag=None):
    root = os.path.join(C.BUILD, "progs")
    if os.path.isdir(root):                      # observations of other tree states are useless: free the disk
        for o in os.listdir(root):
            if o != tc["hash"]:
                shutil.rmtree(os.path.join(root, o), ignore_errors=True)
    return os.path.join(C.BUILD, "progs", tc["hash"], "%s-%s" % (seed, tag or gen_hash()))


def compile_only(tc, src, exe, backend):
    """(ok, log)"""
    cmd = [tc["dora"], "compile"] + (["--cannon"] if backend == "cannon" else []) + [src, "-o", exe]
    rc, out, err = C.sh2(cmd, timeout=900)
    ok = rc == 0 and os.path.exists(exe)
    return ok, rc, (out + err)


def run_exe(exe, workdir, backend, args=(), env_flags=None):
    import subprocess
    e = dict(os.environ)
    if env_flags:
        e["DORA_FLAGS"] = env_flags
    try:
        p = subprocess.run([exe] + list(args), stdout=subprocess.PIPE, stderr=subprocess.PIPE, timeout=RUN_TIMEOUT,
                           env=e, cwd=workdir)
        rcode, so, se = p.returncode, p.stdout, p.stderr
    except subprocess.TimeoutExpired as ex:
        rcode, so, se = "timeout", ex.stdout or b"", ex.stderr or b""
    se_t = se.decode("utf-8", "replace")
    return dict(backend=backend, status="ran", rc=rcode, stdout=so.hex(),
                stderr1=(se_t.splitlines() or [""])[0][:300], stderr=se_t[:1500])


def compile_and_run(tc, src, workdir, backend, env_flags=None, keep=False):
    """Compile `src` with one back end, run it, return the observation dict."""
    exe = os.path.join(workdir, "exe_" + backend)
    ok, rc, log = compile_only(tc, src, exe, backend)
    if not ok:
        return dict(backend=backend, compile_rc=rc, compile_log=log[-3000:], status="compile-failed")
    obs = run_exe(exe, workdir, backend, env_flags=env_flags)
    if not keep:
        try:
            os.unlink(exe)
        except OSError:
            pass
    return obs


def classify(obs):
    """Defined outcomes: exit:<n> | trap:<kind> | fatal ; anything else is undefined:<why>.
    Mirrors `Dora.Mini.classify` (lean/DoraModel/Mini/Classify.lean)."""
    if obs.get("status") != "ran":
        return "undefined:compile-failed"
    rc = obs["rc"]
    s1 = obs.get("stderr1", "")
    full = obs.get("stderr", "")
    if rc == "timeout":
        return "undefined:timeout"
    if rc < 0:
        try:
            return "undefined:signal:" + signal.Signals(-rc).name
        except ValueError:
            return "undefined:signal:%d" % -rc
    if "panicked at" in full or "RUST_BACKTRACE" in full:
        return "undefined:rust-panic"
    if rc in TRAPS:
        k = TRAPS[rc]
        if s1.strip() == TRAP_MSG[k]:
            return "trap:" + k
        return "undefined:trap-status-without-message:%d" % rc
    if (s1.startswith("fatal error: ") or s1 == "unreachable code executed.") and rc == 1:
        return "fatal"
    if s1.strip() in TRAP_MSG.values():
        return "undefined:trap-message-with-status:%d" % rc
    return "exit:%d" % rc


BATCH = 12


def load_cached(cdir, prog):
    res_file = os.path.join(cdir, prog.name, "result.json")
    if os.path.exists(res_file):
        try:
            return json.load(open(res_file))
        except Exception:
            return None
    return None


def new_result(cdir, prog):
    pdir = os.path.join(cdir, prog.name)
    os.makedirs(pdir, exist_ok=True)
    open(os.path.join(pdir, "prog.dora"), "w").write(prog.dora)
    if prog.sexp is not None:
        open(os.path.join(pdir, "prog.sexp"), "w").write(prog.sexp + "\n")
    return dict(name=prog.name, features=sorted(prog.features), boundary=prog.boundary, expect=prog.expect,
                kind=prog.kind, obs={})


def save_result(cdir, res):
    json.dump(res, open(os.path.join(cdir, res["name"], "result.json"), "w"))


def process_one(tc, cdir, prog, backends=BACKENDS, res=None):
    """one program as its own executable"""
    res = res or new_result(cdir, prog)
    pdir = os.path.join(cdir, prog.name)
    for b in backends:
        res["obs"][b] = compile_and_run(tc, os.path.join(pdir, "prog.dora"), pdir, b)
    res["batched"] = False
    save_result(cdir, res)
    return res


def process_batch(tc, cdir, idx, members):
    """several programs in one compile unit (gen/progs.py batch_source): one compile + link per back end, one
    process run per member.  If the unit does not compile (a compiler crash on one member), the members are
    compiled one by one with that back end, so the failure is attributed to the program that causes it."""
    bdir = os.path.join(cdir, "batch_%d_%s" % (idx, members[0].name))
    os.makedirs(bdir, exist_ok=True)
    src = os.path.join(bdir, "batch.dora")
    open(src, "w").write(G.batch_source(members))
    results = [new_result(cdir, p) for p in members]
    for b in BACKENDS:
        exe = os.path.join(bdir, "exe_" + b)
        ok, rc, log = compile_only(tc, src, exe, b)
        if ok:
            for p, res in zip(members, results):
                res["obs"][b] = run_exe(exe, bdir, b, args=[p.name])
            try:
                os.unlink(exe)
            except OSError:
                pass
        else:
            for p, res in zip(members, results):
                process_one(tc, cdir, p, backends=[b], res=res)
    for res in results:
        res["batched"] = True
        save_result(cdir, res)
    shutil.rmtree(bdir, ignore_errors=True)
    return results


def build_results(tc, programs, cdir, batch=True):
    os.makedirs(cdir, exist_ok=True)
    by_name = {}
    todo = []
    for p in programs:
        r = load_cached(cdir, p)
        if r is not None and all(b in r.get("obs", {}) for b in BACKENDS):
            by_name[p.name] = r
        else:
            todo.append(p)
    can = [p for p in todo if batch and G.batchable(p) and "// no-batch" not in p.dora]
    single = [p for p in todo if p not in can]
    # 8 compile units (x 2 back ends = one wave of 16 workers), at most BATCH members each
    size = max(2, min(BATCH, -(-len(can) // 8)))
    groups = [can[i:i + size] for i in range(0, len(can), size)]
    if groups and len(groups[-1]) == 1:
        single += groups.pop()
    with cf.ThreadPoolExecutor(max_workers=WORKERS) as ex:
        futs = [ex.submit(process_batch, tc, cdir, i, g) for i, g in enumerate(groups)]
        futs1 = [ex.submit(process_one, tc, cdir, p) for p in single]
        for f in futs:
            for r in f.result():
                by_name[r["name"]] = r
        for f in futs1:
            r = f.result()
            by_name[r["name"]] = r
    results = [by_name[p.name] for p in programs]
    # a time-out under machine load is not a verdict: run those again (own executable, long limit, few at a time)
    global RUN_TIMEOUT
    late = [(res, b) for res in results for b in BACKENDS if res["obs"][b].get("rc") == "timeout"]
    if late:
        old, RUN_TIMEOUT = RUN_TIMEOUT, 240

        def again(rb):
            res, b = rb
            pdir = os.path.join(cdir, res["name"])
            res["obs"][b] = compile_and_run(tc, os.path.join(pdir, "prog.dora"), pdir, b)
        try:
            with cf.ThreadPoolExecutor(max_workers=6) as ex:
                list(ex.map(again, late))
        finally:
            RUN_TIMEOUT = old
        for res in set(id(r) for r, _ in late):
            pass
        for res, _ in late:
            save_result(cdir, res)
    return results


def confirm_individually(tc, cdir, prog, res, suspicious):
    """an observation made inside a batch executable that looks wrong is repeated with the program compiled on
    its own (the batch wrapper must never be the reason for a finding)"""
    if res.get("batched") and suspicious:
        fresh = new_result(cdir, prog)
        return process_one(tc, cdir, prog, res=fresh)
    return res


def reduce_compile_crash(tc, prog, backend, site, workdir):
    """line-based reduction of a program on which the compiler itself fails (same crash site)"""
    os.makedirs(workdir, exist_ok=True)

    def pred(lines):
        src = os.path.join(workdir, "r.dora")
        open(src, "w").write("\n".join(lines) + "\n")
        ok, rc, log = compile_only(tc, src, os.path.join(workdir, "r_exe"), backend)
        try:
            os.unlink(os.path.join(workdir, "r_exe"))
        except OSError:
            pass
        return (not ok) and crash_site(dict(status="compile-failed", compile_log=log)) == site
    try:
        out = shrink_lines(prog.dora.splitlines(), pred, budget=60)
        return "\n".join(l for l in out if l.strip()) + "\n"
    except Exception:
        return None
    finally:
        shutil.rmtree(workdir, ignore_errors=True)


def crash_site(obs):
    """specific part of a crash key: panic site / fatal error frame / signal"""
    import re
    text = obs.get("stderr") or obs.get("compile_log") or ""
    m = re.search(r"panicked at ([^\s:]+:\d+)", text)
    if m:
        return "panic@" + m.group(1)
    # a message line followed by an indented stack trace: "fatal error: ..." or a trap message ("assert failed")
    m = re.search(r"(?:^|\n)((?:fatal error: )?[a-z][^\n]*)\n((?:    \S[^\n]*\n)+)", text)
    if m and (m.group(1).startswith("fatal error: ") or m.group(1) in TRAP_MSG.values()):
        frames = [f.strip().split(" (")[0] for f in m.group(2).splitlines()]
        frames = [f for f in frames if f and not f.startswith("std::")]
        return re.sub(r"[^A-Za-z0-9_:.-]+", "_", (frames[0] if frames else m.group(1)))[:60]
    cl = classify(obs)
    return cl.replace("undefined:", "")


def run_mini(drv, programs, fuel=20000):
    """name -> (stdout hex, outcome)"""
    progs_ = [p for p in programs if p.sexp is not None]
    chunks = [progs_[i::8] for i in range(8)]

    def one(chunk):
        if not chunk:
            return []
        text = "".join(p.sexp + "\n" for p in chunk)
        # deep evaluation needs native stack
        rc, out, err = C.sh2("ulimit -s unlimited 2>/dev/null || ulimit -s 1000000; exec %s %d" % (drv, fuel),
                             stdin=text, timeout=1200)
        lines = out.splitlines()
        if len(lines) != len(chunk):
            raise RuntimeError("drv_c01 answered %d of %d programs (rc=%s): %s" % (len(lines), len(chunk), rc, err[-500:]))
        return list(zip(chunk, lines))
    res = {}
    with cf.ThreadPoolExecutor(max_workers=8) as ex:
        for pairs in ex.map(one, chunks):
            for p, line in pairs:
                parts = line.split(" ")
                res[p.name] = (parts[1] if parts[1] != "-" else "", parts[2]) if len(parts) == 3 else ("", "parse-error:" + line[:200])
    return res


def mini_matches(mini, obs):
    """compare the reference outcome with one executable's observation; None = equal, else text"""
    mout, moutcome = mini
    cl = classify(obs)
    if obs.get("status") != "ran":
        return "compiler failed"
    if obs["stdout"] != mout:
        return "stdout differs"
    if moutcome.startswith("fatal:"):
        msg = bytes.fromhex(moutcome[6:]).decode("utf-8", "replace") if moutcome[6:] != "-" else ""
        if cl != "fatal":
            return "expected fatal error, got " + cl
        if obs["stderr1"] != ("fatal error: " + msg if msg != "unreachable code executed." else msg):
            return "fatal message differs: %r" % obs["stderr1"]
        return None
    if cl != moutcome:
        return "outcome %s, reference says %s" % (cl, moutcome)
    return None


def lost_partial(mini, obs):
    """the executable lost exactly the unterminated last line printed before a trap"""
    mout, moutcome = mini
    if not moutcome.startswith("trap:") or classify(obs) != moutcome:
        return False
    raw = bytes.fromhex(mout)
    cut = raw.rfind(b"\n") + 1
    return cut < len(raw) and obs.get("stdout") == raw[:cut].hex()


def hexdec(h):
    return bytes.fromhex(h).decode("utf-8", "replace")


def feature_of(prog_res, mini, obs):
    """name the construct of the first diverging output line (tag before ':'), for the finding key"""
    a = hexdec(mini[0]).splitlines()
    b = hexdec(obs.get("stdout", "")).splitlines()
    for i in range(max(len(a), len(b))):
        x = a[i] if i < len(a) else "<end>"
        y = b[i] if i < len(b) else "<end>"
        if x != y:
            tag = x.split(":")[0] if ":" in x else "line"
            return "out-" + "".join(ch for ch in tag if ch.isalpha())[:8]
    return "status"


def shrink(tc, drv, prog, backend, workdir):
    """drop top-level statements of main while the disagreement with Mini persists (cheap, best effort)"""
    import copy
    decls = prog.decls
    main = [d for d in decls if d["k"] == "fn" and d["name"] == "main"][0]
    stmts = list(main["body"].a)
    os.makedirs(workdir, exist_ok=True)

    def disagrees(ss):
        m2 = dict(main)
        m2["body"] = G.block(*ss)
        ds = [m2 if d is main else d for d in decls]
        try:
            p = G.Program(prog.name, ds, prog.features)
        except Exception:
            return None
        src = os.path.join(workdir, "shrink.dora")
        open(src, "w").write(p.dora)
        obs = compile_and_run(tc, src, workdir, backend)
        if obs.get("status") != "ran":
            return None
        try:
            mini = run_mini(drv, [p])[p.name]
        except Exception:
            return None
        if mini[1].startswith(("stuck", "oof", "parse-error")):
            return None
        return p if mini_matches(mini, obs) else None
    best = None
    i = len(stmts) - 1
    budget = 24
    while i >= 0 and budget > 0:
        cand = stmts[:i] + stmts[i + 1:]
        budget -= 1
        p = disagrees(cand)
        if p is not None:
            stmts = cand
            best = p
        i -= 1
    return best


def shrink_lines(lines, pred, budget=400):
    """line-based reduction of a Dora source (one statement per line): repeatedly drop single lines and whole
    `{ ... }` blocks (header line up to the matching closing line of equal indentation) while pred(lines) holds"""
    lines = [l for l in lines]
    changed = True
    while changed and budget > 0:
        changed = False
        i = len(lines) - 1
        while i >= 0 and budget > 0:
            l = lines[i]
            cands = []
            if l.rstrip().endswith("{"):
                ind = len(l) - len(l.lstrip())
                j = i + 1
                while j < len(lines) and not (lines[j].strip().startswith("}") and len(lines[j]) - len(lines[j].lstrip()) == ind):
                    j += 1
                if j < len(lines):
                    if lines[j].strip() == "}":
                        cands.append(lines[:i] + lines[j + 1:])
                    cands.append(lines[:i] + lines[i + 1:j] + lines[j + 1:]) if lines[j].strip() == "}" else None
            elif l.strip() and l.strip() != "}":
                cands.append(lines[:i] + lines[i + 1:])
            for c in cands:
                if c is None:
                    continue
                budget -= 1
                if pred(c):
                    lines = c
                    changed = True
                    break
            i -= 1
    return lines


def run(ctx):
    import time
    t0 = time.time()
    po = C.proof_obligations(ctx, PROP_MODULE, PROP_FILE, hygiene_paths=("DoraModel/Mini", PROP_FILE))
    drv, dlog = C.lean_exe("drv_c01")
    C.log("[c01] proofs+driver %.0fs" % (time.time() - t0))
    # machine leg (lean/DoraModel/Props/C01Masm.lean, checks/c01_masm.py): reports its own findings, returns its coverage
    masm = c01_masm.leg(ctx) if not ctx.replay else {}
    if drv is None:
        raise RuntimeError("driver build failed:\n" + dlog[-3000:])
    t0 = time.time()
    tc = toolchain()
    C.log("[c01] tool chain %s %.0fs" % (tc["hash"], time.time() - t0))
    t0 = time.time()
    n = QUICK_N if ctx.tier == "quick" else 3000
    n = int(os.environ.get("VERIF_C01_N", n))      # one-off larger batches (crash hunts) without the thorough tier
    if ctx.replay:
        r = json.load(open(ctx.replay))
        programs = [G.gen_program(r.get("gen_seed", ctx.seed), r["index"])] if "index" in r else []
    else:
        programs = [G.gen_program(ctx.seed, i) for i in range(n)]
    cdir = cache_dir(tc, ctx.seed, content_tag(programs))
    results = build_results(tc, programs, cdir)
    C.log("[c01] %d programs compiled+run (or cached) %.0fs" % (len(programs), time.time() - t0))
    mini = run_mini(drv, programs)
    stats = dict(evaluations=0, nontrivial=set(), hist={}, traps={}, disagreements=0, oracle_failures=0,
                 samples=[], outcomes={}, mini_problems=0)
    by_name = {p.name: p for p in programs}
    reduced_keys = set()
    for res in results:
        p = by_name[res["name"]]
        m = mini[p.name]
        if not m[1].startswith(("stuck", "oof", "parse-error")):
            res = confirm_individually(tc, cdir, p, res, any(
                classify(res["obs"][b]).startswith("undefined:") or mini_matches(m, res["obs"][b]) for b in BACKENDS))
        stats["evaluations"] += 1
        for f in res["features"]:
            stats["hist"][f] = stats["hist"].get(f, 0) + 1
        oc = m[1].split(":")[0] + (":" + m[1].split(":")[1] if m[1].startswith(("trap", "exit")) else "")
        stats["outcomes"][oc] = stats["outcomes"].get(oc, 0) + 1
        if m[1].startswith("trap:"):
            stats["traps"][m[1][5:]] = stats["traps"].get(m[1][5:], 0) + 1
        classes = set(f.split(":")[0] for f in res["features"])
        if res["boundary"] or len(classes) >= 3:
            stats["nontrivial"].add(hashlib.sha256(p.dora.encode()).hexdigest())
        if m[1].startswith(("stuck", "oof", "parse-error")):
            stats["mini_problems"] += 1
            ctx.finding("corr:mini:" + m[1].split(":")[0],
                        dict(kind="correspondence", index=int(p.name.split("_")[1]), gen_seed=ctx.seed,
                             outcome=m[1], detail=hexdec(m[1].split(":", 1)[1]) if ":" in m[1] and m[1].split(":", 1)[1] != "-" else "",
                             dora=p.dora),
                        "reference interpreter cannot run generated program %s: %s" % (p.name, m[1][:100]),
                        no_input=True)
            continue
        if len(stats["samples"]) < 3 and res["boundary"]:
            stats["samples"].append(dict(program=p.name, dora_lines=len(p.dora.splitlines()),
                                         features=res["features"], reference=dict(stdout=hexdec(m[0])[:300], outcome=m[1]),
                                         cannon=classify(res["obs"]["cannon"]), boots=classify(res["obs"]["boots"]),
                                         first_lines=p.dora.splitlines()[-8:]))
        for b in BACKENDS:
            obs = res["obs"][b]
            cl = classify(obs)
            if cl.startswith("undefined:"):
                stats["oracle_failures"] += 1
                ckey = "oracle:crash:%s:%s" % (b, crash_site(obs))
                minimal = None
                if obs.get("status") == "compile-failed" and ckey not in reduced_keys and ckey not in [k for k, _ in ctx.known]:
                    reduced_keys.add(ckey)
                    minimal = reduce_compile_crash(tc, p, b, crash_site(obs), os.path.join(cdir, "reduce_%d" % os.getpid()))
                ctx.finding(ckey,
                            dict(kind="oracle", index=int(p.name.split("_")[1]), gen_seed=ctx.seed, backend=b, minimal=minimal,
                                 classification=cl, stderr=obs.get("stderr", obs.get("compile_log", ""))[:1500],
                                 dora=p.dora, how_to_replay="./check C01 --replay <this file>"),
                            "%s back end: %s on valid program %s" % (b, cl, p.name))
                continue
            why = mini_matches(m, obs)
            if why and lost_partial(m, obs):
                stats["oracle_failures"] += 1
                stats["lost_output"] = stats.get("lost_output", 0) + 1
                ctx.finding("oracle:lost-output:trap-unflushed-partial-line",
                            dict(kind="oracle", index=int(p.name.split("_")[1]), gen_seed=ctx.seed, backend=b,
                                 reference=dict(stdout=hexdec(m[0]), outcome=m[1]),
                                 observed=dict(stdout=hexdec(obs["stdout"]), outcome=cl),
                                 minimal="fn main() { print(\"partial\"); let z = 0i64; println(\"${1i64 / z}\"); }",
                                 dora=p.dora),
                            "text printed with print() before a trap is lost (trap() ends the process with _exit without "
                            "flushing the line-buffered stdout); program %s, %s back end" % (p.name, b))
                continue
            if why:
                stats["disagreements"] += 1
                feat = feature_of(res, m, obs)
                small = None
                if stats["disagreements"] <= 3:
                    small = shrink(tc, drv, p, b, os.path.join(cdir, "shrink_%d" % os.getpid()))
                ctx.finding("oracle:miscompile:%s:%s" % (b, feat),
                            dict(kind="oracle", index=int(p.name.split("_")[1]), gen_seed=ctx.seed, backend=b, why=why,
                                 reference=dict(stdout=hexdec(m[0]), outcome=m[1]),
                                 observed=dict(stdout=hexdec(obs["stdout"]), outcome=cl, stderr1=obs["stderr1"]),
                                 other_backend_agrees_with_reference=(mini_matches(m, res["obs"][BACKENDS[1 - BACKENDS.index(b)]]) is None),
                                 dora=(small.dora if small else p.dora), shrunk=bool(small),
                                 how_to_replay="./check C01 --replay <this file>"),
                            "%s executable of %s: %s" % (b, p.name, why))
    if not po["build_ok"] or po["failed"]:
        ctx.finding("proof:C01", dict(kind="proof", failed=po["failed"], log=po.get("build_log_tail", "")),
                    "property theorems of C01 no longer check: %s" % "; ".join(po["failed"])[:400],
                    no_input=not (stats["disagreements"] or stats["oracle_failures"]))
    shutil.rmtree(os.path.join(cdir, "shrink_%d" % os.getpid()), ignore_errors=True)
    cov = dict(obligations=po["obligations"] + masm.get("obligations", 0),
               discharged=po["discharged"] + masm.get("discharged", 0),
               checker_cmd=po["checker_cmd"] + (" ; " + masm["checker_cmd"] if masm.get("checker_cmd") else ""),
               masm=masm,
               trusted_base=po["trusted_base"] + [t for t in masm.get("trusted_base", []) if t not in po["trusted_base"]] + [
                   "MiniDora reference semantics lean/DoraModel/Mini/{Prim,Eval}.lean is the specification; validated "
                   "only by agreement with both code generators on the generated programs",
                   "gen/progs.py (both twins are printed from one AST), drv_c01, checks/c01.py",
                   "whole-compiler correctness is compared on generated programs, not proved"],
               theorems=po["theorems"],
               evaluations=stats["evaluations"] * len(BACKENDS), programs=stats["evaluations"],
               distinct_nontrivial=len(stats["nontrivial"]),
               rule="programs gen_program(seed, 0..n-1) of gen/progs.py: typed random programs over the feature classes "
                    "of the histogram (every ninth one concentrating on integer-literal matches, every ninth one on one of: "
                    "arrays/vectors of small tuples and structs with neighbours allocated behind them, literal matches on "
                    "Char/String/tuples/UInt8, loop forms and exits, conversions at their boundaries, records with padding "
                    "in every kind of home), 1/3 of them ending in a chosen trap / fatal error / exit; each compiled with both "
                    "back ends and compared (stdout, exit status, trap kind = first stderr line) with the Lean reference "
                    "interpreter; non-trivial = executes a checked operation on boundary constants or uses >= 3 feature "
                    "classes; distinct by source hash",
               histogram=stats["hist"], trap_kinds=stats["traps"], reference_outcomes=stats["outcomes"],
               samples=stats["samples"] or [dict(note="no boundary sample")],
               disagreements=stats["disagreements"], oracle_failures=stats["oracle_failures"],
               reference_interpreter_problems=stats["mini_problems"], backends=list(BACKENDS),
               toolchain=tc["hash"])
    ctx.write_evidence("proof", cov, assumptions=[
        "the reference semantics is my formalisation of Dora's evaluation rules (no independent written semantics exists)",
        "trap kinds cast/nil/illegal/oom/stack overflow are not reachable in the generated subset (C13 covers the last two)",
        "floats are left out of the generated programs"])
