"""C20 — Editor positions and symbol ranges always match the document.

proof:  lean/DoraModel/Props/C20.lean over the hand model lean/DoraModel/Position/Model.lean
tie:    h_c20 (the real position.rs + dora-parser line functions, in-process) vs drv_c20 (Lean model) on
        the same request file; every line must be equal
oracle: evaluated on the implementation's own answers, per text: no panic on a character boundary,
        offset -> position -> offset = id, every (line, column) maps to a character boundary inside the
        text (clamping), positions are monotone in the offset, span_to_range = the two end positions
lsp:    (optional leg) the real dora-language-server over stdio: documentSymbol ranges lie inside the
        document, selectionRange inside range, children inside parents, an answer arrives for every text
        (a missing answer = the analysis thread panicked), the server is alive afterwards
"""
import json
import os
import queue
import re
import shutil
import subprocess
import threading
import time

from . import common as C

PROP_MODULE = "DoraModel.Props.C20"
PROP_FILE = "DoraModel/Props/C20.lean"
CHUNK = 150000


def unhex(s):
    return b"" if s == "-" else bytes.fromhex(s)


# ----------------------------------------------------------------------------- text facts (python side)

def boundaries(tb):
    """set of char-boundary byte offsets of valid UTF-8 bytes `tb` (end included)"""
    return {i for i in range(len(tb) + 1) if i == len(tb) or (tb[i] & 0xC0) != 0x80}


def text_features(tb):
    t = tb.decode("utf-8")
    crlf = t.count("\r\n")
    cr = t.count("\r") - crlf
    lf = t.count("\n") - crlf
    styles = (1 if crlf else 0) + (1 if cr else 0) + (1 if lf else 0)
    multibyte = any(ord(ch) >= 0x80 for ch in t)
    astral = any(ord(ch) >= 0x10000 for ch in t)
    f = []
    if astral:
        f.append("text_astral")
    if multibyte:
        f.append("text_multibyte")
    if crlf:
        f.append("text_crlf")
    if cr:
        f.append("text_lone_cr")
    if lf:
        f.append("text_lf")
    if styles >= 2:
        f.append("text_mixed_endings")
    if re.search(r"(\r\n|\r|\n)(\r\n|\r|\n)", t) or re.match(r"(\r\n|\r|\n)", t):
        f.append("text_empty_line")
    if t and not t.endswith(("\n", "\r")):
        f.append("text_no_trailing_newline")
    if re.search(r"[\U00010000-\U0010ffff](\r\n)", t):
        f.append("text_astral_before_crlf")
    return (multibyte or styles >= 2), f


# ----------------------------------------------------------------------------- oracle on one text block

class Block:
    """all requests about one text with the implementation's answers"""

    def __init__(self, hexs):
        self.hex = hexs
        self.tb = unhex(hexs)
        self.o2p = {}
        self.p2o = {}
        self.starts = None
        self.s2r = []
        self.lc = {}


def oracle_block(b, stats, fail):
    """Decidable form of the property on the implementation's answers for one text.
    `fail(key, request, why)` reports a failure."""
    tb = b.tb
    n = len(tb)
    bd = boundaries(tb)
    # line starts: sorted, start with 0, boundaries
    if b.starts is not None:
        st = b.starts
        if st.startswith("!"):
            fail("oracle:starts-panic", "starts " + b.hex, "compute_line_starts panicked: " + st)
        else:
            xs = [int(x) for x in st.split(",")]
            if xs[0] != 0 or any(xs[i] >= xs[i + 1] for i in range(len(xs) - 1)) or any(x not in bd for x in xs):
                fail("oracle:starts", "starts " + b.hex, "line starts not 0-based / increasing / on boundaries: " + st)
    prev = None
    for off in sorted(b.o2p):
        r = b.o2p[off]
        req = "o2p %s %d" % (b.hex, off)
        if off in bd:
            stats["hist"]["offset_boundary"] = stats["hist"].get("offset_boundary", 0) + 1
            if r.startswith("!"):
                fail("oracle:o2p-panic", req, "offset on a character boundary, conversion panicked: " + r)
                continue
            l, c = (int(x) for x in r.split(" "))
            if prev is not None and (l, c) < prev[1]:
                fail("oracle:monotone", req, "position %s of offset %d is before position %s of offset %d"
                     % ((l, c), off, prev[1], prev[0]))
            prev = (off, (l, c))
            back = b.p2o.get((l, c))
            if back is None:
                stats["hist"]["roundtrip_unpaired"] = stats["hist"].get("roundtrip_unpaired", 0) + 1
            else:
                stats["hist"]["roundtrip_checked"] = stats["hist"].get("roundtrip_checked", 0) + 1
                if back != str(off):
                    fail("oracle:roundtrip", req, "offset %d -> position (%d,%d) -> offset %s" % (off, l, c, back))
        else:
            k = "offset_out_of_range" if off > n else "offset_inside_char"
            stats["hist"][k] = stats["hist"].get(k, 0) + 1
            # the property says nothing here; Rust's str slicing refuses (panic), mirrored by the model
    for (l, c), r in b.p2o.items():
        req = "p2o %s %d %d" % (b.hex, l, c)
        if r.startswith("!"):
            fail("oracle:p2o-panic", req, "position -> offset panicked: " + r)
            continue
        o = int(r)
        if o > n or o not in bd:
            fail("oracle:clamp", req, "position (%d,%d) maps to %d: outside the text (len %d) or inside a character"
                 % (l, c, o, n))
    for (s, e, r) in b.s2r:
        req = "s2r %s %d %d" % (b.hex, s, e)
        if s in bd and e in bd:
            if r.startswith("!"):
                fail("oracle:s2r-panic", req, "span_to_range panicked on a span between boundaries: " + r)
                continue
            v = [int(x) for x in r.split(" ")]
            if (v[0], v[1]) > (v[2], v[3]):
                fail("oracle:s2r-order", req, "range start after range end: " + r)
            a, z = b.o2p.get(s), b.o2p.get(e)
            if a and z and not a.startswith("!") and not z.startswith("!") and r != a + " " + z:
                fail("oracle:s2r", req, "span_to_range differs from the two end positions: %s vs %s %s" % (r, a, z))


def classify_position(b, l, c, starts):
    """histogram key for a requested position"""
    if l >= len(starts):
        return "position_line_out_of_range"
    tb = b.tb
    s = starts[l]
    e = starts[l + 1] if l + 1 < len(starts) else len(tb)
    line = tb[s:e].decode("utf-8")
    units = sum(2 if ord(ch) >= 0x10000 else 1 for ch in line)
    if c > units:
        return "position_col_past_line_end"
    u = 0
    for ch in line:
        w = 2 if ord(ch) >= 0x10000 else 1
        if w == 2 and c == u + 1:
            return "position_inside_surrogate_pair"
        u += w
    return "position_in_range"


# ----------------------------------------------------------------------------- correspondence

def run_requests(ctx, hbin, drv, reqs, label, stats):
    os.makedirs(C.BUILD + "/tmp", exist_ok=True)
    rf = os.path.join(C.BUILD, "tmp", "c20_%s_%d.req" % (label, os.getpid()))
    data = "\n".join(reqs) + "\n"
    open(rf, "w").write(data)
    rc1, impl, err1 = C.sh2([hbin, "run", rf], timeout=900)
    rc2, model, err2 = C.sh2([drv], stdin=data, timeout=900)
    os.unlink(rf)
    il = impl.splitlines()
    ml = model.splitlines()
    if rc1 != 0 or rc2 != 0 or len(il) != len(reqs) or len(ml) != len(reqs):
        ctx.finding("corr:stream", dict(kind="correspondence", detail="response streams incomplete",
                                        rc_impl=rc1, rc_model=rc2, n_req=len(reqs), n_impl=len(il),
                                        n_model=len(ml), stderr=(err1 + err2)[-2000:]),
                    "harness or driver did not answer every request", no_input=True)
        return

    def fail(key, request, why):
        stats["oracle_failures"] += 1
        ctx.finding(key, dict(kind="oracle", request=request, why=why,
                              text=unhex(request.split(" ")[1]).decode("utf-8", "replace"),
                              how_to_replay="./check C20 --replay <this file>  (or: echo '<request>' | "
                                            ".build/harness-target/debug/h_c20 run)"),
                    "implementation fails the property on `%s`: %s" % (request[:160], why))

    blocks = {}
    order = []
    hist = stats["hist"]
    for i, req in enumerate(reqs):
        stats["evaluations"] += 1
        p = req.split(" ")
        hist[p[0]] = hist.get(p[0], 0) + 1
        if len(p) < 2:
            continue
        b = blocks.get(p[1])
        if b is None:
            try:
                b = Block(p[1])
                b.tb.decode("utf-8")
            except (ValueError, UnicodeDecodeError):
                b = None
            if b is None:
                continue
            b.nontrivial, b.feat = text_features(b.tb)
            blocks[p[1]] = b
            order.append(b)
            if p[1] not in stats["texts"]:
                stats["texts"].add(p[1])
                for f in b.feat:
                    hist[f] = hist.get(f, 0) + 1
        if b.nontrivial:
            stats["distinct"].add(req)
        if il[i].startswith("!panic"):
            hist["panic_answers"] = hist.get("panic_answers", 0) + 1
        if il[i] != ml[i]:
            stats["disagreements"] += 1
            ctx.finding("corr:%s" % p[0],
                        dict(kind="correspondence", request=req, impl=il[i], model=ml[i],
                             text=b.tb.decode("utf-8", "replace"),
                             how_to_replay="./check C20 --replay <this file>"),
                        "model and implementation disagree on `%s`: impl=%s model=%s"
                        % (req[:160], il[i][:80], ml[i][:80]), no_input=True)
        try:
            if p[0] == "starts":
                b.starts = il[i]
            elif p[0] == "o2p":
                b.o2p[int(p[2])] = il[i]
            elif p[0] == "p2o":
                b.p2o[(int(p[2]), int(p[3]))] = il[i]
            elif p[0] == "s2r":
                b.s2r.append((int(p[2]), int(p[3]), il[i]))
            elif p[0] == "lc":
                b.lc[int(p[2])] = il[i]
        except (ValueError, IndexError):
            pass
        if len(stats["samples"]) < 6 and b.nontrivial and i % 7919 == 11:
            stats["samples"].append(dict(request=req, impl=il[i], model=ml[i]))
    for b in order:
        oracle_block(b, stats, fail)
        # compute_line_column vs the editor conversion (same line, byte column) on boundaries
        if b.starts and not b.starts.startswith("!"):
            xs = [int(x) for x in b.starts.split(",")]
            for off, r in b.lc.items():
                if r.startswith("!"):
                    fail("oracle:lc-panic", "lc %s %d" % (b.hex, off), "compute_line_column panicked: " + r)
                    continue
                o = b.o2p.get(off)
                if o and not o.startswith("!"):
                    l1 = int(r.split(" ")[0])
                    c1 = int(r.split(" ")[1])
                    l0 = int(o.split(" ")[0])
                    if l1 != l0 + 1 or l0 >= len(xs) or off - xs[l0] + 1 != c1:
                        fail("oracle:lc", "lc %s %d" % (b.hex, off),
                             "compute_line_column %s disagrees with editor position %s" % (r, o))
            for (l, c) in b.p2o:
                k = classify_position(b, l, c, xs)
                hist[k] = hist.get(k, 0) + 1


def chunks(lines):
    """split a request list into chunks that never separate the requests of one text
    (a text's block starts with its `starts` request)"""
    cur = []
    for l in lines:
        if len(cur) >= CHUNK and l.startswith("starts "):
            yield cur
            cur = []
        cur.append(l)
    if cur:
        yield cur


# ----------------------------------------------------------------------------- LSP leg

class Lsp:
    def __init__(self, binary, logpath):
        self.logpath = logpath
        self.log = open(logpath, "wb")
        env = dict(os.environ)
        env["RUST_BACKTRACE"] = "1"      # the panic key is the innermost dora_* frame, not a line number
        self.p = subprocess.Popen([binary], stdin=subprocess.PIPE, stdout=subprocess.PIPE, stderr=self.log, env=env)
        self.q = queue.Queue()
        self.t = threading.Thread(target=self._reader, daemon=True)
        self.t.start()
        self.next_id = 1

    def _reader(self):
        f = self.p.stdout
        try:
            while True:
                n = None
                while True:
                    line = f.readline()
                    if not line:
                        self.q.put(None)
                        return
                    line = line.strip()
                    if not line:
                        break
                    if line.lower().startswith(b"content-length:"):
                        n = int(line.split(b":")[1])
                if n is None:
                    continue
                body = f.read(n)
                self.q.put(json.loads(body.decode("utf-8")))
        except Exception:
            self.q.put(None)

    def send(self, obj):
        body = json.dumps(obj).encode("utf-8")
        self.p.stdin.write(b"Content-Length: %d\r\n\r\n" % len(body) + body)
        self.p.stdin.flush()

    def request(self, method, params, timeout):
        """send a request, wait for its response. Returns ("ok", msg) | ("timeout"|"closed"|"panic", None).
        "panic": the server's stderr showed a new `panicked at` after the request was sent and no answer
        followed within a grace period (the analysis runs on a pool thread; its panic loses the response)."""
        i = self.next_id
        self.next_id += 1
        self.log.flush()
        mark = os.path.getsize(self.logpath)
        self.send(dict(jsonrpc="2.0", id=i, method=method, params=params))
        end = time.time() + timeout
        panic_seen = None
        while True:
            now = time.time()
            if now >= end:
                return "timeout", None
            if panic_seen is not None:
                # wait for the backtrace to be written completely (or 6 s), then give up on the answer
                with open(self.logpath, "rb") as f:
                    f.seek(mark)
                    tail = f.read()
                if (b"RUST_BACKTRACE=full" in tail and now - panic_seen > 0.3) or now - panic_seen > 6:
                    return "panic", None
            try:
                m = self.q.get(timeout=0.05)
            except queue.Empty:
                if panic_seen is None and os.path.getsize(self.logpath) > mark:
                    with open(self.logpath, "rb") as f:
                        f.seek(mark)
                        if b"panicked at" in f.read():
                            panic_seen = time.time()
                continue
            if m is None:
                return "closed", None
            if m.get("id") == i and "method" not in m:
                return "ok", m
            # notifications from the server are dropped

    def notify(self, method, params):
        self.send(dict(jsonrpc="2.0", method=method, params=params))

    def alive(self):
        return self.p.poll() is None

    def close(self):
        try:
            if self.alive():
                self.request("shutdown", None, 3)
                self.notify("exit", None)
                self.p.wait(timeout=3)
        except Exception:
            pass
        try:
            self.p.kill()
        except Exception:
            pass
        self.log.close()


def py_line_table(text):
    """python-side document geometry, independent of the Rust code: list of (utf16 units of the line incl.
    its terminator); lines end at \\n, \\r\\n or a lone \\r (LSP 3.17 default)."""
    lines = []
    cur = 0
    i = 0
    while i < len(text):
        ch = text[i]
        w = 2 if ord(ch) >= 0x10000 else 1
        if ch == "\r" and i + 1 < len(text) and text[i + 1] == "\n":
            lines.append(cur + 2)
            cur = 0
            i += 2
            continue
        if ch in "\r\n":
            lines.append(cur + 1)
            cur = 0
            i += 1
            continue
        cur += w
        i += 1
    lines.append(cur)
    return lines


def pos_in_doc(pos, table):
    l, c = pos["line"], pos["character"]
    return 0 <= l < len(table) and 0 <= c <= table[l]


def pos_key(pos):
    return (pos["line"], pos["character"])


KIND_NAMES = {2: "Module", 5: "Class", 6: "Method", 8: "Field", 10: "Enum", 11: "Interface", 12: "Function",
              13: "Variable", 14: "Constant", 22: "EnumMember", 23: "Struct", 26: "TypeParameter"}


def kind_name(s):
    k = s.get("kind")
    return KIND_NAMES.get(k, "kind%s" % k)


def check_symbols(syms, table, parent, errs, counts, path="$"):
    """errs gets (key, text) pairs; the key names the rule and the symbol kinds involved"""
    for k, s in enumerate(syms or []):
        here = "%s[%d:%s]" % (path, k, s.get("name"))
        counts["symbols"] += 1
        r, sel = s["range"], s["selectionRange"]
        for nm, rg in (("range", r), ("selectionRange", sel)):
            if not (pos_in_doc(rg["start"], table) and pos_in_doc(rg["end"], table)):
                errs.append(("oracle:lsp-outside-document:%s" % kind_name(s),
                             "%s: %s %s not inside the document" % (here, nm, rg)))
            if pos_key(rg["start"]) > pos_key(rg["end"]):
                errs.append(("oracle:lsp-range-reversed:%s" % kind_name(s),
                             "%s: %s %s starts after its end" % (here, nm, rg)))
        if not (pos_key(r["start"]) <= pos_key(sel["start"]) and pos_key(sel["end"]) <= pos_key(r["end"])):
            errs.append(("oracle:lsp-selection-outside-range:%s" % kind_name(s),
                         "%s: selectionRange %s not inside range %s" % (here, sel, r)))
        if parent is not None:
            counts["children"] += 1
            pr = parent["range"]
            if not (pos_key(pr["start"]) <= pos_key(r["start"]) and pos_key(r["end"]) <= pos_key(pr["end"])):
                errs.append(("oracle:lsp-child-outside-parent:%s/%s" % (kind_name(parent), kind_name(s)),
                             "%s: child range %s not inside parent range %s" % (here, r, pr)))
        check_symbols(s.get("children"), table, s, errs, counts, here)


DORA_SNIPPETS = [
    "fn main() {@  let x = 1;@  println(\"😀\");@}@",
    "// 𝔘nicode comment 世界@class Foo {@  a: Int64,@  b: String@}@",
    "struct Bar { x: Int32, y: Int32 }@",
    "enum E {@  A,@  B(Int64),@  C(Bool, Bool)@}@",
    "trait T {@  fn f(): Int64;@  fn g(x: Int64) {@  }@}@",
    "impl T for Foo {@  fn f(): Int64 { 1 }@  fn g(x: Int64) {}@}@",
    "impl Foo {@  fn new(): Foo { Foo(a = 1, b = \"é\") }@  static fn s() {}@}@",
    "mod inner {@  fn nested() {}@  class C { f: Int64 }@  mod deeper { fn leaf() {} const K: Int64 = 3; }@}@",
    "const PI: Float64 = 3.14;@let mut g: Int64 = 0;@",
    "type Alias = Int64;@use std::string::String;@",
    "/* 😀😀 */ fn after_comment() {}@",
    "fn s(): String { \"𝔘\\n😀\" }@",
    "@@@",
    "fn t[T](x: T): T { x }@class Gen[T] { v: T }@",
    "extern { fn ext(x: Int32): Int32; }@",
    "fn 世界() {}@",
]
GARBAGE = ["fn", "class X {", "}", "{", "(", "\"unterminated 😀", "/* open", "impl", "mod m {", "trait", "enum E {",
           "fn f(", "😀", "𝔘", " ", "\t", "struct S(", ":", "::", "let", "@", "fn h() { x. }", "fn k() { let x = t.0.1; }",
           "fn m() { a.b.(c) }", "[", "]", ",", "=", "match x {", "=>", "|", "..", "for", "while", "if", "else", "return",
           "enum V { A { x: Int32 }, B(Int64) }", "type Alias = Int64;"]


def lsp_documents(rng, n):
    docs = []
    nl_styles = ["\n", "\r\n", "\r"]
    for i in range(n):
        kind = i % 5
        k = rng.randint(1, 6)
        if kind == 4:
            parts = [rng.choice(GARBAGE + DORA_SNIPPETS) for _ in range(rng.randint(1, 10))]
            src = " ".join(parts)
        else:
            src = "".join(rng.choice(DORA_SNIPPETS) for _ in range(k))
        if kind == 0:
            src = src.replace("@", "\n")
        elif kind == 1:
            src = src.replace("@", "\r\n")
        elif kind == 2:
            src = src.replace("@", "\r")
        else:
            src = "".join(rng.choice(nl_styles) if ch == "@" else ch for ch in src)
        if kind == 3 and src and rng.random() < 0.5:
            src = src[:rng.randint(0, len(src))]          # truncated: no trailing newline, open constructs
        docs.append(src)
    # real files of the repository: line endings rewritten, and the C06 mutant families (truncation,
    # deletion of a short stretch) — "the document-analysis entry points never panic on any text"
    real = []
    for d in ("pkgs/std", "test/rt", "test/sema", "test/parse", "test/fmt"):
        for root, dirs, files in os.walk(os.path.join(C.REPO, d)):
            dirs.sort()
            for f in sorted(files):
                if f.endswith(".dora"):
                    real.append(os.path.join(root, f))
    rng.shuffle(real)
    texts = []
    for f in real:
        if len(texts) >= max(4, n // 6):
            break
        try:
            t = open(f, encoding="utf-8").read()
        except (OSError, UnicodeDecodeError):
            continue
        if 0 < len(t) <= 20000:
            texts.append(t)
    for t in texts:
        nl = rng.choice(nl_styles)
        docs.append(t.replace("\n", nl))
        for _ in range(2):
            k = rng.randint(0, len(t))
            docs.append(t[:k].replace("\n", nl))
            a = rng.randint(0, len(t))
            docs.append((t[:a] + t[a + rng.randint(1, 12):]).replace("\n", rng.choice(nl_styles)))
    return docs


def find_lsp_binary(ctx):
    """the language server built from /repo's working tree (cargo decides what is stale), or None.
    Shares the target dir of common.toolchain()."""
    tgt = os.path.join(C.BUILD, "repo-target")
    # cargo's own lock on the target dir serialises this with common.toolchain()'s cargo build; the
    # "toolchain" FLock is not taken (it is held for minutes during a bootstrap, which does not touch cargo)
    rc, out = C.sh(["cargo", "build", "--offline", "-p", "dora-language-server"], cwd=C.REPO,
                   env={"CARGO_TARGET_DIR": tgt}, timeout=1500)
    p = os.path.join(tgt, "debug", "dora-language-server")
    if rc == 0 and os.path.exists(p):
        return p, ""
    return None, "language server could not be built: %s" % out[-300:]


def lsp_leg(ctx, stats, docs=None):
    res = dict(ran=False, documents=0, answered=0, symbols=0, children=0, failures=0, note="")
    binary, note = find_lsp_binary(ctx)
    if binary is None:
        res["note"] = "skipped: " + note
        return res
    rng = ctx.rng()
    if docs is None:
        docs = []
        cdir = os.path.join(C.VERIF, "corpus", "C20", "lsp")
        if os.path.isdir(cdir):
            for f in sorted(os.listdir(cdir)):
                if f.endswith(".dora"):
                    docs.append(open(os.path.join(cdir, f), encoding="utf-8", newline="").read())
        res["corpus_documents"] = len(docs)
        docs += lsp_documents(rng, 60 if ctx.tier == "quick" else 2000)
    work = os.path.join(C.BUILD, "tmp", "c20_lsp_%d" % os.getpid())
    shutil.rmtree(work, ignore_errors=True)
    os.makedirs(work)
    logp = os.path.join(work, "server.stderr")
    srv = None
    try:
        srv = Lsp(binary, logp)
        st, m = srv.request("initialize", dict(processId=None, rootUri=None, capabilities={}), 20)
        if st != "ok":
            res["note"] = "skipped: server did not answer initialize (%s)" % st
            return res
        srv.notify("initialized", {})
        res["ran"] = True
        counts = dict(symbols=0, children=0)
        for i, text in enumerate(docs):
            path = os.path.join(work, "doc%d.dora" % i)
            with open(path, "w", encoding="utf-8", newline="") as f:
                f.write(text)
            uri = "file://" + path
            res["documents"] += 1
            replay = dict(kind="oracle", leg="lsp", text=text, text_hex=text.encode("utf-8").hex(),
                          how_to_replay="./check C20 --replay <this file>  (opens `text` in the real "
                                        "dora-language-server and asks for textDocument/documentSymbol)")
            if not srv.alive():
                stats["oracle_failures"] += 1
                res["failures"] += 1
                ctx.finding("oracle:lsp-server-died", replay, "language server exited before document %d" % i)
                break
            srv.notify("textDocument/didOpen", dict(textDocument=dict(uri=uri, languageId="dora", version=1, text=text)))
            st, m = srv.request("textDocument/documentSymbol", dict(textDocument=dict(uri=uri)), 20)
            if st != "ok":
                # no answer: the analysis runs on a pool thread; a panic there loses the response
                srv.log.flush()
                err = open(logp, "rb").read().decode("utf-8", "replace")
                last = err[err.rfind("panicked at"):] if "panicked at" in err else ""
                sites = re.findall(r"panicked at ([^\s:]+:\d+)", last)
                where = sites[-1] if sites else "no-panic-message"
                # key: innermost frame of a dora crate (stable when hook commits shift line numbers)
                frames = re.findall(r"^\s+\d+: (dora_[^\n]*)$", last, re.M)
                site = re.sub(r"\s+", "", frames[0]) if frames else where
                msg = re.findall(r"panicked at [^\n]*\n([^\n]*)", last)
                stats["oracle_failures"] += 1
                res["failures"] += 1
                replay["stderr_tail"] = err[-1500:]
                ctx.finding("oracle:lsp-panic:%s" % site, replay,
                            "documentSymbol got no answer (%s) for a document; panic in %s at %s: %s"
                            % (st, site, where, (msg[-1] if msg else "")[:200]))
                if st == "closed" or not srv.alive():
                    break
                srv.notify("textDocument/didClose", dict(textDocument=dict(uri=uri)))
                continue
            res["answered"] += 1
            if "error" in m:
                stats["oracle_failures"] += 1
                res["failures"] += 1
                ctx.finding("oracle:lsp-error", replay, "documentSymbol answered with an error: %s" % str(m["error"])[:200])
            else:
                errs = []
                check_symbols(m.get("result") or [], py_line_table(text), None, errs, counts)
                seen_keys = set()
                for key, why in errs:
                    if key in seen_keys:
                        continue
                    seen_keys.add(key)
                    stats["oracle_failures"] += 1
                    res["failures"] += 1
                    rp = dict(replay)
                    rp["errors"] = [w for k2, w in errs if k2 == key][:20]
                    ctx.finding(key, rp, "document symbols violate the range rules: " + why)
                if len(res.setdefault("samples", [])) < 2 and m.get("result"):
                    s0 = m["result"][0]
                    res["samples"].append(dict(text=text[:80], first_symbol=dict(name=s0.get("name"), range=s0.get("range"),
                                                                                  selectionRange=s0.get("selectionRange"))))
            srv.notify("textDocument/didClose", dict(textDocument=dict(uri=uri)))
        res["symbols"] = counts["symbols"]
        res["children"] = counts["children"]
        if res["ran"] and not srv.alive():
            stats["oracle_failures"] += 1
            res["failures"] += 1
            ctx.finding("oracle:lsp-server-died", dict(kind="oracle", leg="lsp"), "language server not alive after the run")
    finally:
        if srv is not None:
            srv.close()
        shutil.rmtree(work, ignore_errors=True)
    return res


# ----------------------------------------------------------------------------- main

def run(ctx):
    phase = {}
    t = time.time()
    po = C.proof_obligations(ctx, PROP_MODULE, PROP_FILE, hygiene_paths=("DoraModel/Position", PROP_FILE))
    phase["proof_build_and_audit"] = round(time.time() - t, 1)
    t = time.time()
    drv, dlog = C.lean_exe("drv_c20")
    phase["driver_build"] = round(time.time() - t, 1)
    t = time.time()
    hbin, hlog = C.build_harness("h_c20")
    for _ in range(4):
        # another property's crate being created in the shared workspace breaks `cargo build` for a moment
        if hbin is None and "failed to load manifest for workspace member" in hlog and "crates/c20" not in hlog:
            time.sleep(15)
            hbin, hlog = C.build_harness("h_c20")
    phase["harness_build"] = round(time.time() - t, 1)
    if hbin is None:
        ctx.finding("corr:build", dict(kind="correspondence", log=hlog[-3000:]),
                    "harness does not build against /repo (API of position.rs / dora-parser changed?)", no_input=True)
    if drv is None:
        raise RuntimeError("driver build failed:\n" + dlog[-3000:])
    stats = dict(evaluations=0, distinct=set(), texts=set(), samples=[], hist={}, disagreements=0, oracle_failures=0)
    lsp = dict(ran=False, note="not run")
    if ctx.replay:
        r = json.load(open(ctx.replay))
        if r.get("leg") == "lsp":
            lsp = lsp_leg(ctx, stats, docs=[r["text"]])
        elif hbin:
            reqs = [r["request"]] if "request" in r else list(r.get("requests", []))
            # the oracle needs the whole block of the text: regenerate it around the recorded request
            extra = []
            for q in reqs:
                p = q.split(" ")
                if len(p) >= 2:
                    n = len(unhex(p[1]))
                    extra.append("starts " + p[1])
                    extra += ["o2p %s %d" % (p[1], o) for o in range(n + 3)]
                    extra += ["p2o %s %d %d" % (p[1], l, c) for l in range(n + 3) for c in range(n + 3)]
            run_requests(ctx, hbin, drv, extra + reqs, "replay", stats)
    elif hbin:
        cdir = os.path.join(C.VERIF, "corpus", "C20")
        if os.path.isdir(cdir):
            for f in sorted(os.listdir(cdir)):
                if f.endswith(".req"):
                    reqs = [l.strip() for l in open(os.path.join(cdir, f)) if l.strip() and not l.startswith("#")]
                    if reqs:
                        run_requests(ctx, hbin, drv, reqs, "corpus", stats)
        n, depth = (800, 3) if ctx.tier == "quick" else (30000, 4)
        rc, gen, err = C.sh2([hbin, "gen", str(n), str(depth)], env={"VERIF_SEED": str(ctx.seed)}, timeout=900)
        if rc != 0:
            raise RuntimeError("h_c20 gen failed: " + err[-1000:])
        t = time.time()
        for k, ch in enumerate(chunks([l for l in gen.splitlines() if l])):
            run_requests(ctx, hbin, drv, ch, "gen%d" % k, stats)
        del gen
        phase["correspondence_and_oracle"] = round(time.time() - t, 1)
        t = time.time()
        lsp = lsp_leg(ctx, stats)
        phase["lsp_leg_incl_server_build"] = round(time.time() - t, 1)
        if not lsp["ran"]:
            ctx.notes.append("LSP leg " + lsp["note"])
    if not po["build_ok"] or po["failed"]:
        found_input = stats["disagreements"] > 0 or stats["oracle_failures"] > 0
        ctx.finding("proof:C20", dict(kind="proof", failed=po["failed"], log=po.get("build_log_tail", ""),
                                      theorem_file=PROP_FILE),
                    "property theorems of C20 no longer check: %s" % "; ".join(po["failed"])[:400],
                    no_input=not found_input)
    cov = dict(obligations=po["obligations"], discharged=po["discharged"], checker_cmd=po["checker_cmd"],
               trusted_base=po["trusted_base"] + [
                   "hand-written model DoraModel/Position/Model.lean (position.rs, compute_line_starts, "
                   "compute_line_column) tied by the correspondence run below",
                   "Rust std contracts used as given: slice::binary_search on a strictly increasing slice "
                   "(modelled by a linear scan), str slicing panics exactly off char boundaries / out of range, "
                   "char::len_utf8 / len_utf16, str::encode_utf16",
                   "harness h_c20 (position.rs compiled in by #[path]), driver drv_c20, checks/c20.py"],
               theorems=po["theorems"],
               evaluations=stats["evaluations"], distinct_nontrivial=len(stats["distinct"]),
               distinct_texts=len(stats["texts"]),
               rule="requests from `h_c20 gen` (seeded): fixed texts, EVERY concatenation of <= depth pieces of "
                    "{a, é, 世, 😀, 𝔘, LF, CR, CRLF, space, U+2028, tab} (quick: depth 3, thorough: depth 4) and random "
                    "concatenations of 3..23 pieces; per text: line starts, o2p and compute_line_column at every byte "
                    "offset 0..len+2 (all char boundaries, all offsets inside characters, past the end), p2o on the "
                    "grid lines 0..#lines+1 x columns 0..longest line+2 plus u32::MAX lines/columns, a few spans. "
                    "non-trivial = distinct request whose text has >= 1 multi-byte character or >= 2 line-ending styles",
               histogram=stats["hist"], samples=stats["samples"] or [dict(note="no sample")],
               disagreements=stats["disagreements"], oracle_failures=stats["oracle_failures"],
               lsp=lsp, phase_wall_s=phase, leanchecker_rc=po.get("leanchecker_rc"))
    ctx.write_evidence("proof", cov, assumptions=[
        "texts are shorter than 2^32 bytes: the model computes in Nat, the Rust code in u32/usize (casts are "
        "identities and additions do not overflow below that size)",
        "the model is hand-written; agreement with position.rs / dora-parser is checked on the generated requests only",
        "that a symbol's name span and its children's spans lie inside the element's span is a fact about the "
        "parser's tree (C16) and the per-kind name lookup; here it is only observed through the LSP leg",
        "the LSP leg exercises textDocument/documentSymbol only (workspace/symbol needs a compiled project)"])
