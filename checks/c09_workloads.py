"""C09, workload leg: generated multi-threaded Dora programs (gen/c09_workloads.py) are compiled with both
code generators and run under several collector configurations; every program prints one `RESULT ...` line
whose value is the same in every legal interleaving, so standard output must equal the computed text.

    run_workloads(ctx, tier, deadline_s) -> dict(programs, runs, ok, failures, histogram, samples, skipped,
                                                 wall_s, flaky_timeouts, unresolved_timeouts, ...)

Failure keys (the caller reports them through ctx.finding; nothing is reported here):
    oracle:workload:wrong-result:<family>:<backend>   exit status 0 but another standard output
    oracle:workload:crash:<family>:<backend>          signal / Rust panic / exit status != 0
    oracle:workload:timeout:<family>:<backend>        three time-outs of the same executable, the last two alone
    corr:workload:compile:<family>:<backend>          the generated program did not compile (generator defect;
                                                      the failure dict carries no_input=True)
<backend> is `cannon`, `boots`, or `boots-gc-copy` / `boots-gc-sweep` (collector chosen at compile time).

The tool chain is the shared one of common.toolchain(), snapshotted to /verif/.build/c09tc/<tree hash>
(see checks/c01.py for why).  Executables (38 MB each) live in /verif/.build/tmp/c09w_<pid>/ and are deleted
right after their runs; the directory is removed at the end.
"""
import concurrent.futures as cf
import os
import re
import shutil
import signal
import subprocess
import sys
import threading
import time

from . import common as C

sys.path.insert(0, os.path.join(C.VERIF, "gen"))
import c09_workloads as W  # noqa: E402

WORKERS = 8
N_PROGRAMS = {"quick": 12, "thorough": 80}
RUN_TIMEOUT = {"quick": 60, "thorough": 120}
COMPILE_TIMEOUT = 600
MAX_KEPT_EXES = 16           # executables kept for the time-out re-runs; beyond that they are compiled again
MAX_LATE_RETRIES = 2         # executables whose time-out re-runs may still start after the deadline
MAX_FAILURES = 60


# A collection costs time proportional to the young generation (57.6 MB by default: 15 ms per collection on an
# idle machine, 0.5 - 2 s when the machine is busy in the kernel), the programs here need a few KB.  With a
# 1 MB young generation `--gc-stress` (a full collection at every allocation; every `mtx.lock(|| ...)`
# allocates its lambda) costs 0.1 - 1 s per program instead of 5 - 100 s, and the programs that allocate
# garbage also get collections of their own accord while threads are queued.
SMALL = "--gc-young-size=1M --max-heap-size=16M"
STRESS_SMALL = "--gc-stress " + SMALL
STRESS_MINOR_SMALL = "--gc-stress-minor " + SMALL
STRESS_WORKER2_SMALL = "--gc-worker 2 --gc-stress " + SMALL
STRESS_OTHER = "--gc-stress --max-heap-size=8M"


def builds_for(tier, index=0):
    """[(backend label, compile flags, [DORA_FLAGS values])] for program number `index`.
    Non-default collectors only with the optimizing back end: the baseline one aborts in the write-barrier
    slow path with them (`not implemented`, gc.rs to_swiper) - a defect that belongs to C03.
    `--gc-stress` with the default heap size is not used: on a busy machine a program with 120 lock operations
    (about 500 allocations) did not finish within 120 s in three runs, burning processor time all the while -
    slowness, not a hang; the same program passes with the 1 MB young generation."""
    if tier == "thorough":
        full = ["", STRESS_SMALL, STRESS_MINOR_SMALL, "--gc-worker 2", STRESS_WORKER2_SMALL]
        return [("cannon", ["--cannon"], full),
                ("boots", [], full),
                ("boots-gc-copy", ["--gc=copy"], ["", STRESS_OTHER]),
                ("boots-gc-sweep", ["--gc=sweep"], ["", STRESS_OTHER])]
    return [("cannon", ["--cannon"], ["", STRESS_SMALL]),
            ("boots", [], ["", STRESS_SMALL])]


# --------------------------------------------------------------------------------------------- tool chain

def toolchain():
    """common.toolchain() snapshotted into /verif/.build/c09tc/<hash> (binaries, stripped runtime archives and
    a frozen copy of pkgs/), so that concurrent tool-chain builds of other tree states cannot pull the
    compiler away while the workers use it."""
    root = os.path.join(C.BUILD, "c09tc")
    for attempt in range(8):
        try:
            tc = C.toolchain(need_boots=True)
        except (OSError, RuntimeError) as ex:
            C.log("c09 workloads: tool chain build attempt %d failed (%s); retrying" % (attempt, str(ex)[:120]))
            time.sleep(20)
            continue
        snap = os.path.join(root, tc["hash"])
        if os.path.exists(os.path.join(snap, "ok")):
            os.utime(snap, None)
            break
        with C.FLock("toolchain"):
            if not os.path.exists(tc["boots"]):
                continue                    # removed by a concurrent build of another tree state; build again
            if os.path.exists(os.path.join(snap, "ok")):
                break
            if os.path.isdir(root):
                for o in os.listdir(root):
                    p = os.path.join(root, o)
                    if o != tc["hash"] and time.time() - os.path.getmtime(p) > 7200:
                        shutil.rmtree(p, ignore_errors=True)
            tmp = snap + ".tmp%d" % os.getpid()
            shutil.rmtree(tmp, ignore_errors=True)
            os.makedirs(os.path.join(tmp, "bin"))
            for f in ("dora", "dora-cannon-compiler", "dora-boots-compiler", "libdora_runtime.a", "libdora_startup.a"):
                shutil.copy2(os.path.join(os.path.dirname(tc["dora"]), f), os.path.join(tmp, "bin", f))
            # the debug archives carry ~120 MB of DWARF that every link would copy; drop it (code unchanged)
            C.sh(["strip", "-g", os.path.join(tmp, "bin", "libdora_runtime.a"), os.path.join(tmp, "bin", "libdora_startup.a")])
            shutil.copytree(os.path.join(C.REPO, "pkgs"), os.path.join(tmp, "pkgs"))
            open(os.path.join(tmp, "ok"), "w").write(tc["hash"])
            if os.path.exists(snap):
                shutil.rmtree(tmp, ignore_errors=True)
            else:
                os.rename(tmp, snap)
        break
    else:
        raise RuntimeError("tool chain keeps disappearing (concurrent builds of other tree states)")
    return dict(tc, dir=snap, dora=os.path.join(snap, "bin", "dora"),
                cannon=os.path.join(snap, "bin", "dora-cannon-compiler"),
                boots=os.path.join(snap, "bin", "dora-boots-compiler"))


# --------------------------------------------------------------------------------------------- one run

def _proc_cpu_s(pid):
    """user+system seconds used so far by a process (all threads), or None"""
    try:
        parts = open("/proc/%d/stat" % pid).read().rsplit(")", 1)[1].split()
        return (int(parts[11]) + int(parts[12])) / float(os.sysconf("SC_CLK_TCK"))
    except Exception:
        return None


def run_exe(exe, flags, timeout, cwd):
    """-> dict(rc=int | 'timeout', stdout, stderr, wall_s, cpu_s)"""
    env = dict(os.environ)
    env.pop("DORA_FLAGS", None)
    if flags:
        env["DORA_FLAGS"] = flags
    t0 = time.time()
    p = subprocess.Popen([exe], stdout=subprocess.PIPE, stderr=subprocess.PIPE, stdin=subprocess.DEVNULL,
                         env=env, cwd=cwd, start_new_session=True)
    cpu = None
    try:
        so, se = p.communicate(timeout=timeout)
        rc = p.returncode
    except subprocess.TimeoutExpired:
        cpu = _proc_cpu_s(p.pid)
        try:
            os.killpg(p.pid, signal.SIGKILL)
        except OSError:
            p.kill()
        so, se = p.communicate()
        rc = "timeout"
    return dict(rc=rc, stdout=so.decode("utf-8", "replace"), stderr=se.decode("utf-8", "replace")[-3000:],
                wall_s=round(time.time() - t0, 2), cpu_s=cpu)


def classify(obs, expected):
    """'ok' | 'wrong-result' | 'crash' | 'timeout'"""
    rc = obs["rc"]
    if rc == "timeout":
        return "timeout"
    if rc != 0 or "panicked at" in obs["stderr"]:
        return "crash"
    if obs["stdout"] != expected:
        return "wrong-result"
    return "ok"


def crash_what(obs):
    rc = obs["rc"]
    if isinstance(rc, int) and rc < 0:
        try:
            return "signal " + signal.Signals(-rc).name
        except ValueError:
            return "signal %d" % -rc
    m = re.search(r"panicked at ([^\n]*)", obs["stderr"])
    if m:
        return "Rust panic at " + m.group(1)[:120]
    first = (obs["stderr"].strip().splitlines() or [""])[0]
    return "exit status %s (%s)" % (rc, first[:160])


# --------------------------------------------------------------------------------------------- the leg

def run_workloads(ctx, tier, deadline_s):
    t_start = time.time()
    seed = str(ctx.seed)
    n_prog = N_PROGRAMS.get(tier, N_PROGRAMS["quick"])
    timeout = RUN_TIMEOUT.get(tier, 60)
    tc = toolchain()
    work = os.path.join(C.BUILD, "tmp", "c09w_%d" % os.getpid())
    shutil.rmtree(work, ignore_errors=True)
    os.makedirs(work)
    programs = W.generate_many(seed, n_prog)

    lock = threading.Lock()
    st = dict(runs=0, ok=0, skipped=0, flaky_timeouts=0, unresolved_timeouts=0, compiled=0, compile_timeouts=0,
              failures_dropped=0)
    failures = []
    histogram = {}
    samples = []
    pending = []          # timed-out runs to repeat alone: dicts
    kept = [0]
    compile_times = []
    run_times = {}        # flags -> [wall]
    flaky = []

    def replay_of(prog, label, cflags, flags, obs):
        i, src, exp, fam, params = prog
        d = dict(source=src, family=fam, params=params, index=i, seed=seed, backend=label,
                 compile_flags=cflags, flags=flags, expected=exp,
                 how="dora compile %s prog.dora -o prog && DORA_FLAGS='%s' ./prog" % (" ".join(cflags), flags),
                 toolchain=tc["hash"])
        if obs is not None:
            d.update(observed=obs.get("stdout"), stderr=obs.get("stderr"), rc=obs.get("rc"),
                     wall_s=obs.get("wall_s"), cpu_s=obs.get("cpu_s"))
        return d

    def add_failure(f):
        with lock:
            if len(failures) < MAX_FAILURES:
                failures.append(f)
            else:
                st["failures_dropped"] += 1

    def record(prog, label, cflags, flags, obs, verdict):
        """account for one finished (not timed-out) run"""
        i, src, exp, fam, params = prog
        with lock:
            st["runs"] += 1
            histogram[fam] = histogram.get(fam, 0) + 1
            run_times.setdefault(flags or "default", []).append(obs["wall_s"])
            if verdict == "ok":
                st["ok"] += 1
                if len(samples) < 3 and fam not in [s["family"] for s in samples]:
                    samples.append(dict(family=fam, params=params, backend=label, flags=flags,
                                        expected=exp.strip(), observed=obs["stdout"].strip()))
        if verdict == "wrong-result":
            add_failure(dict(key="oracle:workload:wrong-result:%s:%s" % (fam, label),
                             replay=replay_of(prog, label, cflags, flags, obs),
                             text="%s program %d (%s, DORA_FLAGS='%s') printed %r, every interleaving gives %r"
                                  % (fam, i, label, flags, obs["stdout"][:200], exp)))
        elif verdict == "crash":
            what = crash_what(obs)
            sub = "crash"
            if "not implemented" in obs["stderr"] and "gc.rs" in obs["stderr"]:
                sub = "crash-gc-not-implemented"       # write barrier with a non-generational collector (C03)
            add_failure(dict(key="oracle:workload:%s:%s:%s" % (sub, fam, label),
                             replay=replay_of(prog, label, cflags, flags, obs),
                             text="%s program %d (%s, DORA_FLAGS='%s') ended with %s; stdout %r, expected %r"
                                  % (fam, i, label, flags, what, obs["stdout"][:200], exp)))

    def compile_prog(prog, label, cflags, exe):
        i, src, exp, fam, params = prog
        srcp = os.path.join(work, "p%d.dora" % i)
        if not os.path.exists(srcp):
            tmp = srcp + ".%s.tmp" % label
            open(tmp, "w").write(src)
            os.replace(tmp, srcp)
        t0 = time.time()
        rc, out = C.sh([tc["dora"], "compile"] + cflags + [srcp, "-o", exe], cwd=work, timeout=COMPILE_TIMEOUT)
        with lock:
            compile_times.append(round(time.time() - t0, 2))
        return rc, out

    def task(job):
        prog, (label, cflags, flag_list) = job
        i, src, exp, fam, params = prog
        if time.time() > deadline_s:
            with lock:
                st["skipped"] += len(flag_list)
            return
        exe = os.path.join(work, "p%d_%s" % (i, label))
        rc, out = compile_prog(prog, label, cflags, exe)
        if rc == 124 and not os.path.exists(exe):
            with lock:
                st["compile_timeouts"] += 1
                st["skipped"] += len(flag_list)
            return
        if rc != 0 or not os.path.exists(exe):
            add_failure(dict(key="corr:workload:compile:%s:%s" % (fam, label), no_input=True,
                             replay=dict(replay_of(prog, label, cflags, "", None), compile_rc=rc, compile_log=out[-3000:]),
                             text="generated %s program %d does not compile with %s: %s"
                                  % (fam, i, label, " | ".join(l for l in out.splitlines() if "error" in l)[:300])))
            with lock:
                st["skipped"] += len(flag_list)
            return
        with lock:
            st["compiled"] += 1
        keep = False
        for k, flags in enumerate(flag_list):
            if time.time() > deadline_s:
                with lock:
                    st["skipped"] += len(flag_list) - k
                break
            obs = run_exe(exe, flags, timeout, work)
            verdict = classify(obs, exp)
            if verdict == "timeout":
                with lock:
                    have_exe = kept[0] < MAX_KEPT_EXES
                    if have_exe and not keep:
                        kept[0] += 1
                    pending.append(dict(prog=prog, label=label, cflags=cflags, flags=flags, exe=exe,
                                        have_exe=have_exe, first=obs))
                keep = keep or have_exe
                continue
            record(prog, label, cflags, flags, obs, verdict)
        if not keep:
            try:
                os.unlink(exe)
            except OSError:
                pass

    jobs = [(p, b) for p in programs for b in builds_for(tier, p[0])]
    jobs.sort(key=lambda j: -len(j[1][2]))        # the longest jobs first (stable): shorter tail
    try:
        with cf.ThreadPoolExecutor(max_workers=WORKERS) as ex:
            list(ex.map(task, jobs))

        # a time-out under machine load is not a verdict: the same executable runs again, alone, up to twice
        late = 0
        for pe in pending:
            prog, label, cflags, flags, exe = pe["prog"], pe["label"], pe["cflags"], pe["flags"], pe["exe"]
            i, src, exp, fam, params = prog
            if time.time() > deadline_s:
                late += 1
                if late > MAX_LATE_RETRIES:
                    st["unresolved_timeouts"] += 1
                    continue
            if not os.path.exists(exe):
                rc, out = compile_prog(prog, label, cflags, exe)
                if rc != 0 or not os.path.exists(exe):
                    st["unresolved_timeouts"] += 1
                    continue
            attempts = [pe["first"]]
            verdict = "timeout"
            for _ in range(2):
                obs = run_exe(exe, flags, timeout, work)
                attempts.append(obs)
                verdict = classify(obs, exp)
                if verdict != "timeout":
                    break
            if verdict == "timeout":
                st["runs"] += 1
                histogram[fam] = histogram.get(fam, 0) + 1
                cpus = [a.get("cpu_s") for a in attempts]
                add_failure(dict(key="oracle:workload:timeout:%s:%s" % (fam, label),
                                 replay=dict(replay_of(prog, label, cflags, flags, attempts[-1]), timeout_s=timeout,
                                             cpu_s_at_kill=cpus),
                                 text="%s program %d (%s, DORA_FLAGS='%s') did not end within %d s in 3 runs "
                                      "(2 of them alone; processor seconds used when killed: %s - start-up alone "
                                      "takes about 1 s, so a small number means blocked, a large one spinning); expected %r"
                                      % (fam, i, label, flags, timeout, cpus, exp)))
            else:
                st["flaky_timeouts"] += 1
                flaky.append(dict(family=fam, index=i, backend=label, flags=flags, attempts=len(attempts),
                                  first_cpu_s=pe["first"].get("cpu_s"), then=verdict, wall_s=attempts[-1]["wall_s"]))
                record(prog, label, cflags, flags, attempts[-1], verdict)
        for pe in pending:
            try:
                os.unlink(pe["exe"])
            except OSError:
                pass
    finally:
        shutil.rmtree(work, ignore_errors=True)

    def stats(xs):
        xs = sorted(xs)
        return dict(n=len(xs), median=xs[len(xs) // 2], max=xs[-1]) if xs else dict(n=0)

    return dict(programs=len(programs), runs=st["runs"], ok=st["ok"], failures=failures, histogram=histogram,
                samples=samples, skipped=st["skipped"], wall_s=round(time.time() - t_start, 1),
                flaky_timeouts=st["flaky_timeouts"], flaky=flaky[:10], unresolved_timeouts=st["unresolved_timeouts"],
                compiled=st["compiled"], compile_timeouts=st["compile_timeouts"],
                failures_dropped=st["failures_dropped"],
                configs=[dict(backend=b[0], compile_flags=b[1], dora_flags=b[2]) for b in builds_for(tier, 0)],
                compile_s=stats(compile_times), run_s=dict((k, stats(v)) for k, v in run_times.items()),
                toolchain=tc["hash"], seed=seed, tier=tier, run_timeout_s=timeout)
