"""C12 — Parallel collection phases finish exactly when all work is done.

proof:  lean/DoraModel/Props/C12.lean over the transition system lean/DoraModel/Term/Model.lean
        (any number of workers, every interleaving; one shim operation per step)
tie:    the REAL dora-runtime/src/gc/swiper/terminator.rs is compiled unmodified (harness crate
        c12_realterm: renamed dependency `parking_lot` + `extern crate … as std` in a no_std crate) against the
        scheduling shim harness/crates/sync_shim and run under a deterministic scheduler; every explored
        schedule's event trace must be accepted step by step by the Lean model (drv_c12) and end in the same
        counters as the real objects
oracle: on the real code, per schedule: `try_terminate` returned true while the pool is non-empty or another
        worker still works; deadlock; an assert!/debug_assert! of terminator.rs firing; work or a `false`
        after the first `true`; items processed != items created
marking (last sentence, "every reachable object is processed exactly once"):
proof:  same Props file, namespace Dora.Mark.C12, over lean/DoraModel/Term/Mark.lean (marking.rs statement by statement)
tie:    cfg-gated hook hooks/c12_marklog.patch (dora-runtime/src/gc/swiper/verif_marklog.rs): every marking run of real
        collections (generational collector, 1/2/4/8 marking tasks) logs per task what it popped, traced, won, pushed and
        shared; drv_c12mark (lean/DoraModel/Term/MarkCheck.lean) runs every task's records through the model's own step
        function `stepW` (projection acceptance) and evaluates the theorems' conclusions on the whole run, against the
        pre-collection heap dump of C03's hook.  Skipped (and said so in the evidence) while the hook is not in /repo.
"""
import concurrent.futures as cf
import gzip
import json
import os
import random
import re
import shutil

from . import common as C

PROP_MODULE = "DoraModel.Props.C12"
PROP_FILE = "DoraModel/Props/C12.lean"
TERMINATOR = os.path.join(C.REPO, "dora-runtime/src/gc/swiper/terminator.rs")


MARKING_RS = os.path.join(C.REPO, "dora-runtime/src/gc/swiper/marking.rs")
MARK_HOOK_MARK = "verif_marklog"
MARK_CORPUS = os.path.join(C.VERIF, "corpus", "C12")
MARK_KEYS = ("oracle:processed-twice", "oracle:reachable-not-processed", "oracle:processed-unreachable",
             "oracle:processed-unmarked", "oracle:marked-twice", "corr:marklog")


def marklog_jobs(ctx):
    """(program path, args, DORA_FLAGS, marking tasks).  Allocation-heavy programs with small heaps (the debug runtime is
    slow): the C12 graph workload (object array of nodes with cycles and sharing, forced full collections) with every
    worker count, and C03's corpus programs at their small scale under --gc-stress with a worker count drawn from the seed."""
    rng = random.Random("%s|marklog" % ctx.seed)
    quick = ctx.tier == "quick"
    jobs = []
    for f in sorted(os.listdir(MARK_CORPUS)) if os.path.isdir(MARK_CORPUS) else []:
        if not f.endswith(".dora"):
            continue
        for n in ([600, 2500] if quick else [300, 700, 3000, 12000]):
            for w in (1, 2, 4, 8):
                jobs.append((os.path.join(MARK_CORPUS, f), [str(n + rng.randrange(50))],
                             "--gc-worker=%d --max-heap-size=64M" % w, w))
    c03dir = os.path.join(C.VERIF, "corpus", "C03")
    progs = [f for f in sorted(os.listdir(c03dir)) if f.endswith(".dora") and not f.startswith("min_")
             and not f.startswith("threads")]
    if quick:
        rng.shuffle(progs)
        progs = progs[:3]
    for f in progs:
        path = os.path.join(c03dir, f)
        m = re.search(r"//= c03 .*small=(\d+)", open(path).read())
        small = m.group(1) if m else "3"
        for w in ([rng.choice((2, 4, 8))] if quick else [1, 2, 4, 8]):
            jobs.append((path, [small], "--gc-worker=%d --max-heap-size=8M --gc-young-size=1M --gc-stress" % w, w))
    return jobs


def marklog_verdicts(drv, logfile):
    """-> (rc, [(status line, [finding lines])])"""
    rc, out, err = C.sh2([drv, logfile], timeout=900)
    runs = []
    for line in out.splitlines():
        if line.startswith("ok ") or line.startswith("bad "):
            runs.append((line, []))
        elif line.startswith("finding ") and runs:
            runs[-1][1].append(line[len("finding "):])
        elif line.startswith("parse-error") or line.startswith("incomplete"):
            runs.append((line, []))
    return rc, runs, err


def report_marklog(ctx, ml, head, finds, where, logcopy):
    for fl in finds:
        key, _, text = fl.partition(" ")
        if key not in MARK_KEYS:
            key = "corr:marklog"
        ml["oracle_failures" if key.startswith("oracle:") else "disagreements"] += 1
        ctx.finding(key, dict(kind="marklog", run=head, where=where, log=logcopy,
                              how_to_replay="./check C12 --replay <this file>   (= drv_c12mark <log>; the log of the "
                                            "real run is stored next to this file, a new run of the program interleaves differently)"),
                    "%s  [%s; %s]" % (text, where, head))


def marklog_leg(ctx):
    """Real collections: every logged marking run must be accepted. Returns the evidence dict."""
    tree = os.environ.get("VERIF_C12_HOOK_TREE") or C.REPO
    ml = dict(status="ran", programs=0, runs=0, marking_runs_checked=0, with_heap_dump=0, processed_objects=0,
              traced_fields=0, lost_marks=0, deque_pushes=0, injector_shares=0, runs_with_several_working_tasks=0,
              by_workers={}, disagreements=0, oracle_failures=0, samples=[])
    try:
        present = MARK_HOOK_MARK in open(os.path.join(tree, "dora-runtime/src/gc/swiper/marking.rs")).read()
    except OSError:
        present = False
    if not present:
        ml["status"] = ("skipped: the hook /verif/hooks/c12_marklog.patch is not applied to %s (no `%s` in marking.rs); "
                        "the marking model is then tied to the code only by reading" % (tree, MARK_HOOK_MARK))
        C.log("marklog leg skipped: hook not present in " + tree)
        return ml
    from . import c03
    drv, dlog = C.lean_exe("drv_c12mark")
    if drv is None:
        raise RuntimeError("driver build failed:\n" + dlog[-3000:])
    pre = os.environ.get("VERIF_C12_TC_VERIF")        # testing aid: a prebuilt tool chain dir (bin/dora …) with the hook
    try:
        if pre:
            tcv = dict(dir=pre, dora=os.path.join(pre, "bin", "dora"), hash="x" + c03.src_sha(os.path.join(pre, "bin", "dora")), log="", tree=tree)
        else:
            tc = C.toolchain(need_boots=True)
            tcv = c03.toolchain_verif(tc, tree)
    except RuntimeError as e:
        ctx.finding("corr:build-verif-toolchain", dict(kind="correspondence", log=str(e)[-3000:]),
                    "the tool chain does not build with --cfg %s" % C.GUARD, no_input=True)
        ml["status"] = "failed: tool chain with the hook does not build"
        return ml
    work = os.path.join(C.BUILD, "tmp", "c12_mark_%d" % os.getpid())
    shutil.rmtree(work, ignore_errors=True)
    os.makedirs(work)
    jobs = marklog_jobs(ctx)

    def one(ij):
        i, (path, args, flags, w) = ij
        exe, log = c03.build(tcv, path, "boots", "swiper")
        if exe is None:
            return None, "build failed: " + log[-300:], None
        lf = os.path.join(work, "m%d.log" % i)
        r = c03.run_exe(exe, args, flags, 300, extra_env={"DORA_VERIF_MARKLOG": lf, "DORA_VERIF_HEAPDUMP": lf})
        if not os.path.exists(lf):
            return r, None, None
        rc, runs, err = marklog_verdicts(drv, lf)
        return r, (rc, runs, err), lf

    try:
        with cf.ThreadPoolExecutor(max_workers=int(os.environ.get("VERIF_C12_JOBS", "6"))) as ex:
            results = list(ex.map(one, enumerate(jobs)))
        seen_prog = set()
        for (path, args, flags, w), (r, verdict, lf) in zip(jobs, results):
            where = "%s %s DORA_FLAGS='%s'" % (os.path.relpath(path, C.VERIF), " ".join(args), flags)
            if r is None:
                ctx.notes.append("marklog: %s: %s" % (where, verdict))
                continue
            ml["runs"] += 1
            seen_prog.add(path)
            if r["timeout"] or r["rc"] != 0:
                # a crashing collection is C03's finding; here only say that this run gave no complete log
                ctx.notes.append("marklog: %s ended with rc=%s timeout=%s" % (where, r["rc"], r["timeout"]))
            if verdict is None:
                continue
            rc, runs, err = verdict
            logcopy = None
            for head, finds in runs:
                if head.startswith("ok "):
                    m = dict(kv.split("=") for kv in head.split()[1:])
                    ml["marking_runs_checked"] += 1
                    ml["with_heap_dump"] += int(m["dump"])
                    ml["processed_objects"] += int(m["processed"])
                    ml["traced_fields"] += int(m["traced"])
                    ml["lost_marks"] += int(m["lost"])
                    ml["deque_pushes"] += int(m["dequePushes"])
                    ml["injector_shares"] += int(m["shared"])
                    ml["runs_with_several_working_tasks"] += int(int(m["tasksWithWork"]) > 1)
                    ml["by_workers"][m["workers"]] = ml["by_workers"].get(m["workers"], 0) + 1
                    if len(ml["samples"]) < 4 and int(m["tasksWithWork"]) > 1:
                        ml["samples"].append(dict(request=where, response=head))
                elif head.startswith("bad "):
                    ml["marking_runs_checked"] += 1
                    if logcopy is None:
                        os.makedirs(os.path.join(C.REPLAYS, "C12"), exist_ok=True)
                        logcopy = os.path.join(C.REPLAYS, "C12", "marklog_%s_%d.log.gz" % (ctx.tier, ml["runs"]))
                        with open(lf, "rb") as fi, gzip.open(logcopy, "wb") as fo:
                            shutil.copyfileobj(fi, fo)
                    report_marklog(ctx, ml, head, finds, where, logcopy)
                elif head.startswith("parse-error"):
                    ml["disagreements"] += 1
                    ctx.finding("corr:marklog", dict(kind="marklog", where=where, line=head), "the mark log cannot be parsed: " + head,
                                no_input=True)
                # "incomplete…": the process ended inside a collection; nothing to check
        ml["programs"] = len(seen_prog)
        if ml["runs"] and ml["marking_runs_checked"] == 0:
            ctx.finding("corr:marklog", dict(kind="marklog"), "no marking run was logged although the hook is present", no_input=True)
    finally:
        shutil.rmtree(work, ignore_errors=True)
    return ml


def marklog_replay(ctx, r):
    drv, dlog = C.lean_exe("drv_c12mark")
    ml = dict(disagreements=0, oracle_failures=0)
    tmp = os.path.join(C.BUILD, "tmp", "c12_mark_replay_%d.log" % os.getpid())
    os.makedirs(os.path.dirname(tmp), exist_ok=True)
    with gzip.open(r["log"], "rb") as fi, open(tmp, "wb") as fo:
        shutil.copyfileobj(fi, fo)
    try:
        rc, runs, err = marklog_verdicts(drv, tmp)
        for head, finds in runs:
            if head.startswith("bad "):
                report_marklog(ctx, ml, head, finds, r.get("where", "?"), r["log"])
    finally:
        os.unlink(tmp)
    C.log("replay: %d marking runs in the stored log, %d findings" % (len(runs), ml["disagreements"] + ml["oracle_failures"]))
    return ml


def replay_obj(scenario, spur, choices, **kw):
    d = dict(scenario=scenario, spurious_budget=int(spur), choices=choices,
             how_to_replay="./check C12 --replay <this file>   (= h_c12 replay '%s' %s '%s' | head -1 | drv_c12)"
                           % (scenario, spur, choices))
    d.update(kw)
    return d


def run_model(drv, reqfile):
    with open(reqfile) as f:
        rc, out, err = C.sh2([drv], stdin=f.read(), timeout=3000)
    lines = out.splitlines()
    stats = {}
    if lines and lines[-1].startswith("#stats"):
        for kv in lines[-1].split()[1:]:
            k, v = kv.split("=")
            stats[k] = int(v)
        lines = lines[:-1]
    return rc, lines, stats, err


def one_replay(ctx, hbin, drv, r, st):
    sc, spur, ch = r["scenario"], str(r.get("spurious_budget", 0)), r.get("choices", "-")
    rc, out, err = C.sh2([hbin, "replay", sc, spur, ch], timeout=300)
    lines = out.splitlines()
    if rc != 0 or len(lines) < 3:
        ctx.finding("corr:replay", dict(kind="correspondence", stderr=err[-2000:]), "h_c12 replay failed", no_input=True)
        return
    req, exp = lines[0], lines[1]
    C.log("replay: " + lines[2])
    rc2, model, err2 = C.sh2([drv], stdin=req + "\n", timeout=300)
    ml = model.splitlines()
    st["evaluations"] += 1
    vio = [l for l in lines[3:] if l.startswith("violation ")]
    for v in vio:
        key = v.split(" ")[1]
        st["oracle_failures"] += 1
        ctx.finding(key, replay_obj(sc, spur, ch, kind="oracle", trace=req), v[len("violation "):])
    if not ml or ml[0] != exp:
        st["disagreements"] += 1
        ctx.finding("corr:trace", replay_obj(sc, spur, ch, kind="correspondence", trace=req, impl=exp,
                                             model=ml[0] if ml else "<none>"),
                    "the model does not accept the real Terminator's trace: impl=`%s` model=`%s`"
                    % (exp, (ml[0] if ml else "<none>")[:300]), no_input=not vio)
    else:
        C.log("replay: model agrees: " + exp)


def run(ctx):
    po = C.proof_obligations(ctx, PROP_MODULE, PROP_FILE, hygiene_paths=("DoraModel/Term", PROP_FILE))
    drv, dlog = C.lean_exe("drv_c12")
    hbin, hlog = C.build_harness("h_c12")
    if hbin is None:
        ctx.finding("corr:build", dict(kind="correspondence", log=hlog[-3000:]),
                    "terminator.rs no longer builds against the sync shim (it uses something beyond "
                    "parking_lot::{Mutex,Condvar} and std::sync::atomic, or its API changed)", no_input=True)
    if drv is None:
        raise RuntimeError("driver build failed:\n" + dlog[-3000:])
    st = dict(evaluations=0, disagreements=0, oracle_failures=0)
    summary = {}
    mstats = {}
    accepted = 0
    tmp = os.path.join(C.BUILD, "tmp", "c12_%d" % os.getpid())
    ml = dict(status="not run (replay)")
    rj = json.load(open(ctx.replay)) if ctx.replay else None
    if rj is not None and rj.get("kind") == "marklog":
        ml = marklog_replay(ctx, rj)
        st["evaluations"] += 1
    elif hbin and ctx.replay:
        one_replay(ctx, hbin, drv, rj, st)
    elif hbin:
        os.makedirs(tmp, exist_ok=True)
        try:
            # corpus: schedules that once failed (one per line: <scenario> <spurious budget> <choices>)
            cfile = os.path.join(tmp, "corpus.sched")
            cdir = os.path.join(C.VERIF, "corpus", "C12")
            with open(cfile, "w") as cf:
                if os.path.isdir(cdir):
                    for f in sorted(os.listdir(cdir)):
                        if f.endswith(".sched"):
                            cf.write(open(os.path.join(cdir, f)).read() + "\n")
            rc, out, err = C.sh2([hbin, "run", ctx.tier, tmp, cfile], env={"VERIF_SEED": str(ctx.seed)}, timeout=6000)
            if rc != 0:
                raise RuntimeError("h_c12 run failed rc=%d:\n%s" % (rc, (out + err)[-3000:]))
            summary = json.loads(out.strip().splitlines()[-1])
            st["evaluations"] = summary["schedules"]
            reqf = os.path.join(tmp, "traces.req")
            exp = open(os.path.join(tmp, "expected.resp")).read().splitlines()
            sched = open(os.path.join(tmp, "sched.txt")).read().splitlines()
            # oracle failures on the real code
            vio_by_sched = {}
            for line in open(os.path.join(tmp, "violations.jsonl")):
                if not line.strip():
                    continue
                v = json.loads(line)
                st["oracle_failures"] += 1
                vio_by_sched[(v["scenario"], str(v["spurious_budget"]), v["choices"])] = v["key"]
                ctx.finding(v["key"], replay_obj(v["scenario"], v["spurious_budget"], v["choices"], kind="oracle",
                                                 trace=v["trace"], mode=v["mode"]),
                            "%s  [scenario %s, choices %s]" % (v["text"], v["scenario"], v["choices"][:120]))
            # the model must accept every trace and end in the same counters
            rcm, ml, mstats, merr = run_model(drv, reqf)
            if rcm != 0 or len(ml) != len(exp):
                ctx.finding("corr:stream", dict(kind="correspondence", rc_model=rcm, n_traces=len(exp), n_model=len(ml),
                                                stderr=merr[-2000:]),
                            "drv_c12 did not answer every trace", no_input=True)
            else:
                for i, (a, b) in enumerate(zip(exp, ml)):
                    if a == b:
                        accepted += 1
                        continue
                    st["disagreements"] += 1
                    sc, spur, ch = sched[i].split(" ")
                    key = vio_by_sched.get((sc, spur, ch))
                    what = "rejects" if b.startswith("reject") else "ends in a different state than"
                    ctx.finding("corr:trace", replay_obj(sc, spur, ch, kind="correspondence", impl=a, model=b,
                                                         property_fails_on_impl=key),
                                "the model %s the real Terminator's trace: impl=`%s` model=`%s`%s"
                                % (what, a, b[:300], ("; the real code also fails the oracle: " + key) if key else ""),
                                no_input=key is None)
        finally:
            shutil.rmtree(tmp, ignore_errors=True)
    if not ctx.replay:
        ml = marklog_leg(ctx)
    st["disagreements"] += ml.get("disagreements", 0)
    st["oracle_failures"] += ml.get("oracle_failures", 0)
    if not po["build_ok"] or po["failed"]:
        found = st["oracle_failures"] > 0
        ctx.finding("proof:C12", dict(kind="proof", failed=po["failed"], log=po.get("build_log_tail", "")),
                    "property theorems of C12 no longer check: %s" % "; ".join(po["failed"])[:400], no_input=not found)
    dfs = summary.get("dfs", [])
    cov = dict(obligations=po["obligations"], discharged=po["discharged"], checker_cmd=po["checker_cmd"],
               trusted_base=po["trusted_base"] + [
                   "hand-written model DoraModel/Term/Model.lean tied to terminator.rs by trace acceptance (below)",
                   "harness/crates/sync_shim (deterministic scheduler + shim), h_c12, drv_c12, checks/c12.py",
                   "parking_lot mutex/condvar contract (no lost notification, spurious wake-ups possible); "
                   "sequentially consistent interleaving semantics for the Relaxed atomics (DESIGN §5)",
                   "termination model: the work pool is abstract (counters); marking model (Term/Mark.lean): crossbeam-deque's "
                   "Worker/Stealer/Injector are assumed to be linearizable multisets (push/pop/steal_batch_and_pop atomic, a "
                   "steal removes exactly what it hands out, batches arbitrary); try_mark is one atomic step (bit algebra: C03)",
                   "hand-written model DoraModel/Term/Mark.lean tied to marking.rs by the mark-log hook (hooks/c12_marklog.patch, "
                   "field `marking` below) when the hook is in /repo; MarkCheck.lean (projection replay through stepW, "
                   "conclusion checks, reachability by depth-first search over the heap dump), drv_c12mark",
                   "`Linked` (the termination model's counters are the marking model's pool sizes) is a stated hypothesis of "
                   "every_reachable_object_processed_exactly_once_at_termination, not derived from a product system"],
               theorems=po["theorems"],
               evaluations=st["evaluations"],
               distinct_nontrivial=summary.get("nontrivial", 0),
               rule="evaluation = one complete schedule of the real Terminator with 1-4 workers under the scheduler "
                    "(corpus, then DFS over choice lists up to the preemption bound per scenario, then VERIF_SEED-derived "
                    "PCT/uniform random schedules over random scenarios); distinct = distinct event trace; non-trivial = "
                    "the trace contains a condvar wait AND a wake_up that took the locked slow path",
               traces_validated_against_impl=accepted,
               distinct_traces=summary.get("distinct_traces", 0),
               states=mstats.get("states", 0), transitions=mstats.get("transitions", 0),
               states_note="distinct model states / (state,event) pairs visited while accepting the real traces",
               max_events_per_trace=summary.get("max_events", 0),
               dfs=dfs, exhaustive=bool(dfs) and all(d.get("exhaustive") for d in dfs),
               exhaustive_note="true = every scenario's DFS enumerated all schedules within its preemption bound "
                               "(bounded exhaustiveness only; the unbounded claim is the theorems')",
               histogram=summary.get("histogram", {}),
               samples=summary.get("samples") or [dict(note="replay run" if ctx.replay else "no sample")],
               marking=ml,
               marking_rule="one evaluation = one marking run of a real collection (generational collector, debug runtime built "
                            "with --cfg dinfuehr_dora_verif, 1/2/4/8 marking tasks): every task's records are accepted by the model's "
                            "step function on its projection, no object processed twice, no mark won twice, won = processed, and "
                            "(with the heap dump) fields traced = fields of the object, processed = reachable outside the read-only space; "
                            "non-trivial = more than one task processed objects",
               disagreements=st["disagreements"], oracle_failures=st["oracle_failures"])
    ctx.write_evidence("proof", cov, assumptions=[
        "atomics are modelled with interleaving (SeqCst) semantics although the code uses Relaxed; both counters are "
        "only written under the lock, the unlocked reads of wake_up are modelled as possibly stale",
        "worker loops are abstracted to: pop own / pop shared / steal / push / wake_up at any time / try_terminate only "
        "after reading shared = 0 with own = 0 — what MarkingTask::run and CopyTask::trace_gray_objects do",
        "'processed exactly once': proved on the marking model for every object graph, worker count, interleaving and "
        "stolen batch; the evacuation analogue (minor.rs, forwarding-pointer CAS) is not modelled; the real marker is compared "
        "per collection through the mark log (no global order between tasks and no batch contents are logged, so the log is "
        "checked by per-task projection acceptance plus the theorems' conclusions, not as one linearised trace)"])
