"""C12 — Parallel collection phases finish exactly when all work is done.

proof:  lean/DoraModel/Props/C12.lean over the transition system lean/DoraModel/Term/Model.lean
        (any number of workers, every interleaving; one shim operation per step)
tie:    the REAL dora-runtime/src/gc/swiper/terminator.rs is compiled unmodified (harness crate
        c12_realterm: renamed dependency `parking_lot` + `extern crate … as std` in a no_std crate) against the
        scheduling shim harness/crates/sync_shim and run under a deterministic scheduler; every explored
        schedule's event trace must be accepted step by step by the Lean model (drv_c12) and end in the same
        counters as the real objects
oracle: on the real code, per schedule: `try_terminate` returned true while the pool is non-empty or another
        worker still works; deadlock; an assert!/debug_assert! of terminator.rs firing; work or a `false`
        after the first `true`; items processed != items created
"""
import json
import os
import shutil

from . import common as C

PROP_MODULE = "DoraModel.Props.C12"
PROP_FILE = "DoraModel/Props/C12.lean"
TERMINATOR = os.path.join(C.REPO, "dora-runtime/src/gc/swiper/terminator.rs")


def replay_obj(scenario, spur, choices, **kw):
    d = dict(scenario=scenario, spurious_budget=int(spur), choices=choices,
             how_to_replay="./check C12 --replay <this file>   (= h_c12 replay '%s' %s '%s' | head -1 | drv_c12)"
                           % (scenario, spur, choices))
    d.update(kw)
    return d


def run_model(drv, reqfile):
    with open(reqfile) as f:
        rc, out, err = C.sh2([drv], stdin=f.read(), timeout=3000)
    lines = out.splitlines()
    stats = {}
    if lines and lines[-1].startswith("#stats"):
        for kv in lines[-1].split()[1:]:
            k, v = kv.split("=")
            stats[k] = int(v)
        lines = lines[:-1]
    return rc, lines, stats, err


def one_replay(ctx, hbin, drv, r, st):
    sc, spur, ch = r["scenario"], str(r.get("spurious_budget", 0)), r.get("choices", "-")
    rc, out, err = C.sh2([hbin, "replay", sc, spur, ch], timeout=300)
    lines = out.splitlines()
    if rc != 0 or len(lines) < 3:
        ctx.finding("corr:replay", dict(kind="correspondence", stderr=err[-2000:]), "h_c12 replay failed", no_input=True)
        return
    req, exp = lines[0], lines[1]
    C.log("replay: " + lines[2])
    rc2, model, err2 = C.sh2([drv], stdin=req + "\n", timeout=300)
    ml = model.splitlines()
    st["evaluations"] += 1
    vio = [l for l in lines[3:] if l.startswith("violation ")]
    for v in vio:
        key = v.split(" ")[1]
        st["oracle_failures"] += 1
        ctx.finding(key, replay_obj(sc, spur, ch, kind="oracle", trace=req), v[len("violation "):])
    if not ml or ml[0] != exp:
        st["disagreements"] += 1
        ctx.finding("corr:trace", replay_obj(sc, spur, ch, kind="correspondence", trace=req, impl=exp,
                                             model=ml[0] if ml else "<none>"),
                    "the model does not accept the real Terminator's trace: impl=`%s` model=`%s`"
                    % (exp, (ml[0] if ml else "<none>")[:300]), no_input=not vio)
    else:
        C.log("replay: model agrees: " + exp)


def run(ctx):
    po = C.proof_obligations(ctx, PROP_MODULE, PROP_FILE, hygiene_paths=("DoraModel/Term", PROP_FILE))
    drv, dlog = C.lean_exe("drv_c12")
    hbin, hlog = C.build_harness("h_c12")
    if hbin is None:
        ctx.finding("corr:build", dict(kind="correspondence", log=hlog[-3000:]),
                    "terminator.rs no longer builds against the sync shim (it uses something beyond "
                    "parking_lot::{Mutex,Condvar} and std::sync::atomic, or its API changed)", no_input=True)
    if drv is None:
        raise RuntimeError("driver build failed:\n" + dlog[-3000:])
    st = dict(evaluations=0, disagreements=0, oracle_failures=0)
    summary = {}
    mstats = {}
    accepted = 0
    tmp = os.path.join(C.BUILD, "tmp", "c12_%d" % os.getpid())
    if hbin and ctx.replay:
        one_replay(ctx, hbin, drv, json.load(open(ctx.replay)), st)
    elif hbin:
        os.makedirs(tmp, exist_ok=True)
        try:
            # corpus: schedules that once failed (one per line: <scenario> <spurious budget> <choices>)
            cfile = os.path.join(tmp, "corpus.sched")
            cdir = os.path.join(C.VERIF, "corpus", "C12")
            with open(cfile, "w") as cf:
                if os.path.isdir(cdir):
                    for f in sorted(os.listdir(cdir)):
                        if f.endswith(".sched"):
                            cf.write(open(os.path.join(cdir, f)).read() + "\n")
            rc, out, err = C.sh2([hbin, "run", ctx.tier, tmp, cfile], env={"VERIF_SEED": str(ctx.seed)}, timeout=6000)
            if rc != 0:
                raise RuntimeError("h_c12 run failed rc=%d:\n%s" % (rc, (out + err)[-3000:]))
            summary = json.loads(out.strip().splitlines()[-1])
            st["evaluations"] = summary["schedules"]
            reqf = os.path.join(tmp, "traces.req")
            exp = open(os.path.join(tmp, "expected.resp")).read().splitlines()
            sched = open(os.path.join(tmp, "sched.txt")).read().splitlines()
            # oracle failures on the real code
            vio_by_sched = {}
            for line in open(os.path.join(tmp, "violations.jsonl")):
                if not line.strip():
                    continue
                v = json.loads(line)
                st["oracle_failures"] += 1
                vio_by_sched[(v["scenario"], str(v["spurious_budget"]), v["choices"])] = v["key"]
                ctx.finding(v["key"], replay_obj(v["scenario"], v["spurious_budget"], v["choices"], kind="oracle",
                                                 trace=v["trace"], mode=v["mode"]),
                            "%s  [scenario %s, choices %s]" % (v["text"], v["scenario"], v["choices"][:120]))
            # the model must accept every trace and end in the same counters
            rcm, ml, mstats, merr = run_model(drv, reqf)
            if rcm != 0 or len(ml) != len(exp):
                ctx.finding("corr:stream", dict(kind="correspondence", rc_model=rcm, n_traces=len(exp), n_model=len(ml),
                                                stderr=merr[-2000:]),
                            "drv_c12 did not answer every trace", no_input=True)
            else:
                for i, (a, b) in enumerate(zip(exp, ml)):
                    if a == b:
                        accepted += 1
                        continue
                    st["disagreements"] += 1
                    sc, spur, ch = sched[i].split(" ")
                    key = vio_by_sched.get((sc, spur, ch))
                    what = "rejects" if b.startswith("reject") else "ends in a different state than"
                    ctx.finding("corr:trace", replay_obj(sc, spur, ch, kind="correspondence", impl=a, model=b,
                                                         property_fails_on_impl=key),
                                "the model %s the real Terminator's trace: impl=`%s` model=`%s`%s"
                                % (what, a, b[:300], ("; the real code also fails the oracle: " + key) if key else ""),
                                no_input=key is None)
        finally:
            shutil.rmtree(tmp, ignore_errors=True)
    if not po["build_ok"] or po["failed"]:
        found = st["oracle_failures"] > 0
        ctx.finding("proof:C12", dict(kind="proof", failed=po["failed"], log=po.get("build_log_tail", "")),
                    "property theorems of C12 no longer check: %s" % "; ".join(po["failed"])[:400], no_input=not found)
    dfs = summary.get("dfs", [])
    cov = dict(obligations=po["obligations"], discharged=po["discharged"], checker_cmd=po["checker_cmd"],
               trusted_base=po["trusted_base"] + [
                   "hand-written model DoraModel/Term/Model.lean tied to terminator.rs by trace acceptance (below)",
                   "harness/crates/sync_shim (deterministic scheduler + shim), h_c12, drv_c12, checks/c12.py",
                   "parking_lot mutex/condvar contract (no lost notification, spurious wake-ups possible); "
                   "sequentially consistent interleaving semantics for the Relaxed atomics (DESIGN §5)",
                   "the work pool is abstract (counters); crossbeam deque/injector are not executed here"],
               theorems=po["theorems"],
               evaluations=st["evaluations"],
               distinct_nontrivial=summary.get("nontrivial", 0),
               rule="evaluation = one complete schedule of the real Terminator with 1-4 workers under the scheduler "
                    "(corpus, then DFS over choice lists up to the preemption bound per scenario, then VERIF_SEED-derived "
                    "PCT/uniform random schedules over random scenarios); distinct = distinct event trace; non-trivial = "
                    "the trace contains a condvar wait AND a wake_up that took the locked slow path",
               traces_validated_against_impl=accepted,
               distinct_traces=summary.get("distinct_traces", 0),
               states=mstats.get("states", 0), transitions=mstats.get("transitions", 0),
               states_note="distinct model states / (state,event) pairs visited while accepting the real traces",
               max_events_per_trace=summary.get("max_events", 0),
               dfs=dfs, exhaustive=bool(dfs) and all(d.get("exhaustive") for d in dfs),
               exhaustive_note="true = every scenario's DFS enumerated all schedules within its preemption bound "
                               "(bounded exhaustiveness only; the unbounded claim is the theorems')",
               histogram=summary.get("histogram", {}),
               samples=summary.get("samples") or [dict(note="replay run" if ctx.replay else "no sample")],
               disagreements=st["disagreements"], oracle_failures=st["oracle_failures"])
    ctx.write_evidence("proof", cov, assumptions=[
        "atomics are modelled with interleaving (SeqCst) semantics although the code uses Relaxed; both counters are "
        "only written under the lock, the unlocked reads of wake_up are modelled as possibly stale",
        "worker loops are abstracted to: pop own / pop shared / steal / push / wake_up at any time / try_terminate only "
        "after reading shared = 0 with own = 0 — what MarkingTask::run and CopyTask::trace_gray_objects do",
        "'processed exactly once' is covered at pool level only (items are counted; the mark-bit CAS belongs to C03)"])
