"""C17 — Formatting never changes a program and is stable.

proof:  lean/DoraModel/Props/C17.lean over the model lean/DoraModel/Fmt/Model.lean (the Doc renderer,
        dora-format/src/render.rs): for every Doc and every width the renderer terminates and only moves
        white space (the non-layout characters of the output are those of the Doc's text atoms, IfBreak
        subtrees wholly or not at all); no blank before a line break it emits.
tie:    hand model + correspondence: h_c17 (real dora-format renderer on a deserialised Doc) vs drv_c17
        (Lean model) on the same `render` requests — the Docs the real builders produce for the .dora files
        of /repo plus synthetic Docs, ten widths each.
oracle: the property itself on the real formatter, per input and width (h_c17 `chk`): no panic; the output
        parses; same code tokens in the same order up to the separators/orderings the formatter is specified
        to normalise; same comments; formatting the output again changes nothing. Inputs: every .dora file
        of /repo and layout mutants of a seeded sample. The Doc builders are not modelled (compared only).
"""
import json
import os

from . import common as C

PROP_MODULE = "DoraModel.Props.C17"
PROP_FILE = "DoraModel/Props/C17.lean"


def unhex(s):
    return b"" if s == "-" else bytes.fromhex(s)


def hexs(b):
    return b.hex() if b else "-"


# ----------------------------------------------------------------------------- decidable form of render_atoms

def parse_doc(s):
    toks = s.split(",")
    pos = [0]

    def rec():
        t = toks[pos[0]]
        pos[0] += 1
        h, a = t[0], t[1:]
        if h == "C":
            return ("C", [rec() for _ in range(int(a))])
        if h == "N":
            return ("N", rec())
        if h in "GI":
            return (h, rec())
        if h == "T":
            return ("T", unhex(a).decode("utf-8"))
        return (h,)
    import sys
    sys.setrecursionlimit(100000)
    d = rec()
    return d


def non_layout(s):
    return "".join(c for c in s if c not in " \n")


def atoms_ok(doc, out):
    """Is non_layout(out) the concatenation of the Doc's texts with every IfBreak subtree taken wholly
    (inside a Break-mode group) or not at all?  Position-set matcher (groups choose their mode freely)."""
    target = non_layout(out)

    def m(d, brk, ps):
        k = d[0]
        if k == "T":
            t = non_layout(d[1])
            return {p + len(t) for p in ps if target.startswith(t, p)}
        if k == "C":
            for c in d[1]:
                ps = m(c, brk, ps)
                if not ps:
                    return ps
            return ps
        if k == "N":
            return m(d[1], brk, ps)
        if k == "G":
            return m(d[1], True, ps) | m(d[1], False, ps)
        if k == "I":
            return m(d[1], True, ps) if brk else ps
        return ps
    return len(target) in m(doc, True, {0})


# ----------------------------------------------------------------------------- running

def run_file(hbin, reqs, label, timeout=3000, env=None):
    """answers of the harness for a list of request lines (responses go through a file: the formatter
    prints to stdout when its self-check fails)"""
    os.makedirs(C.BUILD + "/tmp", exist_ok=True)
    rf = os.path.join(C.BUILD, "tmp", "c17_%s_%d.req" % (label, os.getpid()))
    of = rf + ".out"
    open(rf, "w").write("\n".join(reqs) + "\n")
    rc, out, err = C.sh2([hbin, "run", rf, of], timeout=timeout, env=env)
    lines = open(of).read().splitlines() if os.path.exists(of) else []
    for f in (rf, of):
        if os.path.exists(f):
            os.unlink(f)
    return rc, lines, err


def doc_shape(ds):
    toks = ds.split(",")
    return dict(nodes=len(toks), groups=sum(1 for t in toks if t == "G"), ifbreaks=sum(1 for t in toks if t == "I"),
                nests=sum(1 for t in toks if t[0] == "N"), hard=sum(1 for t in toks if t == "H"))


def run_render(ctx, hbin, drv, reqs, label, stats):
    if not reqs:
        return
    rc1, il, err1 = run_file(hbin, reqs, label + "_r")
    rc2, model, err2 = C.sh2([drv], stdin="\n".join(reqs) + "\n", timeout=3000)
    ml = model.splitlines()
    if rc1 != 0 or rc2 != 0 or len(il) != len(reqs) or len(ml) != len(reqs):
        ctx.finding("corr:stream", dict(kind="correspondence", detail="response streams incomplete", rc_impl=rc1,
                                        rc_model=rc2, n_req=len(reqs), n_impl=len(il), n_model=len(ml),
                                        stderr=(err1 + err2)[-2000:]),
                    "harness or driver did not answer every render request", no_input=True)
        return
    for i, req in enumerate(reqs):
        p = req.split(" ")
        widths = p[2].split(",")
        stats["evaluations"] += len(widths)
        sh = doc_shape(p[1])
        h = stats["hist"]
        h["render_requests"] = h.get("render_requests", 0) + 1
        h["render_widths"] = h.get("render_widths", 0) + len(widths)
        distinct_layouts = len(set(x.split(":", 1)[1] for x in il[i].split(" ")))
        nontrivial = sh["groups"] > 0 and (sh["ifbreaks"] > 0 or sh["nests"] > 0) and distinct_layouts > 1
        if sh["ifbreaks"]:
            h["render_doc_with_ifbreak"] = h.get("render_doc_with_ifbreak", 0) + 1
        if distinct_layouts > 1:
            h["render_layout_depends_on_width"] = h.get("render_layout_depends_on_width", 0) + 1
        if "!panic" in il[i]:
            h["render_impl_panics"] = h.get("render_impl_panics", 0) + 1
        if nontrivial:
            stats["distinct"].add(req)
            if len(stats["samples"]) < 3 and sh["nodes"] < 60:
                stats["samples"].append(dict(request=req, impl=il[i], model=ml[i]))
        if il[i] == ml[i]:
            continue
        stats["disagreements"] += 1
        # which width, and does the property still hold on the implementation's own output?
        iw = dict(x.split(":", 1) for x in il[i].split(" "))
        mw = dict(x.split(":", 1) for x in ml[i].split(" "))
        bad = [w for w in iw if iw.get(w) != mw.get(w)] or widths[:1]
        w = bad[0]
        rq = "renderx %s %s" % (p[1], w)
        _, xi, _ = run_file(hbin, [rq], label + "_x")
        _, xm, _ = C.sh2([drv], stdin=rq + "\n", timeout=600)
        xi = xi[0] if xi else "?"
        xm = xm.strip()
        o = None
        try:
            if not xi.startswith("!"):
                if not atoms_ok(parse_doc(p[1]), unhex(xi).decode("utf-8")):
                    o = "the renderer's output is not the Doc's text atoms in order (render_atoms fails on the implementation)"
            else:
                o = "the renderer panics: " + xi
        except Exception as ex:  # noqa
            o = None
        ctx.finding("corr:render", dict(kind="correspondence", request=rq, impl=xi[:20000], model=xm[:20000],
                                        oracle=o, how_to_replay="./check C17 --replay <this file>"),
                    "Lean render and Rust render disagree at width %s on a Doc of %d nodes%s"
                    % (w, sh["nodes"], ("; " + o) if o else ""), no_input=(o is None))


def run_chk(ctx, hbin, reqs, label, stats, min_secs):
    if not reqs:
        return
    rc, il, err = run_file(hbin, reqs, label + "_c")
    if rc != 0 or len(il) != len(reqs):
        ctx.finding("corr:stream", dict(kind="correspondence", detail="harness did not answer every chk request",
                                        rc=rc, n_req=len(reqs), n_resp=len(il), stderr=err[-2000:]),
                    "harness did not answer every chk request", no_input=True)
        return
    fails = stats["fails"]
    h = stats["hist"]
    for req, resp in zip(reqs, il):
        p = req.split(" ")
        r = resp.split(" ")
        stats["evaluations"] += 1
        kind = "mutant:" + p[3].split(".")[0] if p[3] != "-" else "file"
        h["chk_" + kind] = h.get("chk_" + kind, 0) + 1
        h["chk_width_" + p[2]] = h.get("chk_width_" + p[2], 0) + 1
        if r[0] == "ok":
            h["chk_ok"] = h.get("chk_ok", 0) + 1
            f = dict(x.split("=") for x in r[3:])
            if f.get("changed") == "1" or int(f.get("comments", "0")) > 0:
                stats["distinct"].add(req)
                if len(stats["samples"]) < 6 and len(stats["distinct"]) % 211 == 0:
                    stats["samples"].append(dict(request=req, impl=resp))
        elif r[0] == "FAIL":
            stats["oracle_failures"] += 1
            h["chk_fail"] = h.get("chk_fail", 0) + 1
            stats["distinct"].add(req)
            fails.setdefault(r[1], []).append((len(r[4]), req, r))
        elif r[0] == "!error":
            h["chk_input_does_not_parse"] = h.get("chk_input_does_not_parse", 0) + 1
        elif r[0] == "!nomutant":
            h["chk_no_mutant"] = h.get("chk_no_mutant", 0) + 1
        else:
            stats["oracle_failures"] += 1
            ctx.finding("oracle:harness:" + r[0], dict(kind="oracle", request=req, impl=resp[:2000]),
                        "unexpected harness answer `%s` for `%s`" % (resp[:200], req[:200]))


def report_fails(ctx, hbin, stats, min_secs):
    """one report per failure class: the smallest failing input, shrunk further by the harness"""
    fails = stats["fails"]
    for key in sorted(fails):
        lst = sorted(fails[key])
        _, req, r = lst[0]
        p = req.split(" ")
        text = unhex(r[4])
        detail = unhex(r[3]).decode("utf-8", "replace")
        known = any(k == key for k, _ in ctx.known)
        mini = text
        if not known or ctx.replay:
            mreq = "min %s %s - %s" % (r[4], p[2], key)
            _, ml, _ = run_file(hbin, [mreq], "min", env={"C17_MIN_SECS": str(min_secs)})
            if ml and not ml[0].startswith("!"):
                mini = unhex(ml[0])
        stats["failure_classes"][key] = len(lst)
        ctx.finding(key,
                    dict(kind="oracle", request="chk %s %s - minimised" % (hexs(mini), p[2]), width=int(p[2]),
                         input_text=mini.decode("utf-8", "replace"), found_in=req[:300], cases_in_this_run=len(lst),
                         failure_class=r[2], why=detail,
                         how_to_replay="./check C17 --replay <this file>  (or: dora-format --line-length %s <file with input_text>)" % p[2]),
                    "%s [width %s, %d case(s), e.g. %s]; minimised input: %r"
                    % (detail, p[2], len(lst), p[4] if len(p) > 4 else p[1][:60], mini.decode("utf-8", "replace")[:300]))


def split_reqs(lines):
    chk = [l for l in lines if l.startswith("chk ")]
    ren = [l for l in lines if l.startswith("render ")]
    return chk, ren


def run(ctx):
    po = C.proof_obligations(ctx, PROP_MODULE, PROP_FILE, hygiene_paths=("DoraModel/Fmt", PROP_FILE))
    drv, dlog = C.lean_exe("drv_c17")
    hbin, hlog = C.build_harness("h_c17")
    for _ in range(4):
        # the harness workspace is shared (members = crates/*): another property's half-written crate makes cargo
        # refuse the whole workspace. That says nothing about /repo: wait, then fail as machinery, not as a verdict.
        if hbin is None and "failed to load manifest for workspace member" in hlog and "crates/c17`" not in hlog:
            import time
            time.sleep(20)
            hbin, hlog = C.build_harness("h_c17")
    if hbin is None and "failed to load manifest for workspace member" in hlog and "crates/c17`" not in hlog:
        raise RuntimeError("harness workspace is broken by another crate:\n" + hlog[-1500:])
    if hbin is None:
        ctx.finding("corr:build", dict(kind="correspondence", log=hlog[-3000:]),
                    "harness does not build against /repo (API of dora-format / dora-parser changed?)", no_input=True)
    if drv is None:
        raise RuntimeError("driver build failed:\n" + dlog[-3000:])
    stats = dict(evaluations=0, distinct=set(), samples=[], hist={}, disagreements=0, oracle_failures=0,
                 failure_classes={}, fails={})
    min_secs = 4 if ctx.tier == "quick" else 10
    if hbin:
        if ctx.replay:
            r = json.load(open(ctx.replay))
            reqs = [r["request"]] if "request" in r else []
            reqs = [q.replace("renderx ", "render ", 1) if q.startswith("renderx ") else q for q in reqs]
            chk, ren = split_reqs(reqs)
            run_chk(ctx, hbin, chk, "replay", stats, min_secs)
            run_render(ctx, hbin, drv, ren, "replay", stats)
        else:
            cdir = os.path.join(C.VERIF, "corpus", "C17")
            if os.path.isdir(cdir):
                for f in sorted(os.listdir(cdir)):
                    if not f.endswith(".req"):
                        continue
                    lines = [l.strip() for l in open(os.path.join(cdir, f)) if l.strip() and not l.startswith("#")]
                    chk, ren = split_reqs(lines)
                    run_chk(ctx, hbin, chk, "corpus", stats, min_secs)
                    run_render(ctx, hbin, drv, ren, "corpus", stats)
            n = 300 if ctx.tier == "quick" else 0
            rc, gen, err = C.sh2([hbin, "gen", str(n)], env={"VERIF_SEED": str(ctx.seed)}, timeout=3000)
            if rc != 0:
                raise RuntimeError("h_c17 gen failed: " + err[-2000:])
            chk, ren = split_reqs(gen.splitlines())
            run_chk(ctx, hbin, chk, "gen", stats, min_secs)
            run_render(ctx, hbin, drv, ren, "gen", stats)
    if hbin:
        report_fails(ctx, hbin, stats, min_secs)
    if not po["build_ok"] or po["failed"]:
        found_input = stats["disagreements"] > 0
        ctx.finding("proof:C17", dict(kind="proof", failed=po["failed"], log=po.get("build_log_tail", "")),
                    "property theorems of C17 no longer check: %s" % "; ".join(po["failed"])[:400],
                    no_input=not found_input)
    cov = dict(obligations=po["obligations"], discharged=po["discharged"], checker_cmd=po["checker_cmd"],
               trusted_base=po["trusted_base"] + [
                   "hand-written model DoraModel/Fmt/Model.lean of dora-format/src/render.rs, tied by the render "
                   "correspondence below",
                   "harness h_c17 (token normalisation, mutant generator, minimiser), driver drv_c17, checks/c17.py",
                   "dora-parser's lexer and parser are used as given to tokenise input and output (C16/C06 cover them)",
                   "the Doc builders (dora-format/src/doc/*.rs) are not modelled: compared per input only"],
               theorems=po["theorems"],
               evaluations=stats["evaluations"], distinct_nontrivial=len(stats["distinct"]),
               rule="chk: every .dora file under /repo/pkgs,test,bench at width 90; a seeded sample (quick: 300 files, "
                    "thorough: all) also at widths 40 and 120 (every 7th at 1 and 10000), as 3-6 layout mutants "
                    "(re-spacing, comments at token boundaries, line joining, line splitting, mixed; code tokens "
                    "unchanged by construction) at a width from {1,40,90,120,10000}; three u32-edge widths. "
                    "render: the Doc of every sampled file plus 1500 (thorough: 20000) random Docs at widths "
                    "{1,20,40,60,80,90,100,120,200,10000}(+1 random). non-trivial = chk whose output differs from its "
                    "input or whose input has comments or which fails; render whose Doc has a Group and an "
                    "IfBreak/Nest and whose layout differs between widths",
               histogram=stats["hist"], samples=stats["samples"] or [dict(note="no sample")],
               disagreements=stats["disagreements"], oracle_failures=stats["oracle_failures"],
               failure_classes=stats["failure_classes"])
    ctx.write_evidence("proof", cov, assumptions=[
        "proved for the renderer only (all Docs, all widths); builders, token/comment preservation and idempotence "
        "are checked per input on the real formatter",
        "model arithmetic is unbounded (Nat/Int); the Rust renderer computes in u32/usize/i32: they agree while "
        "line length, indentation and text sizes stay below 2^31 (a line length of 2^31 overflows in debug builds)",
        "code-token comparison allows exactly: the comma of the last comma-list entry, commas between match arms, "
        "modifier order (annotations, pub, static, mutating), sorting of neighbouring `use` declarations and of "
        "`{..}` group entries, braces of a one-entry use group — each pinned by dora-format's own unit tests; the "
        "literal property text allows only 'optional trailing separators'"])
