"""C08 — Every AArch64 instruction is encoded as the instruction that was requested.

tie:    /verif/tools/rs2lean_a64.py regenerates lean/DoraModel/Gen/A64*.lean (and the harness' dispatch.rs) from
        /repo/dora-asm/src/{lib,arm64}.rs on every run; the theorems of Props/C08.lean are re-checked against that.
proof:  lean/DoraModel/Props/C08.lean (class encoders, logical / add-sub immediates, mov sequences, branches).
corr:   h_c08 (real dora-asm) vs drv_c08 (regenerated Lean model), same request file, byte for byte.
oracle: on the implementation's own bytes: reference decoder (A64/Dec.lean) = requested instruction (A64/Spec.lean);
        mov-immediate sequences leave the immediate; ldr_mem/str_mem address the requested location; branches to
        labels land on the bound position.  Decoder + spec are validated against `llvm-mc -triple=aarch64 -mattr=+lse`.
"""
import json
import os
import re
import shutil

from . import common as C

PROP_MODULE = "DoraModel.Props.C08"
PROP_FILE = "DoraModel/Props/C08.lean"
BV_AXIOM = "bv_decide.ax"           # `<thm>._native.bv_decide.ax_*`: natively compiled LRAT checker of bv_decide
TRANSLATOR = os.path.join(C.VERIF, "tools", "rs2lean_a64.py")
GEN_DIR = os.path.join(C.LEAN, "DoraModel", "Gen")
HSRC = os.path.join(C.HARNESS, "crates", "c08", "src")
ZERO_FAMILY = ("cbz", "cbz_w", "cbnz", "cbnz_w", "tbz", "tbnz")


# ------------------------------------------------------------------------------------------ helpers

def expand(resp):
    """response hex (with z<n>. zero runs) -> bytes"""
    h = resp.split(" ")[0]
    if h == "-":
        return b""
    out = bytearray()
    i = 0
    while i < len(h):
        if h[i] == "z":
            j = h.index(".", i)
            out += bytes(int(h[i + 1:j]))
            i = j + 1
        else:
            out += bytes.fromhex(h[i:i + 2])
            i += 2
    return bytes(out)


def llvm_mc():
    for n in ("llvm-mc", "llvm-mc-14"):
        p = shutil.which(n)
        if p:
            return p
    return None


def llvm_assemble(texts):
    """assemble every text in one llvm-mc process. returns list of hex bytes or None (rejected) per text"""
    mc = llvm_mc()
    if mc is None or not texts:
        return None
    os.makedirs(C.BUILD + "/tmp", exist_ok=True)
    path = os.path.join(C.BUILD, "tmp", "c08_%d.s" % os.getpid())
    open(path, "w").write("\n".join(texts) + "\n")
    rc, out, err = C.sh2([mc, "-triple=aarch64", "-mattr=+lse,+neon,+fp-armv8", "-show-encoding", path], timeout=900)
    os.unlink(path)
    bad = set(int(m.group(1)) for m in re.finditer(r":(\d+):\d+: error:", err))
    encs = [m.group(1) for m in re.finditer(r"encoding: \[([^\]]*)\]", out)]
    res = []
    k = 0
    for i in range(len(texts)):
        if (i + 1) in bad:
            res.append(None)
        else:
            if k >= len(encs):
                return None
            res.append("".join(b.strip()[2:] for b in encs[k].split(",")))
            k += 1
    if k != len(encs):
        return None
    return res


def drv_lines(drv, lines):
    if not lines:
        return []
    rc, out, err = C.sh2([drv], stdin="\n".join(lines) + "\n", timeout=1800)
    res = out.splitlines()
    if rc != 0 or len(res) != len(lines):
        raise RuntimeError("drv_c08 answered %d of %d lines (rc %d): %s" % (len(res), len(lines), rc, err[-500:]))
    return res


def norm_tok(t):
    t = re.sub(r"^x(\d+|zr)$", "X", t)
    t = re.sub(r"^w(\d+|zr)$", "W", t)
    return re.sub(r"\d+", "#", t)


def first_diff(spec, dec):
    a = re.split(r"[ ,]+", spec)
    b = re.split(r"[ ,]+", dec)
    for i in range(max(len(a), len(b))):
        x = a[i] if i < len(a) else "-"
        y = b[i] if i < len(b) else "-"
        if x != y:
            return "op%d:%s->%s" % (i, norm_tok(x), norm_tok(y))
    return "same"


def mov_value(texts, size):
    """3-instruction semantics of movz/movn/movk on one register; returns (reg, value) or None"""
    reg = None
    val = None
    mask = (1 << size) - 1
    for t in texts:
        m = re.fullmatch(r"(movz|movn|movk) ([xw]\d+), #(\d+), lsl #(\d+)", t)
        if not m:
            return None
        if m.group(2)[0] != ("x" if size == 64 else "w"):
            return None
        if reg is None:
            reg = m.group(2)
        elif reg != m.group(2):
            return None
        imm, sh = int(m.group(3)), int(m.group(4))
        if m.group(1) == "movz":
            val = (imm << sh) & mask
        elif m.group(1) == "movn":
            val = ~(imm << sh) & mask
        else:
            if val is None:
                return None
            val = (val & ~(0xffff << sh) | (imm << sh)) & mask
    return reg, val


MEM_INFO = {  # ldr_mem_* / str_mem_*: mnemonic, register class, log2 size
    "s": ("s", 2), "d": ("d", 3), "b": ("w", 0), "w": ("w", 2), "x": ("x", 3)}


def reg_name(tok, cls):
    n = int(tok)
    if cls in ("s", "d"):
        return "%s%d" % (cls, n)
    if n == 100:
        return cls + "zr"
    if n == 101:
        return "sp" if cls == "x" else "wsp"
    return "%s%d" % (cls, n)


def mem_oracle(p, texts):
    """ldr_mem_X dest base off scratch: either one ldr/ldur with that offset, or mov scratch,#off + ldr [base, scratch]"""
    kind = p[0][-1]
    cls, lg = MEM_INFO[kind]
    ld = p[0].startswith("ldr")
    base = reg_name(p[2], "x")
    off = int(p[3])
    rt = reg_name(p[1], cls)
    m1 = ("ldr" if ld else "str") + ("b" if kind == "b" else "")
    m2 = ("ldur" if ld else "stur") + ("b" if kind == "b" else "")
    offs = "[%s]" % base if off == 0 else "[%s, #%d]" % (base, off)
    if len(texts) == 1:
        if texts[0] in ("%s %s, %s" % (m1, rt, offs), "%s %s, %s" % (m2, rt, offs)):
            return None
        return "single instruction `%s` is not a load/store of %s at %s+%d" % (texts[0], rt, base, off)
    mv = mov_value(texts[:-1], 64)
    scratch = reg_name(p[4], "x")
    if mv is None or mv[0] != scratch or mv[1] != off % (1 << 64):
        return "scratch register does not receive the offset: %s" % "; ".join(texts)
    if texts[-1] != "%s %s, [%s, %s]" % (m1, rt, base, scratch):
        return "last instruction `%s` is not the register-offset access" % texts[-1]
    if scratch == base:
        return None
    return None


# ------------------------------------------------------------------------------------------ label scripts

def script_positions(ops, total_len, methods):
    """positions of the (single) label-using op and of the label; None if the script shape is not understood"""
    pos = 0
    end = 0
    labels = []
    jump = None
    for op in ops:
        name = op[0]
        if name == "create_label":
            labels.append(None)
        elif name == "create_and_bind_label":
            labels.append(pos)
        elif name == "bind_label":
            labels[int(op[1][1:])] = pos
        elif name == "set_position":
            pos = int(op[1])
        elif name == "set_position_end":
            pos = end
        elif name == "pad":
            pos += int(op[1]) // 4 * 4
        elif name == "finalize":
            pass
        elif any(re.fullmatch(r"L\d+", a) for a in op[1:]):
            if jump is not None:
                return None
            li = int([a for a in op[1:] if re.fullmatch(r"L\d+", a)][0][1:])
            jump = dict(op=op, pos=pos, label=li, bound=labels[li] is not None)
            # size: forward cbz/tbz reserve two words; backward: inferred from the total length below
            if not jump["bound"]:
                pos += 8 if name in ZERO_FAMILY else 4
            else:
                jump["tail"] = True
                pos += 4
        elif name in methods:
            pos += 4
        else:
            return None
        end = max(end, pos)
    if jump is None:
        return None
    if jump.get("tail") and total_len is not None and total_len == end + 4:
        jump["size"] = 8
    else:
        jump["size"] = 8 if (not jump["bound"] and jump["op"][0] in ZERO_FAMILY) else 4
    jump["target"] = labels[jump["label"]]
    return jump


def branch_oracle(jump, code, dec):
    """decoded instruction(s) at the jump site must transfer to the bound position"""
    p = jump["pos"]
    q = jump["target"]
    op = jump["op"]
    name = op[0]
    w1 = dec(code[p:p + 4])
    w2 = dec(code[p + 4:p + 8]) if len(code) >= p + 8 else None
    want = {"b": "b", "bc": "b.", "cbz": "cbz", "cbz_w": "cbz", "cbnz": "cbnz", "cbnz_w": "cbnz", "tbz": "tbz",
            "tbnz": "tbnz", "adr_label": "adr"}.get(name)
    if want is None:
        return None
    m = re.fullmatch(r"(\S+) (?:(.*), )?#(-?\d+)", w1 or "")
    if not m:
        return "jump site decodes to `%s`" % w1
    mn, rest, off = m.group(1), m.group(2), int(m.group(3))
    inv = {"cbz": "cbnz", "cbnz": "cbz", "tbz": "tbnz", "tbnz": "tbz"}
    if mn == want or (want == "b." and mn.startswith("b.")):
        if p + off != q:
            return "`%s` at %d transfers to %d, label is bound at %d" % (w1, p, p + off, q)
        return None
    if want in inv and mn == inv[want] and off == 8 and w2:
        m2 = re.fullmatch(r"b #(-?\d+)", w2)
        if m2 and p + 4 + int(m2.group(1)) == q:
            return None
        return "`%s; %s` at %d does not reach %d" % (w1, w2, p, q)
    return "jump site decodes to `%s`, requested %s" % (w1, name)


# ------------------------------------------------------------------------------------------ one batch

def run_requests(ctx, hbin, drv, reqs, label, stats, rep):
    os.makedirs(C.BUILD + "/tmp", exist_ok=True)
    rf = os.path.join(C.BUILD, "tmp", "c08_%s_%d.req" % (label, os.getpid()))
    open(rf, "w").write("\n".join(reqs) + "\n")
    rc1, impl, err1 = C.sh2([hbin, "run", rf], timeout=1800)
    rc2, model, err2 = C.sh2([drv], stdin="\n".join(reqs) + "\n", timeout=1800)
    os.unlink(rf)
    il, ml = impl.splitlines(), model.splitlines()
    if rc1 != 0 or rc2 != 0 or len(il) != len(reqs) or len(ml) != len(reqs):
        ctx.finding("corr:stream", dict(kind="correspondence", rc_impl=rc1, rc_model=rc2, n_req=len(reqs), n_impl=len(il),
                                        n_model=len(ml), stderr=(err1 + err2)[-2000:]),
                    "harness or driver did not answer every request", no_input=True)
        return
    methods = set(m["name"] for m in rep["methods"])
    # what does the specification say, what do the emitted words decode to
    single = [i for i, r in enumerate(reqs) if ";" not in r and r.split(" ")[0] in methods]
    spec = dict(zip(single, drv_lines(drv, ["spec " + reqs[i] for i in single])))
    words = {}
    for i, r in enumerate(reqs):
        if not il[i].startswith("!"):
            code = expand(il[i])
            if len(code) <= 64 and len(code) % 4 == 0:
                for k in range(0, len(code), 4):
                    words[code[k:k + 4].hex()] = None
    wl = sorted(words)
    for h, t in zip(wl, drv_lines(drv, ["dec " + h for h in wl])):
        words[h] = t
    extra = {}

    def dec(b):
        if len(b) != 4:
            return None
        h = b.hex()
        if h not in words:
            if h not in extra:
                extra[h] = drv_lines(drv, ["dec " + h])[0]
            return extra[h]
        return words[h]

    llvm_q = []   # (index, spec text, impl hex)
    for i, req in enumerate(reqs):
        stats["evaluations"] += 1
        p = req.split(" ")
        script = ";" in req
        fam = "script" if script else p[0]
        h = stats["hist"].setdefault(fam, [0, 0])
        refused = il[i].startswith("!panic")
        h[1 if refused else 0] += 1
        if il[i] != ml[i]:
            stats["disagreements"] += 1
            ctx.finding("corr:%s" % fam, dict(kind="correspondence", request=req, impl=il[i][:400], model=ml[i][:400],
                                              how_to_replay="./check C08 --replay <this file>"),
                        "regenerated Lean model and Rust assembler disagree on `%s`: impl=%s model=%s"
                        % (req[:160], il[i][:80], ml[i][:80]), no_input=True)
            continue
        if il[i] == "!badreq":
            continue
        nontrivial = (not refused) and (script or any(t in ("100", "101") or (t.isdigit() and int(t) >= 16) for t in p[1:]))
        if nontrivial:
            stats["distinct"].add(req)
        if len(stats["samples"]) < 6 and nontrivial and i % 1237 == 0:
            stats["samples"].append(dict(request=req, impl=il[i][:80], model=ml[i][:80], spec=spec.get(i)))
        fail = None
        key = None
        if i in spec and spec[i] not in ("!nospec", "!badreq"):
            s = spec[i]
            if refused:
                if s != "!refuse":
                    stats["legal_refused"] += 1
                    stats["legal_refused_by"][p[0]] = stats["legal_refused_by"].get(p[0], 0) + 1
            else:
                code = expand(il[i])
                d = dec(code) if len(code) == 4 else None
                if s == "!refuse":
                    key = "oracle:%s:%s" % (p[0], "unallocated" if d == "!undecoded" else "emitted-unencodable")
                    fail = ("`%s`: the operands do not denote an encodable instruction, but %s was emitted (decodes to `%s`) "
                            "instead of a refusal" % (req, il[i], d))
                elif d != s:
                    key = "oracle:%s:wrong-instruction:%s" % (p[0], first_diff(s, d or "?"))
                    fail = "`%s` requests `%s` but the emitted word %s decodes to `%s`" % (req, s, il[i], d)
                else:
                    stats["decoded_ok"] += 1
                if not s.startswith("!"):
                    llvm_q.append((i, s, il[i].split(" ")[0]))
        elif not script and p[0] in ("mov_imm", "mov_imm_w") and not refused:
            size = 64 if p[0] == "mov_imm" else 32
            code = expand(il[i])
            texts = [dec(code[k:k + 4]) for k in range(0, len(code), 4)]
            mv = mov_value(texts, size)
            want_reg = reg_name(p[1], "x" if size == 64 else "w")
            if mv is None or mv[0] != want_reg or mv[1] != int(p[2]) % (1 << size) or len(texts) > size // 16:
                key = "oracle:%s:value" % p[0]
                fail = "`%s` emits `%s`, which leaves %s" % (req, "; ".join(str(t) for t in texts), mv)
            else:
                stats["mov_ok"] += 1
        elif not script and re.fullmatch(r"(ldr|str)_mem_[sdbwx]", p[0]) and not refused:
            code = expand(il[i])
            texts = [dec(code[k:k + 4]) for k in range(0, len(code), 4)]
            why = mem_oracle(p, texts)
            if why:
                key = "oracle:%s:address" % p[0]
                fail = "`%s`: %s" % (req, why)
            else:
                stats["mem_ok"] += 1
        elif script and not refused:
            ops = [[t for t in o.split(" ") if t] for o in req.split(";")]
            code = expand(il[i])
            j = script_positions(ops, len(code), methods)
            if j is not None and j["target"] is not None:
                why = branch_oracle(j, code, dec)
                if why:
                    key = "oracle:%s:branch-target:%s" % (j["op"][0], "backward" if j["bound"] else "forward")
                    fail = "`%s`: %s" % (req, why)
                else:
                    stats["branch_ok"] += 1
        if fail:
            stats["oracle_failures"] += 1
            stats["oracle_keys"][key] = stats["oracle_keys"].get(key, 0) + 1
            ctx.finding(key, dict(kind="oracle", request=req, impl=il[i][:200], spec=spec.get(i), why=fail,
                                  how_to_replay="./check C08 --replay <this file>  (or: echo '<request>' | h_c08 run)"), fail)
    # validation of decoder + spec + printer against LLVM: assembling the requested text must give the same bytes
    if llvm_q:
        uniq = {}
        for i, s, hx in llvm_q:
            uniq.setdefault(s, (i, hx))
        texts = sorted(uniq)
        enc = llvm_assemble(texts)
        if enc is None:
            stats["llvm"]["unavailable"] = True
        else:
            for t, e in zip(texts, enc):
                i, hx = uniq[t]
                stats["llvm"]["texts"] += 1
                if e is None:
                    stats["llvm"]["rejected"] += 1
                    if not unpredictable(t):
                        stats["llvm"]["rejected_unexpected"].append(t)
                elif spec[i] == dec(expand(hx)) and e != hx:
                    stats["llvm"]["mismatch"].append(dict(text=t, llvm=e, impl=hx, request=reqs[i]))
                elif e == hx:
                    stats["llvm"]["agree"] += 1


def unpredictable(t):
    """combinations LLVM refuses as architecturally unpredictable (the decoder still names the instruction)"""
    m = re.fullmatch(r"(stl?xr[bh]?) (w\d+|wzr), ([wx]\d+|[wx]zr), \[(\w+)\]", t)
    if m:
        return m.group(2)[1:] == m.group(3)[1:] or ("x" + m.group(2)[1:]) == m.group(4)
    m = re.fullmatch(r"ldp ([wx]\d+|[wx]zr), ([wx]\d+|[wx]zr), .*", t)
    if m:
        return m.group(1) == m.group(2) or re.search(r"\[%s\]|\[%s, #-?\d+\]!" % ("x" + m.group(1)[1:], "x" + m.group(1)[1:]), t) is not None \
            or re.search(r"\[%s\]|\[%s, #-?\d+\]!" % ("x" + m.group(2)[1:], "x" + m.group(2)[1:]), t) is not None
    m = re.fullmatch(r"stp ([wx]\d+|[wx]zr), ([wx]\d+|[wx]zr), (\[(\w+)\], #-?\d+|\[(\w+), #-?\d+\]!)", t)
    if m:
        base = m.group(4) or m.group(5)
        return base in ("x" + m.group(1)[1:], "x" + m.group(2)[1:])
    m = re.fullmatch(r"cas\w* .*|ld\w+ .*|swp\w* .*", t)
    return False


# ------------------------------------------------------------------------------------------ entry

def regenerate():
    """Regenerate Gen/A64*.lean and the harness dispatch table from /repo's current arm64.rs (used by ./check setup)."""
    os.makedirs(C.BUILD + "/tmp", exist_ok=True)
    rpath = os.path.join(C.BUILD, "tmp", "c08_translate_setup.json")
    with C.FLock("lake"):
        rc, tlog = C.sh(["python3", TRANSLATOR, C.REPO, GEN_DIR, HSRC, rpath], timeout=600)
    if rc != 0:
        raise RuntimeError("translator failed:\n" + tlog[-2000:])

def run(ctx):
    os.makedirs(C.BUILD + "/tmp", exist_ok=True)
    rpath = os.path.join(C.BUILD, "tmp", "c08_translate_%d.json" % os.getpid())
    with C.FLock("lake"):
        rc, tlog = C.sh(["python3", TRANSLATOR, C.REPO, GEN_DIR, HSRC, rpath], timeout=600)
    rep = json.load(open(rpath)) if rc == 0 and os.path.exists(rpath) else None
    if os.path.exists(rpath):
        os.unlink(rpath)
    if rep is None:
        ctx.finding("corr:translate", dict(kind="correspondence", log=tlog[-3000:]),
                    "rs2lean_a64 cannot translate dora-asm/src/arm64.rs any more: %s" % tlog[-300:], no_input=True)
        ctx.write_evidence("proof", dict(obligations=0, discharged=0, checker_cmd="-", trusted_base=[], evaluations=0,
                                         distinct_nontrivial=0, rule="-", samples=[dict(note="translator failed")],
                                         histogram={}, disagreements=0, oracle_failures=0, translator_log=tlog[-2000:]))
        return
    import time
    t_tr = time.time() - ctx.t0
    unmodelled = rep["unmodelled"]
    for u in unmodelled:
        ctx.finding("corr:unmodelled:%s" % u["item"], dict(kind="correspondence", item=u["item"], why=u["why"]),
                    "`%s` (arm64.rs:%s) uses a construct the translator does not model: %s — the tie is broken for it"
                    % (u["item"], u.get("line"), u["why"]), no_input=True)
    extra = []
    for i in range(1, 5):
        extra += C.lean_theorems("DoraModel/Props/C08/Cls%d.lean" % i)
    po = C.proof_obligations(ctx, PROP_MODULE, PROP_FILE, extra_allowed=(BV_AXIOM,), extra_theorems=extra,
                             hygiene_paths=("DoraModel/A64", "DoraModel/Props/C08", PROP_FILE))
    t_po = time.time() - ctx.t0
    drv, dlog = C.lean_exe("drv_c08")
    hbin, hlog = C.build_harness("h_c08")
    t_build = time.time() - ctx.t0
    if hbin is None:
        ctx.finding("corr:build", dict(kind="correspondence", log=hlog[-3000:]),
                    "harness does not build against /repo (public API of dora-asm::arm64 changed?)", no_input=True)
    if drv is None:
        raise RuntimeError("driver build failed:\n" + dlog[-3000:])
    stats = dict(evaluations=0, distinct=set(), samples=[], hist={}, disagreements=0, oracle_failures=0, oracle_keys={},
                 legal_refused=0, legal_refused_by={}, decoded_ok=0, mov_ok=0, mem_ok=0, branch_ok=0,
                 llvm=dict(texts=0, agree=0, rejected=0, rejected_unexpected=[], mismatch=[], unavailable=False))
    if hbin:
        if ctx.replay:
            r = json.load(open(ctx.replay))
            run_requests(ctx, hbin, drv, [r["request"]] if "request" in r else [], "replay", stats, rep)
        else:
            cdir = os.path.join(C.VERIF, "corpus", "C08")
            if os.path.isdir(cdir):
                for f in sorted(os.listdir(cdir)):
                    reqs = [l.strip() for l in open(os.path.join(cdir, f)) if l.strip() and not l.startswith("#")]
                    run_requests(ctx, hbin, drv, reqs, "corpus", stats, rep)
            args = ["120"] if ctx.tier == "quick" else ["4000", "thorough"]
            rc, gen, err = C.sh2([hbin, "gen"] + args, env={"VERIF_SEED": str(ctx.seed)}, timeout=1800)
            reqs = [l for l in gen.splitlines() if l]
            # chunks keep the memory of the response streams bounded in the thorough tier
            for k in range(0, len(reqs), 200000):
                run_requests(ctx, hbin, drv, reqs[k:k + 200000], "gen%d" % k, stats, rep)
    ctx.notes.append("phases (s since start): translate %.0f, proofs+audit %.0f, driver+harness build %.0f, runs %.0f"
                     % (t_tr, t_po, t_build, time.time() - ctx.t0))
    lv = stats["llvm"]
    if lv["unavailable"]:
        ctx.notes.append("llvm-mc not found or its output could not be aligned: decoder/spec NOT validated on this run")
    for mm in lv["mismatch"][:5]:
        stats["oracle_failures"] += 1
        ctx.finding("oracle:llvm:%s" % mm["request"].split(" ")[0], dict(kind="oracle", **mm),
                    "reference decoder/spec and LLVM disagree: `%s` assembles to %s, the assembler emitted %s which the "
                    "decoder reads as the same instruction" % (mm["text"], mm["llvm"], mm["impl"]))
    for t in lv["rejected_unexpected"][:5]:
        stats["oracle_failures"] += 1
        ctx.finding("oracle:llvm-reject:%s" % t.split(" ")[0], dict(kind="oracle", text=t),
                    "LLVM rejects the text of a requested instruction: `%s`" % t)
    if not po["build_ok"] or po["failed"]:
        ctx.finding("proof:C08", dict(kind="proof", failed=po["failed"], log=po.get("build_log_tail", "")),
                    "property theorems of C08 no longer check against the regenerated model: %s"
                    % "; ".join(po["failed"])[:400],
                    no_input=not (stats["disagreements"] or stats["oracle_failures"]))
    hist = {k: dict(emitted=v[0], refused=v[1]) for k, v in sorted(stats["hist"].items())}
    cov = dict(obligations=po["obligations"], discharged=po["discharged"], checker_cmd=po["checker_cmd"],
               trusted_base=po["trusted_base"] + [
                   "bv_decide axioms (`*.bv_decide.ax_*`): natively compiled LRAT checker + CaDiCaL certificate, 32/64-bit facts only",
                   "translator /verif/tools/rs2lean_a64.py (validated by the differential run below, not proved)",
                   "reference decoder A64/Dec.lean and spec A64/Spec.lean: hand-written, validated against llvm-mc 14 on this run",
                   "harness h_c08, driver drv_c08, checks/c08.py"],
               theorems=po["theorems"],
               translated_items=rep["counts"]["translated"], unmodelled=[u["item"] for u in unmodelled],
               public_methods=rep["counts"]["methods"],
               evaluations=stats["evaluations"], distinct_nontrivial=len(stats["distinct"]),
               rule="requests from `h_c08 gen` (seeded): every public method of AssemblerArm64 x register numbers "
                    "{0,1,7,8,15,16,17,29,30,31,100=zr,101=sp,+1 random} (all 0..31,100,101 in thorough) x boundary+random "
                    "immediates x all Cond/Shift/Extend; encodable+non-encodable logical immediates; 5^4 half-word patterns "
                    "for mov_imm; label scripts at distances around the imm14/imm19/imm21/imm26 limits, forward/backward; "
                    "non-trivial = emitted (not refused) and uses a register >= 16 / zr / sp, or is a script",
               histogram=dict(methods=len(hist), emitted=sum(v["emitted"] for v in hist.values()),
                              refused=sum(v["refused"] for v in hist.values()), per_method=hist),
               samples=stats["samples"] or [dict(note="no sample")],
               disagreements=stats["disagreements"], oracle_failures=stats["oracle_failures"],
               oracle_failure_keys=stats["oracle_keys"],
               decoded_equals_spec=stats["decoded_ok"], mov_sequences_ok=stats["mov_ok"], mem_sequences_ok=stats["mem_ok"],
               branch_targets_ok=stats["branch_ok"], legal_but_refused=stats["legal_refused"],
               legal_but_refused_by_method=stats["legal_refused_by"],
               llvm=dict(texts=lv["texts"], agree=lv["agree"], rejected_as_unpredictable=lv["rejected"],
                         rejected_unexpected=lv["rejected_unexpected"][:10], mismatch=lv["mismatch"][:10],
                         available=not lv["unavailable"]))
    ctx.write_evidence("proof", cov, assumptions=[
        "Rust debug-build integer semantics (overflow checks on), as the pinned test profile",
        "Register values other than 0..30, 100, 101 cannot be constructed through the public API (the theorems cover all u8 anyway)",
        "the Dora-language assembler (pkgs/boots/assembler/arm64.dora) is not driven by this check",
        "decoder/spec are a hand-written reading of the Arm ARM, validated against llvm-mc 14 on the emitted instructions only"])
