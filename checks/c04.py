"""C04 — No managed thread runs while the world is stopped.

proof:  lean/DoraModel/Props/C04.lean over the transition system lean/DoraModel/Stw/Model.lean
        (any number of thread slots, every interleaving; one shim operation per step)
tie:    the REAL dora-runtime/src/safepoint.rs and threads.rs are compiled unmodified (harness crate
        c04_realstw: renamed dependency `parking_lot`, a module-local `std` whose `sync::atomic` is the shim's,
        `include!` of the two files, inert stand-ins for gc/handles/mirror/Runtime) against the scheduling shim
        harness/crates/sync_shim and run under a deterministic scheduler; every explored schedule's event trace
        must be accepted step by step by the Lean model (drv_c04) and end in the same state bytes / counts as
        the real objects
oracle: on the real code, per schedule, from inside the closure passed to `stop_the_world`: every other
        registered thread's state byte is ParkedSafepointRequested or Safepoint; no thread's harness-maintained
        `mutating` flag is set; no heap access of a mutator while an operation runs; no two operations at once;
        plus deadlock, a failing assert!/assert_eq!/debug_assert! of the two files, a spinning thread (step
        limit), and a completed run in which a thread or an operation got lost
"""
import json
import os
import shutil

from . import common as C

PROP_MODULE = "DoraModel.Props.C04"
PROP_FILE = "DoraModel/Props/C04.lean"
HYGIENE = ("DoraModel/Stw", PROP_FILE)


def replay_obj(scenario, spur, choices, **kw):
    d = dict(scenario=scenario, spurious_budget=int(spur), choices=choices,
             how_to_replay="./check C04 --replay <this file>   (= h_c04 replay '%s' %s '%s' | head -1 | drv_c04)"
                           % (scenario, spur, choices))
    d.update(kw)
    return d


def run_model(drv, reqfile):
    with open(reqfile) as f:
        rc, out, err = C.sh2([drv], stdin=f.read(), timeout=3000)
    lines = out.splitlines()
    stats = {}
    if lines and lines[-1].startswith("#stats"):
        for kv in lines[-1].split()[1:]:
            k, v = kv.split("=")
            stats[k] = int(v)
        lines = lines[:-1]
    return rc, lines, stats, err


def one_replay(ctx, hbin, drv, r, st):
    sc, spur, ch = r["scenario"], str(r.get("spurious_budget", 0)), r.get("choices", "-")
    rc, out, err = C.sh2([hbin, "replay", sc, spur, ch], timeout=300)
    lines = out.splitlines()
    if rc != 0 or len(lines) < 3:
        ctx.finding("corr:replay", dict(kind="correspondence", rc=rc, stderr=err[-2000:]),
                    "h_c04 replay failed (rc=%s)" % rc, no_input=True)
        return
    req, exp = lines[0], lines[1]
    C.log("replay: " + lines[2])
    rc2, model, err2 = C.sh2([drv], stdin=req + "\n", timeout=300)
    ml = model.splitlines()
    st["evaluations"] += 1
    vio = [l for l in lines[3:] if l.startswith("violation ")]
    for v in vio:
        key = v.split(" ")[1]
        st["oracle_failures"] += 1
        ctx.finding(key, replay_obj(sc, spur, ch, kind="oracle", trace=req), v[len("violation "):])
    if not ml or ml[0] != exp:
        st["disagreements"] += 1
        ctx.finding("corr:trace", replay_obj(sc, spur, ch, kind="correspondence", trace=req, impl=exp,
                                             model=ml[0] if ml else "<none>"),
                    "the model does not accept the real protocol's trace: impl=`%s` model=`%s`"
                    % (exp, (ml[0] if ml else "<none>")[:300]), no_input=not vio)
    else:
        C.log("replay: model agrees: " + exp)


def run(ctx):
    if os.path.exists(os.path.join(C.LEAN, PROP_FILE)):
        po = C.proof_obligations(ctx, PROP_MODULE, PROP_FILE, hygiene_paths=HYGIENE)
    else:
        po = dict(obligations=0, discharged=0, checker_cmd="", trusted_base=[], theorems={}, build_ok=False,
                  failed=["%s does not exist" % PROP_FILE], build_log_tail="")
    drv, dlog = C.lean_exe("drv_c04")
    # c04_realstw's build.rs takes the two source files from /repo/dora-runtime/src unless VERIF_C04_SRC names
    # another directory (mutation sanity runs on a scratch copy); cargo rebuilds whenever that variable changes,
    # so a normal run always compiles the real files. A run with the variable set says so, loudly.
    if os.environ.get("VERIF_C04_SRC"):
        C.log("NOTE: VERIF_C04_SRC=%s — this run checks a COPY of safepoint.rs/threads.rs, not /repo" % os.environ["VERIF_C04_SRC"])
        ctx.notes.append("VERIF_C04_SRC=%s: sources under test are not /repo's" % os.environ["VERIF_C04_SRC"])
    hbin, hlog = C.build_harness("h_c04")
    if hbin is None:
        ctx.finding("corr:build", dict(kind="correspondence", log=hlog[-3000:]),
                    "safepoint.rs / threads.rs no longer build against the sync shim and the stand-ins of "
                    "harness/crates/c04/realstw (they use something beyond parking_lot::{Mutex,Condvar}, "
                    "std::sync::atomic::{AtomicBool,AtomicU8,AtomicUsize} and the few items of gc/handle/mirror/"
                    "runtime/stack the stand-ins offer, or an API the harness drives has changed)", no_input=True)
    if drv is None:
        raise RuntimeError("driver build failed:\n" + dlog[-3000:])
    st = dict(evaluations=0, disagreements=0, oracle_failures=0)
    summary = {}
    mstats = {}
    accepted = 0
    tmp = os.path.join(C.BUILD, "tmp", "c04_%d" % os.getpid())
    if hbin and ctx.replay:
        one_replay(ctx, hbin, drv, json.load(open(ctx.replay)), st)
    elif hbin:
        os.makedirs(tmp, exist_ok=True)
        try:
            # corpus: schedules worth re-running first (one per line: <scenario> <spurious budget> <choices>)
            cfile = os.path.join(tmp, "corpus.sched")
            cdir = os.path.join(C.VERIF, "corpus", "C04")
            with open(cfile, "w") as cf:
                if os.path.isdir(cdir):
                    for f in sorted(os.listdir(cdir)):
                        if f.endswith(".sched"):
                            cf.write(open(os.path.join(cdir, f)).read() + "\n")
            rc, out, err = C.sh2([hbin, "run", ctx.tier, tmp, cfile], env={"VERIF_SEED": str(ctx.seed)}, timeout=6000)
            if rc != 0:
                # e.g. the process was aborted by a panic below an `extern "C"` frame outside the guarded call
                ctx.finding("oracle:harness-crash", dict(kind="oracle", rc=rc, stderr=err[-3000:], stdout=out[-1000:]),
                            "h_c04 run died (rc=%d): %s" % (rc, err.strip().splitlines()[-1] if err.strip() else ""),
                            no_input=True)
                summary = {}
            else:
                summary = json.loads(out.strip().splitlines()[-1])
                st["evaluations"] = summary["schedules"]
                reqf = os.path.join(tmp, "traces.req")
                exp = open(os.path.join(tmp, "expected.resp")).read().splitlines()
                sched = open(os.path.join(tmp, "sched.txt")).read().splitlines()
                # oracle failures on the real code
                vio_by_sched = {}
                for line in open(os.path.join(tmp, "violations.jsonl")):
                    if not line.strip():
                        continue
                    v = json.loads(line)
                    st["oracle_failures"] += 1
                    vio_by_sched.setdefault((v["scenario"], str(v["spurious_budget"]), v["choices"]), v["key"])
                    ctx.finding(v["key"], replay_obj(v["scenario"], v["spurious_budget"], v["choices"], kind="oracle",
                                                     trace=v["trace"], mode=v["mode"]),
                                "%s  [scenario %s, choices %s]" % (v["text"], v["scenario"], v["choices"][:120]))
                if summary.get("cut_short"):
                    ctx.notes.append("exploration was cut short after %d violating schedules" % summary.get("violating_schedules", 0))
                # the model must accept every trace and end in the same state
                rcm, ml, mstats, merr = run_model(drv, reqf)
                if rcm != 0 or len(ml) != len(exp):
                    ctx.finding("corr:stream", dict(kind="correspondence", rc_model=rcm, n_traces=len(exp), n_model=len(ml),
                                                    stderr=merr[-2000:]),
                                "drv_c04 did not answer every trace", no_input=True)
                else:
                    for i, (a, b) in enumerate(zip(exp, ml)):
                        if a == b:
                            accepted += 1
                            continue
                        st["disagreements"] += 1
                        sc, spur, ch = sched[i].split(" ")
                        key = vio_by_sched.get((sc, spur, ch))
                        what = "rejects" if b.startswith("reject") else "ends in a different state than"
                        ctx.finding("corr:trace", replay_obj(sc, spur, ch, kind="correspondence", impl=a, model=b,
                                                             property_fails_on_impl=key),
                                    "the model %s the real protocol's trace: impl=`%s` model=`%s`%s"
                                    % (what, a, b[:300], ("; the real code also fails the oracle: " + key) if key else ""),
                                    no_input=key is None)
        finally:
            shutil.rmtree(tmp, ignore_errors=True)
    if not po["build_ok"] or po["failed"]:
        found = st["oracle_failures"] > 0
        ctx.finding("proof:C04", dict(kind="proof", failed=po["failed"], log=po.get("build_log_tail", "")),
                    "property theorems of C04 no longer check: %s" % "; ".join(po["failed"])[:400], no_input=not found)
    dfs = summary.get("dfs", [])
    # the thorough tier also runs 5-thread scenarios (main + 4 children): built-in DFS ones and random ones
    nthreads = "1-4" if ctx.tier == "quick" else "1-5"
    cov = dict(obligations=po["obligations"], discharged=po["discharged"], checker_cmd=po["checker_cmd"],
               trusted_base=po["trusted_base"] + [
                   "hand-written model DoraModel/Stw/Model.lean tied to safepoint.rs/threads.rs by trace acceptance (below)",
                   "harness/crates/sync_shim (deterministic scheduler + shim), h_c04 (+ c04_realstw stand-ins), drv_c04, "
                   "checks/c04.py",
                   "parking_lot mutex/condvar contract (no lost notification, spurious wake-ups possible); "
                   "sequentially consistent interleaving semantics for all atomics (DESIGN §5)",
                   "the harness ops poll / native call / spawn / exit stand for the compiled safepoint poll, the "
                   "trampolines' park/unpark and stdlib.rs spawn_thread/thread_main, which are not executed here"],
               theorems=po["theorems"],
               evaluations=st["evaluations"],
               distinct_nontrivial=summary.get("nontrivial", 0),
               rule="evaluation = one complete schedule of the real stop-the-world protocol with %s managed threads "
                    "under the scheduler (corpus, then DFS over choice lists up to the preemption bound per built-in "
                    "scenario, then VERIF_SEED-derived PCT/uniform random schedules over random scenarios); distinct = "
                    "distinct event trace; non-trivial = the trace contains a completed operation that stopped at least "
                    "one OTHER thread (fetch_or on its state byte) AND at least one slow path (a failed compare_exchange "
                    "of park/unpark, or a wait on cv_wakeup)" % (
                        nthreads + (" (5 = main + 4 children, thorough tier only: spawn tree / chain / fan-out, two "
                                    "concurrent requesters, a non-last thread leaving a 5-entry list; see "
                                    "histogram.traces_threads_5)" if ctx.tier != "quick" else "")),
               traces_validated_against_impl=accepted,
               distinct_traces=summary.get("distinct_traces", 0),
               states=mstats.get("states", 0), transitions=mstats.get("transitions", 0),
               states_note="distinct model states / (state,event) pairs visited while accepting the real traces",
               max_events_per_trace=summary.get("max_events", 0),
               schedules_per_s=summary.get("schedules_per_s", 0),
               dfs=dfs, exhaustive=bool(dfs) and all(d.get("exhaustive") for d in dfs),
               exhaustive_note="true = every scenario's DFS enumerated all schedules within its preemption bound; "
                               "per scenario see dfs[].exhaustive (bounded exhaustiveness only; the unbounded claim "
                               "is the theorems')",
               histogram=summary.get("histogram", {}),
               samples=summary.get("samples") or [dict(note="replay run" if ctx.replay else "no sample")],
               disagreements=st["disagreements"], oracle_failures=st["oracle_failures"])
    ctx.write_evidence("proof", cov, assumptions=[
        "all atomics are modelled and executed with interleaving (SeqCst) semantics; the code uses SeqCst on the state "
        "bytes and Relaxed on index_in_thread_list / next_thread_id / Runtime::state (the first and last only under "
        "the thread-list lock)",
        "the compiled safepoint poll (cmp byte [tld+state],0; jne slow) and the park/unpark placed by the native-call "
        "trampolines are represented by the harness ops `p` and `n`, not executed; that the poll is emitted at every "
        "function entry and loop back-edge is not part of this check",
        "Runtime, handles, TLABs, remembered set and the managed Thread object are inert stand-ins (c04_realstw); "
        "`tlab::make_iterable_current` in remove_current_thread does nothing here",
        "`DoraThread::stop()` / `join()` / `block()` and `Threads::join_all` are not exercised (C09); nobody waits on "
        "cv_join in the model",
        "bounded: " + nthreads + " threads, at most 4 ops per thread, preemption bound 1-3 for the exhaustive part; "
        "the theorems of Props/C04.lean are about any number of threads and every interleaving of the model"])
