"""./check setup — build everything the checks share, offline, from files on disk."""
import os
import re

from . import common as C


def run():
    rc = 0
    exes = re.findall(r'name = "(drv_\w+)"', open(os.path.join(C.LEAN, "lakefile.toml")).read())
    ok, out = C.lean_build(["DoraModel"] + exes, timeout=7200)
    C.log("lean: %s" % ("ok" if ok else "FAILED\n" + out[-3000:]))
    rc |= 0 if ok else 1
    crates = sorted(d for d in os.listdir(os.path.join(C.HARNESS, "crates")) if d != "hutil")
    for c in crates:
        p, out = C.build_harness("h_" + c, timeout=7200)
        C.log("harness h_%s: %s" % (c, "ok" if p else "FAILED\n" + out[-3000:]))
        rc |= 0 if p else 1
    try:
        tc = C.toolchain(need_boots=True, timeout=7200)
        C.log("toolchain: ok (%s)" % tc["dir"])
    except RuntimeError as e:
        C.log("toolchain: FAILED\n%s" % e)
        rc |= 1
    return rc
