"""./check setup — build everything the claimed checks share, offline, from files on disk."""
import json
import os
import re

from . import common as C


def run():
    rc = 0
    claimed = [c["property_id"].lower() for c in json.load(open(os.path.join(C.VERIF, "MANIFEST.json")))["checks"]]
    lk = open(os.path.join(C.LEAN, "lakefile.toml")).read()
    exes = [e for e in re.findall(r'name = "(drv_\w+)"', lk) if e[4:] in claimed]
    mods = ["DoraModel.Props.%s" % c.upper() for c in claimed
            if os.path.exists(os.path.join(C.LEAN, "DoraModel", "Props", c.upper() + ".lean"))]
    # regenerated model files must exist before lake can build (each check regenerates them again)
    for c in claimed:
        mod = __import__("checks." + c, fromlist=["x"])
        if hasattr(mod, "regenerate"):
            try:
                mod.regenerate()
            except Exception as e:  # noqa
                C.log("regenerate %s: %s" % (c, e))
    ok, out = C.lean_build(mods + exes, timeout=7200)
    C.log("lean (%d modules, %d drivers): %s" % (len(mods), len(exes), "ok" if ok else "FAILED\n" + out[-3000:]))
    rc |= 0 if ok else 1
    crates = sorted(d for d in os.listdir(os.path.join(C.HARNESS, "crates"))
                    if d in claimed and os.path.exists(os.path.join(C.HARNESS, "crates", d, "Cargo.toml")))
    for c in crates:
        p, out = C.build_harness("h_" + c, timeout=7200)
        C.log("harness h_%s: %s" % (c, "ok" if p else "FAILED\n" + out[-3000:]))
        rc |= 0 if p else 1
    try:
        tc = C.toolchain(need_boots=True, timeout=7200)
        C.log("toolchain: ok (%s)" % tc["dir"])
    except RuntimeError as e:
        C.log("toolchain: FAILED\n%s" % e)
        rc |= 1
    return rc
