"""./check setup — build everything the claimed checks share, offline, from files on disk."""
import json
import os
import re

from . import common as C


def run():
    rc = 0
    claimed = [c["property_id"].lower() for c in json.load(open(os.path.join(C.VERIF, "MANIFEST.json")))["checks"]]
    lk = open(os.path.join(C.LEAN, "lakefile.toml")).read()
    # drv_c01m, drv_c12mark, … belong to the property whose id they start with
    exes = [e for e in re.findall(r'name = "(drv_\w+)"', lk) if e[4:7] in claimed]
    # Props/C01.lean, Props/C01Masm.lean, …: every property-theorem file whose name starts with a claimed id
    mods = sorted("DoraModel.Props.%s" % f[:-5] for f in os.listdir(os.path.join(C.LEAN, "DoraModel", "Props"))
                  if f.endswith(".lean") and f[:3].lower() in claimed)
    # regenerated model files must exist before lake can build (each check regenerates them again);
    # checks/c01.py, checks/c01_masm.py, …: every check module of a claimed id that has a regenerate()
    for f in sorted(os.listdir(os.path.join(C.VERIF, "checks"))):
        if not (f.endswith(".py") and f[:3] in claimed):
            continue
        mod = __import__("checks." + f[:-3], fromlist=["x"])
        if hasattr(mod, "regenerate"):
            try:
                mod.regenerate()
            except Exception as e:  # noqa
                C.log("regenerate %s: %s" % (f[:-3], e))
    ok, out = C.lean_build(mods + exes, timeout=7200)
    C.log("lean (%d modules, %d drivers): %s" % (len(mods), len(exes), "ok" if ok else "FAILED\n" + out[-3000:]))
    rc |= 0 if ok else 1
    crates = sorted(d for d in os.listdir(os.path.join(C.HARNESS, "crates"))
                    if d[:3] in claimed and os.path.exists(os.path.join(C.HARNESS, "crates", d, "Cargo.toml")))
    for c in crates:
        p, out = C.build_harness("h_" + c, timeout=7200)
        C.log("harness h_%s: %s" % (c, "ok" if p else "FAILED\n" + out[-3000:]))
        rc |= 0 if p else 1
    try:
        tc = C.toolchain(need_boots=True, timeout=7200)
        C.log("toolchain: ok (%s)" % tc["dir"])
    except RuntimeError as e:
        C.log("toolchain: FAILED\n%s" % e)
        rc |= 1
    # the tool chain with the cfg-gated hooks on (heap dumps, mark log): shared by C03 and C12
    try:
        from . import c03
        c03.toolchain_verif(tc)
        C.log("toolchain with hooks: ok")
    except Exception as e:  # noqa
        C.log("toolchain with hooks: FAILED\n%s" % e)
        rc |= 1
    return rc
