"""C10 — Every place a frame can be suspended has a correct-looking stack map.

validator : lean/DoraModel/Artifact/Model.lean `wfArtifact`, run natively (drv_c10) on EVERY artifact
theorems  : lean/DoraModel/Props/C10.lean — an accepted artifact makes the runtime's frame walk find exactly one
            function and a well-formed map at every return address where a collection can see the frame
extraction: tools/artifact_extract.py (+ gcc / llvm-objdump for x86-64 instruction boundaries) — trusted
artifacts : `dora compile -S` of corpus + sampled repository programs x {baseline, optimizing} x {x64, arm64(optimizing)}
self-test : corrupted copies of a real artifact must all be rejected (the validator is not vacuous)
"""
import concurrent.futures as cf
import os
import re
import shutil

from . import common as C

PROP_MODULE = "DoraModel.Props.C10"
PROP_FILE = "DoraModel/Props/C10.lean"
EXTRACT = os.path.join(C.VERIF, "tools", "artifact_extract.py")


def programs(ctx, quick):
    progs = []
    cdir = os.path.join(C.VERIF, "corpus", "C10")
    if os.path.isdir(cdir):
        for f in sorted(os.listdir(cdir)):
            if f.endswith(".dora"):
                progs.append(os.path.join(cdir, f))
    progs.append(os.path.join(C.VERIF, "corpus", "C15", "features", "main.dora"))
    rt = []
    for root, _, fs in os.walk(os.path.join(C.REPO, "test", "rt")):
        for f in sorted(fs):
            if f.endswith(".dora"):
                fp = os.path.join(root, f)
                txt = open(fp, encoding="utf-8", errors="replace").read()
                if "//= ignore" in txt[:400] or "//= file" in txt[:400] or "fn main" not in txt:
                    continue
                rt.append(fp)
    rt.sort()
    rng = ctx.rng()
    if not quick:
        rng.shuffle(rt)
        return progs + rt[:400]
    # quick tier: every program of test/rt/ref (references to every value shape, incl. zero-sized ones: the shapes whose
    # stack-map entries are special-cased in the code generators), and one seeded pick from every other directory of
    # test/rt (33 directories: a stratified sample instead of ten programs drawn from the whole corpus)
    by_dir = {}
    for fp in rt:
        by_dir.setdefault(os.path.relpath(fp, os.path.join(C.REPO, "test", "rt")).split(os.sep)[0], []).append(fp)
    others = [d for d in sorted(by_dir) if d not in ("ref", "bench", "whiteboard")]
    rng.shuffle(others)
    for d in sorted(others[:12]):
        progs.append(rng.choice(by_dir[d]))
    # (path, variants): the reference programs go through the baseline generator (whose stack maps are built per function
    # from the register types), a third of them also through the optimizing one
    refs = sorted(by_dir.get("ref", []))
    both = set(rng.sample(refs, min(9, len(refs))))
    progs += [(fp, ("cannon-x64", "boots-x64") if fp in both else ("cannon-x64",)) for fp in refs]
    return progs


def corruptions(lines):
    """Yield (name, corrupted artifact lines). Each must be rejected."""
    idx_gcp = [i for i, l in enumerate(lines) if l.startswith("gcp ") and " o -" in l]
    idx_call = [i for i, l in enumerate(lines) if re.match(r"call \d+ \d+ (managed|runtime_entry|alloc|safepoint|indirect) ", l)]
    idx_fn = [i for i, l in enumerate(lines) if l.startswith("fn ")]
    out = []
    if idx_call:
        # drop the stack map that belongs to a mapped call of an optimized function
        for ci in idx_call:
            p = lines[ci].split()
            fn, ret = p[1], p[2]
            fl = next(l for l in lines if l.startswith("fn %s " % fn))
            if fl.split()[2] != "optimized":
                continue
            gi = [i for i, l in enumerate(lines) if l.startswith("gcp %s %s " % (fn, ret))]
            if gi:
                out.append(("missing-map", lines[:gi[0]] + lines[gi[0] + 1:]))
                break
    if idx_gcp:
        i = idx_gcp[len(idx_gcp) // 2]
        out.append(("positive-slot", lines[:i] + [re.sub(r" o -(\d+)", r" o \1", lines[i], count=1)] + lines[i + 1:]))
        out.append(("unaligned-slot", lines[:i] + [re.sub(r" o -(\d+)", lambda m: " o -%d" % (int(m.group(1)) + 4), lines[i], count=1)] + lines[i + 1:]))
        out.append(("slot-named-twice", lines[:i] + [re.sub(r" o (-\d+)", r" o \1 \1", lines[i], count=1)] + lines[i + 1:]))
        out.append(("slot-below-frame", lines[:i] + [re.sub(r" o -(\d+)", lambda m: " o -%d" % (int(m.group(1)) + 8 * 100000), lines[i], count=1)] + lines[i + 1:]))
    if len(idx_fn) >= 2:
        i = idx_fn[1]
        p = lines[i].split()
        p[3] = str(int(p[3]) - 1)       # start one byte inside the previous function
        out.append(("overlapping-ranges", lines[:i] + [" ".join(p)] + lines[i + 1:]))
    # swap two consecutive gcpoints of one function
    for a, b in zip(idx_gcp, idx_gcp[1:]):
        if b == a + 1 and lines[a].split()[1] == lines[b].split()[1]:
            sw = list(lines)
            sw[a], sw[b] = sw[b], sw[a]
            out.append(("unsorted-gcpoints", sw))
            break
    return out


def run(ctx):
    quick = ctx.tier == "quick"
    po = C.proof_obligations(ctx, PROP_MODULE, PROP_FILE, hygiene_paths=("DoraModel/Artifact", PROP_FILE))
    drv, dlog = C.lean_exe("drv_c10")
    if drv is None:
        raise RuntimeError("driver build failed:\n" + dlog[-3000:])
    tc = C.toolchain(need_boots=True)
    work = os.path.join(C.BUILD, "tmp", "c10_%d" % os.getpid())
    shutil.rmtree(work, ignore_errors=True)
    os.makedirs(work)
    variants = [("cannon-x64", ["--cannon"], "x64"), ("boots-x64", [], "x64"), ("boots-arm64", ["--target", "arm64"], "arm64")]
    if not quick:
        variants += [("cannon-x64-copy", ["--cannon", "--gc", "copy"], "x64"), ("boots-x64-sweep", ["--gc", "sweep"], "x64"),
                     ("boots-arm64-copy", ["--target", "arm64", "--gc", "copy"], "arm64")]
    progs = programs(ctx, quick)
    jobs = []
    for p in progs:
        only = None
        if isinstance(p, tuple):
            p, only = p
        jobs += [(p, v) for v in variants if only is None or v[0] in only]
    stats = dict(artifacts=0, ok=0, rejected=0, compile_failed=0, fns=0, mapped_calls=0, gcpoints=0, slots=0,
                 selftest=0, selftest_rejected=0, samples=[], per_variant={})
    first_art = {}

    def one(job):
        p, (vn, flags, arch) = job
        base = os.path.join(work, "%s_%s" % (re.sub(r"\W", "_", os.path.relpath(p, "/"))[-60:], vn))
        rc, out = C.sh([tc["dora"], "compile", "-S"] + flags + [p, "-o", base], cwd=work, timeout=300)
        s = base + ".s" if os.path.exists(base + ".s") else base
        if rc != 0 or not os.path.isfile(s):
            return (p, vn, arch, None, "compile failed: " + out[-300:].replace("\n", " "))
        rc, art, err = C.sh2(["python3", EXTRACT, arch, work, s], timeout=600)
        os.unlink(s)
        if rc != 0:
            return (p, vn, arch, None, "extract failed: " + err[-300:])
        return (p, vn, arch, art, None)

    with cf.ThreadPoolExecutor(max_workers=12) as ex:
        results = list(ex.map(one, jobs))
    for (p, vn, arch, art, err) in results:
        if art is None:
            if err.startswith("compile failed"):
                stats["compile_failed"] += 1      # program is not compilable by this back end: not a C10 matter
                ctx.notes.append("%s %s: %s" % (os.path.relpath(p, "/"), vn, err[:160]))
                continue
            ctx.finding("corr:extract:%s" % vn, dict(kind="correspondence", program=p, variant=vn, error=err),
                        "artifact of %s (%s) could not be read: %s" % (p, vn, err), no_input=True)
            continue
        rc, out, e2 = C.sh2([drv], stdin=art, timeout=600)
        verdict = out.strip().splitlines()[-1] if out.strip() else "no answer " + e2[-200:]
        stats["artifacts"] += 1
        pv = stats["per_variant"].setdefault(vn, dict(ok=0, rejected=0))
        if verdict.startswith("ok "):
            stats["ok"] += 1
            pv["ok"] += 1
            m = dict(kv.split("=") for kv in verdict.split()[1:])
            for k in ("fns", "mapped_calls", "gcpoints", "slots"):
                stats[k] += int(m[k])
            if vn not in first_art and int(m["mapped_calls"]) > 0:
                first_art[vn] = art
            if len(stats["samples"]) < 4:
                stats["samples"].append(dict(program=os.path.relpath(p, "/"), variant=vn, verdict=verdict))
        else:
            stats["rejected"] += 1
            pv["rejected"] += 1
            rule = re.sub(r"\d+", "N", verdict)[:80]
            ctx.finding("oracle:reject:%s:%s" % (vn, re.sub(r"[^A-Za-z]+", "-", rule.split(":")[-1])[:50]),
                        dict(kind="oracle", program=p, variant=vn, verdict=verdict,
                             how_to_replay="dora compile -S %s <program>; python3 tools/artifact_extract.py %s . out.s | lean/.lake/build/bin/drv_c10" % (vn, arch)),
                        "artifact rejected: %s %s: %s" % (os.path.relpath(p, "/"), vn, verdict[:300]))
    # validator self-test on one real artifact per variant
    for vn, art in first_art.items():
        lines = art.strip().splitlines()
        for name, bad in corruptions(lines):
            stats["selftest"] += 1
            rc, out, e2 = C.sh2([drv], stdin="\n".join(bad) + "\n", timeout=120)
            if out.strip().startswith("reject"):
                stats["selftest_rejected"] += 1
            else:
                ctx.finding("corr:selftest:%s" % name, dict(kind="correspondence", variant=vn, corruption=name, verdict=out.strip()[:200]),
                            "validator accepted a corrupted artifact (%s, %s)" % (name, vn), no_input=True)
    shutil.rmtree(work, ignore_errors=True)
    if not po["build_ok"] or po["failed"]:
        ctx.finding("proof:C10", dict(kind="proof", failed=po["failed"], log=po.get("build_log_tail", "")),
                    "validator soundness theorems of C10 no longer check: %s" % "; ".join(po["failed"])[:400],
                    no_input=(stats["rejected"] == 0))
    cov = dict(programs=stats["artifacts"], disagreements_checked=stats["selftest"],
               samples=stats["samples"] or [dict(note="none")],
               obligations=po["obligations"], discharged=po["discharged"], checker_cmd=po["checker_cmd"],
               trusted_base=po["trusted_base"] + ["tools/artifact_extract.py", "gcc -c, llvm-objdump (x86-64 instruction boundaries)",
                                                  "consumer model (CodeMap::get, GcPointTable::get, iterate_roots_from_stack_frame) transcribed by hand"],
               theorems=po["theorems"],
               evaluations=stats["artifacts"], distinct_nontrivial=stats["ok"] + stats["rejected"],
               rule="one case = the `.s` of one program for one (code generator, target[, collector]); every artifact contains the "
                    "reachable part of the standard library and all trampolines; non-trivial = has >= 1 call that needs a stack map",
               accepted=stats["ok"], rejected=stats["rejected"], not_compilable=stats["compile_failed"],
               functions_validated=stats["fns"], mapped_calls=stats["mapped_calls"], gcpoints=stats["gcpoints"],
               slots=stats["slots"], per_variant=stats["per_variant"],
               validator_selftest=dict(corrupted=stats["selftest"], rejected=stats["selftest_rejected"]),
               explanation="translation validation: each emitted artifact is checked by the Lean validator whose soundness "
                           "(w.r.t. the model of the runtime's frame walk) is proved; disagreements_checked counts corrupted "
                           "artifacts fed to the validator as a self-test")
    ctx.write_evidence("translation_validation", cov, assumptions=[
        "that the LISTED slots are exactly the live references is not decidable statically (covered dynamically by C03 under gc-stress)",
        "frame extension at a call is tracked per basic block (push/pop/sub rsp), assuming blocks start at the static frame size",
        "call classes come from relocation symbols"])
