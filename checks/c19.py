"""C19 — Distinct functions get distinct, valid linker symbols.

proof:  lean/DoraModel/Props/C19.lean over the model lean/DoraModel/Symbol/Model.lean
tie:    hand model + correspondence: h_c19 (real dora-symbol) vs drv_c19 (Lean model) on the same requests
oracle: on the implementation's own answers: round trip, charset, length cap, determinism
"""
import os
import re

from . import common as C

PROP_MODULE = "DoraModel.Props.C19"
PROP_FILE = "DoraModel/Props/C19.lean"


def unhex(s):
    return b"" if s == "-" else bytes.fromhex(s)


def oracle(req, resp):
    """Decidable form of the property evaluated on the implementation's answer. None = fine."""
    p = req.split(" ")
    if resp.startswith("!panic"):
        if p[0] == "capped" and int(p[2]) < 34:
            return None          # documented assert: refused, not mis-shortened
        return "panic: " + resp
    if resp.startswith("!"):
        return None
    if p[0] in ("mangle", "capped"):
        out = unhex(resp)
        if not re.fullmatch(rb"[A-Za-z_][A-Za-z0-9_]*", out):
            return "symbol has a character outside [A-Za-z0-9_] or starts with a digit"
        if p[0] == "capped" and len(out) > int(p[2]):
            return "symbol longer than the cap"
    return None


def run_requests(ctx, hbin, drv, reqs, label, stats):
    os.makedirs(C.BUILD + "/tmp", exist_ok=True)
    rf = os.path.join(C.BUILD, "tmp", "c19_%s_%d.req" % (label, os.getpid()))
    open(rf, "w").write("\n".join(reqs) + "\n")
    rc1, impl, err1 = C.sh2([hbin, "run", rf], timeout=600)
    rc2, model, err2 = C.sh2([drv], stdin="\n".join(reqs) + "\n", timeout=600)
    os.unlink(rf)
    il = impl.splitlines()
    ml = model.splitlines()
    if rc1 != 0 or rc2 != 0 or len(il) != len(reqs) or len(ml) != len(reqs):
        ctx.finding("corr:stream", dict(kind="correspondence", detail="response streams incomplete",
                                        rc_impl=rc1, rc_model=rc2, n_req=len(reqs), n_impl=len(il),
                                        n_model=len(ml), stderr=(err1 + err2)[-2000:]),
                    "harness or driver did not answer every request", no_input=True)
        return
    seen_mangled = {}
    for i, req in enumerate(reqs):
        stats["evaluations"] += 1
        p = req.split(" ")
        stats["hist"][p[0]] = stats["hist"].get(p[0], 0) + 1
        nontrivial = False
        if p[0] in ("mangle", "capped"):
            name = unhex(p[1])
            esc = any(not (chr(b).isalnum() and b < 128) for b in name)
            crossing = p[0] == "capped" and len(unhex(il[i])) == int(p[2]) if not il[i].startswith("!") else True
            nontrivial = esc or crossing
            if esc:
                stats["hist"]["with_escape"] = stats["hist"].get("with_escape", 0) + 1
            if p[0] == "capped" and not il[i].startswith("!") and b"_H" in unhex(il[i])[-34:-32]:
                stats["hist"]["shortened"] = stats["hist"].get("shortened", 0) + 1
        else:
            nontrivial = il[i] == "none" or "5f" in p[1]
            if il[i] == "none":
                stats["hist"]["demangle_refused"] = stats["hist"].get("demangle_refused", 0) + 1
        if nontrivial:
            stats["distinct"].add(req)
        if len(stats["samples"]) < 4 and nontrivial and i % 97 == 0:
            stats["samples"].append(dict(request=req, impl=il[i], model=ml[i]))
        if il[i] != ml[i]:
            stats["disagreements"] += 1
            o = oracle(req, il[i])
            ctx.finding("corr:%s" % p[0],
                        dict(kind="correspondence", request=req, impl=il[i], model=ml[i], oracle=o,
                             how_to_replay="./check C19 --replay <this file>"),
                        "model and implementation disagree on `%s`: impl=%s model=%s%s"
                        % (req[:120], il[i][:80], ml[i][:80], ("; property fails on the implementation: " + o) if o else ""),
                        no_input=(o is None))
            continue
        o = oracle(req, il[i])
        if o:
            stats["oracle_failures"] += 1
            ctx.finding("oracle:%s" % p[0], dict(kind="oracle", request=req, impl=il[i], why=o), o)
        # injectivity / round trip on the implementation's own answers
        if p[0] == "mangle" and not il[i].startswith("!"):
            prev = seen_mangled.get(il[i])
            if prev is not None and prev != p[1]:
                stats["oracle_failures"] += 1
                ctx.finding("oracle:collision", dict(kind="oracle", a=prev, b=p[1], symbol=il[i]),
                            "two different names mangle to the same symbol")
            seen_mangled[il[i]] = p[1]


def program_symbols(ctx, drv, stats):
    """Per-program leg: the global function symbols of emitted assembly are pairwise distinct, well-formed, within the
    cap, and (when not shortened) round-trip through the Lean model: mangle(demangle(sym)) = sym."""
    import shutil
    tc = C.toolchain(need_boots=True)
    work = os.path.join(C.BUILD, "tmp", "c19_%d" % os.getpid())
    shutil.rmtree(work, ignore_errors=True)
    os.makedirs(work)
    progs = [os.path.join(C.VERIF, "corpus", "C19", f) for f in sorted(os.listdir(os.path.join(C.VERIF, "corpus", "C19")))
             if f.endswith(".dora")]
    progs.append(os.path.join(C.VERIF, "corpus", "C15", "features", "main.dora"))
    if ctx.tier != "quick":
        rt = []
        for root, _, fs in os.walk(os.path.join(C.REPO, "test", "rt")):
            for f in sorted(fs):
                fp = os.path.join(root, f)
                if f.endswith(".dora") and "fn main" in open(fp, errors="replace").read() and "//= ignore" not in open(fp, errors="replace").read(300):
                    rt.append(fp)
        rng = ctx.rng()
        rng.shuffle(rt)
        progs += rt[:150]
    stats["programs"] = 0
    stats["symbols"] = 0
    stats["shortened_symbols"] = 0
    for p in progs:
        for (vn, flags) in (("cannon", ["--cannon"]), ("boots", [])):
            base = os.path.join(work, "o")
            rc, out = C.sh([tc["dora"], "compile", "-S"] + flags + [p, "-o", base], cwd=work, timeout=600)
            sfile = base + ".s" if os.path.exists(base + ".s") else base
            if rc != 0 or not os.path.isfile(sfile):
                ctx.notes.append("C19 program leg: %s (%s) does not compile: %s" % (os.path.basename(p), vn, out[-120:].replace("\n", " ")))
                continue
            labels = re.findall(r"^([A-Za-z_.$][\w.$]*):\s*$", open(sfile).read(), flags=re.M)
            os.unlink(sfile)
            syms = [l for l in labels if l.startswith("dora_") and not l.startswith("dora_aot_") and l not in
                    ("dora_entry_trampoline", "dora_global_memory", "dora_global_memory_end", "dora_gc_collector")]
            stats["programs"] += 1
            stats["symbols"] += len(syms)
            seen = {}
            for l in labels:
                if l in seen:
                    stats["oracle_failures"] += 1
                    ctx.finding("oracle:duplicate-symbol:" + os.path.basename(p)[:-5], dict(kind="oracle", program=p, variant=vn, symbol=l),
                                "%s (%s): the symbol %s is defined twice — two functions got the same linker symbol" % (os.path.basename(p), vn, l[:120]))
                seen[l] = 1
            reqs = []
            for sname in syms:
                if not re.fullmatch(r"[A-Za-z_][A-Za-z0-9_]*", sname) or len(sname) > 200:
                    stats["oracle_failures"] += 1
                    ctx.finding("oracle:bad-symbol", dict(kind="oracle", program=p, variant=vn, symbol=sname),
                                "symbol outside the character set or longer than the cap: %s" % sname[:150])
                if len(sname) == 200 and re.search(r"_H[0-9A-F]{32}$", sname):
                    stats["shortened_symbols"] += 1
                else:
                    reqs.append("demangle " + sname.encode().hex())
            rc2, model, err2 = C.sh2([drv], stdin="\n".join(reqs) + "\n", timeout=300)
            names = model.splitlines()
            back = ["mangle " + n for n in names if n != "none"]
            rc3, model2, err3 = C.sh2([drv], stdin="\n".join(back) + "\n", timeout=300)
            remangled = iter(model2.splitlines())
            dn = {}
            for rq, n in zip(reqs, names):
                symhex = rq.split(" ")[1]
                if n == "none":
                    stats["oracle_failures"] += 1
                    ctx.finding("oracle:symbol-does-not-demangle", dict(kind="oracle", program=p, variant=vn, symbol=bytes.fromhex(symhex).decode()),
                                "an unshortened symbol does not demangle: %s" % bytes.fromhex(symhex).decode()[:150])
                    continue
                if next(remangled) != symhex:
                    stats["oracle_failures"] += 1
                    ctx.finding("oracle:symbol-not-canonical", dict(kind="oracle", program=p, variant=vn, symbol=bytes.fromhex(symhex).decode()),
                                "mangle(demangle(symbol)) differs from the symbol")
                if n in dn and dn[n] != symhex:
                    stats["oracle_failures"] += 1
                dn[n] = symhex
    shutil.rmtree(work, ignore_errors=True)


def run(ctx):
    po = C.proof_obligations(ctx, PROP_MODULE, PROP_FILE, hygiene_paths=("DoraModel/Symbol", PROP_FILE))
    drv, dlog = C.lean_exe("drv_c19")
    hbin, hlog = C.build_harness("h_c19")
    if hbin is None:
        ctx.finding("corr:build", dict(kind="correspondence", log=hlog[-3000:]),
                    "harness does not build against /repo (API of dora-symbol changed?)", no_input=True)
    if drv is None:
        raise RuntimeError("driver build failed:\n" + dlog[-3000:])
    stats = dict(evaluations=0, distinct=set(), samples=[], hist={}, disagreements=0, oracle_failures=0)
    if hbin:
        if ctx.replay:
            import json
            r = json.load(open(ctx.replay))
            reqs = [r["request"]] if "request" in r else []
            run_requests(ctx, hbin, drv, reqs, "replay", stats)
        else:
            cdir = os.path.join(C.VERIF, "corpus", "C19")
            if os.path.isdir(cdir):
                for f in sorted(os.listdir(cdir)):
                    if not f.endswith(".req"):
                        continue
                    reqs = [l.strip() for l in open(os.path.join(cdir, f)) if l.strip()]
                    run_requests(ctx, hbin, drv, reqs, "corpus", stats)
            n = 3000 if ctx.tier == "quick" else 200000
            rc, gen, err = C.sh2([hbin, "gen", str(n)], env={"VERIF_SEED": str(ctx.seed)}, timeout=600)
            reqs = [l for l in gen.splitlines() if l]
            run_requests(ctx, hbin, drv, reqs, "gen", stats)
            program_symbols(ctx, drv, stats)
    # proof side: a theorem that no longer checks is a violation even if no input was found
    if not po["build_ok"] or po["failed"]:
        found_input = stats["disagreements"] > 0 or stats["oracle_failures"] > 0
        ctx.finding("proof:C19", dict(kind="proof", failed=po["failed"], log=po.get("build_log_tail", "")),
                    "property theorems of C19 no longer check: %s" % "; ".join(po["failed"])[:400],
                    no_input=not found_input)
    cov = dict(obligations=po["obligations"], discharged=po["discharged"], checker_cmd=po["checker_cmd"],
               trusted_base=po["trusted_base"] + [
                   "hand-written model DoraModel/Symbol/Model.lean tied by the correspondence run below",
                   "harness h_c19, driver drv_c19, checks/c19.py",
                   "String::from_utf8 (Rust std) is outside the model"],
               theorems=po["theorems"],
               evaluations=stats["evaluations"], distinct_nontrivial=len(stats["distinct"]),
               rule="requests from `h_c19 gen` (seeded): fixed names, every char below U+0300, random names of "
                    "words/separators/multi-byte chars with mangled length on both sides of the cap, caps "
                    "{34, 35..44, <34, len±1, 200}, damaged symbols for demangle; non-trivial = name contains a "
                    "byte that needs an escape, or the cap is hit, or demangle input has an escape/is refused",
               histogram=stats["hist"], samples=stats["samples"] or [dict(note="no sample")],
               disagreements=stats["disagreements"], oracle_failures=stats["oracle_failures"],
               program_leg=dict(artifacts=stats.get("programs", 0), symbols=stats.get("symbols", 0),
                                shortened=stats.get("shortened_symbols", 0)))
    ctx.write_evidence("proof", cov, assumptions=[
        "names are byte strings in the model; Rust only passes valid UTF-8",
        "the model is hand-written; agreement with dora-symbol is checked on the generated requests only"])
