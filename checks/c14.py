"""C14 — A trap report names what failed and where.

proof   : lean/DoraModel/Props/C14.lean — `LocationTable::get` returns exactly the entry recorded for a return offset;
          the inline expansion of `dump_stack_elem` terminates on forest-shaped tables and prints exactly the path of
          inlined callers, innermost first; soundness of the table validator `wfTrace`.
oracle  : gen/c14_traps.py — programs in which exactly one operation fails at a known line inside a known call chain
          (plain / generic / method / static / trait-object / closure / inlinable callees, depth 1-4, every trapping
          kind that can be written in Dora), compiled with BOTH code generators (thorough: also `--gc copy`);
          first stderr line, exit status, frame lines (compiler-generated thunks are transparent) and stdout
          (incl. a partial last line) must be the expected ones; the two back ends must print the same report.
mini    : the S-expression twin of every scenario is run by the Lean reference interpreter (drv_c14 links
          DoraModel.Mini.Eval); its (ending, stdout, call chain with lines) must equal the generator's expectation.
tie     : the executable is linked from the very `.s` the compiler emitted (`dora compile -S`, then gcc as
          dora/src/driver/compile.rs does); the Lean validator runs on its tables, and the frames the Lean model of
          `dump_stack_elem` predicts for call sites of that artifact must reproduce the printed trace group by group.
lookup  : the BYTECODE-level lookup the baseline code generator uses (`BytecodeBody::offset_location`) and its producer
          (`BytecodeWriter::emit_location`): h_c14 (real dora-bytecode) vs drv_c14 (lean/DoraModel/Trace/Bytecode.lean) on
          generated position tables (every offset from 0 to last + 2) and instruction sequences; on the implementation's
          own answers the two statements of Props/C14 are evaluated (greatest offset <= q; every location-needing
          instruction is answered with the location set for it).
"""
import concurrent.futures as cf
import hashlib
import json
import os
import re
import shutil
import sys
import time

from . import common as C

sys.path.insert(0, os.path.join(C.VERIF, "gen"))
import c14_traps as G  # noqa: E402
import progs as GP  # noqa: E402

PROP_MODULE = "DoraModel.Props.C14"
PROP_FILE = "DoraModel/Props/C14.lean"
EXTRACT = os.path.join(C.VERIF, "tools", "c14_extract.py")
CACHE_VERSION = "3"
WORKERS = 12
RUN_TIMEOUT = 60

FRAME_RE = re.compile(r"^    (.*) \((.*):(\d+):(\d+)\)$")
THUNK_RE = re.compile(r"^(?!<).* for .+ as .+$")          # `Tr::m for K as Tr`, `std::callable::Fn2::call[..] for $Lambda1Env as Fn2[..]`
LAMBDA_RE = re.compile(r"^<impl(\[.*\])? Fn\d+\[.*\] for \$Lambda\d+Env(\[.*\])?>::call$")   # `[X]` when created inside a generic function


# --------------------------------------------------------------------------------------------- building and running
def file_hash(*paths):
    h = hashlib.sha256()
    for p in paths:
        h.update(open(p, "rb").read())
    return h.hexdigest()[:12]


def build_one(tc, cache_dir, work, prog, be, bflags, gc, gflags, need_art):
    """compile `prog` with one back end / collector, run every scenario, extract the artifact tables. Cached."""
    key = hashlib.sha256(("%s|%s|%s|%s|%s" % (CACHE_VERSION, prog.dora, be, gc, need_art)).encode()).hexdigest()[:24]
    cpath = os.path.join(cache_dir, key + ".json")
    if os.path.exists(cpath):
        try:
            res = json.load(open(cpath))
            res["cached"] = True
            return res
        except Exception:
            pass
    d = os.path.join(work, "%s_%s_%s" % (prog.name, be, gc))
    shutil.rmtree(d, ignore_errors=True)
    os.makedirs(d)
    res = dict(program=prog.name, backend=be, gc=gc, compile_ok=False, log="", runs={}, art=None, art_err=None, cached=False)
    open(os.path.join(d, "p.dora"), "w").write(prog.dora)
    bind = os.path.dirname(tc["dora"])
    t0 = time.time()
    rc, out = C.sh([tc["dora"], "compile", "-S"] + bflags + gflags + ["p.dora", "-o", "p.s"], cwd=d, timeout=900)
    if rc != 0 or not os.path.exists(os.path.join(d, "p.s")):
        res["log"] = "dora compile -S: rc=%s %s" % (rc, out[-1500:])
        shutil.rmtree(d, ignore_errors=True)
        return res
    # the two steps dora/src/driver/compile.rs performs after writing the assembly
    rc, out = C.sh(["gcc", "-c", "p.s", "-o", "p.o"], cwd=d, timeout=600)
    if rc == 0:
        rc, out = C.sh(["gcc", "p.o", os.path.join(bind, "libdora_startup.a"), os.path.join(bind, "libdora_runtime.a"),
                        "-Wl,-x", "-lpthread", "-ldl", "-lm", "-o", "p"], cwd=d, timeout=600)
    if rc != 0 or not os.path.exists(os.path.join(d, "p")):
        res["log"] = "assemble/link: rc=%s %s" % (rc, out[-1500:])
        shutil.rmtree(d, ignore_errors=True)
        return res
    res["compile_ok"] = True
    res["compile_s"] = round(time.time() - t0, 1)
    for sc in prog.scenarios:
        args = [sc.arg] if sc.arg is not None else []
        rc, o, e = C.sh2(["./p"] + args, cwd=d, timeout=RUN_TIMEOUT)
        if rc == 124 or rc < 0 or rc >= 128:
            rc2, o2, e2 = C.sh2(["./p"] + args, cwd=d, timeout=4 * RUN_TIMEOUT)   # a loaded machine is not a verdict
            if rc2 != rc:
                rc, o, e = rc2, o2, e2
        res["runs"][sc.arg or "-"] = dict(rc=rc, out=o, err=e)
    if need_art:
        rc, art, err = C.sh2(["python3", EXTRACT, "x64", d, os.path.join(d, "p.s")], timeout=900)
        if rc == 0:
            res["art"] = art
        else:
            res["art_err"] = err[-600:]
    shutil.rmtree(d, ignore_errors=True)
    try:                                  # the cache is a convenience: never let it decide the outcome of a run
        os.makedirs(cache_dir, exist_ok=True)
        tmp = cpath + ".tmp%d_%d" % (os.getpid(), abs(hash(key)) % 100000)
        json.dump(res, open(tmp, "w"))
        os.replace(tmp, cpath)
    except OSError:
        pass
    return res


# --------------------------------------------------------------------------------------------- reading reports
def parse_report(err):
    """(message, [frame dict(fn, file, line, col)], rest) from stderr"""
    lines = err.splitlines()
    msg = lines[0] if lines else ""
    frames = []
    rest = []
    for l in lines[1:]:
        m = FRAME_RE.match(l)
        if m:
            frames.append(dict(fn=m.group(1), file=m.group(2), line=int(m.group(3)), col=int(m.group(4))))
        else:
            rest.append(l)
    return msg, frames, rest


def user_frames(frames):
    return [f for f in frames if not THUNK_RE.match(f["fn"])]


def thunk_frames(frames):
    return [f["fn"] for f in frames if THUNK_RE.match(f["fn"])]


def frame_matches(exp, got):
    """(name ok, line ok) of one printed frame against the expectation"""
    if exp.get("loose"):
        # random-program leg: the interpreter knows the bare name; the display name must contain it as a component
        if exp["mini"] == "<lambda>":
            name_ok = bool(LAMBDA_RE.match(got["fn"])) or "$Lambda" in got["fn"]
        else:
            name_ok = bool(re.search(r"(^|::)%s(\[|$)" % re.escape(exp["mini"]), got["fn"]))
        return name_ok and got["file"] == "p.dora", got["line"] == exp["line"]
    if exp["std"]:
        name_ok = bool(re.match(exp["rx"], got["fn"])) and got["file"].endswith(exp["file"])
    elif exp["fn"] == "<lambda>":
        name_ok = bool(LAMBDA_RE.match(got["fn"])) and got["file"] == "p.dora"
    else:
        name_ok = got["fn"] == exp["fn"] and got["file"] == "p.dora"
    return name_ok, got["line"] == exp["line"]


def compare_frames(expect, got):
    """None if the user-visible frames are the expected chain, else (what, link kind of the expected frame, index)"""
    for i, exp in enumerate(expect):
        if i >= len(got):
            return ("missing-frame", exp["link"], i)
        n_ok, l_ok = frame_matches(exp, got[i])
        if not n_ok:
            return ("wrong-function", exp["link"], i)
        if not l_ok:
            return ("wrong-line", exp["link"], i)
    if len(got) > len(expect):
        return ("extra-frame", "below-main", len(expect))
    return None


# --------------------------------------------------------------------------------------------- artifact tie
def parse_driver_artifact(art_text, drv_out):
    """-> (verdict line, sites [(cls, status, [(name, file, line, col)])], problems)"""
    infos = {}
    for l in art_text.splitlines():
        if l.startswith("finfo "):
            p = l.split(" ")
            infos[int(p[1])] = (bytes.fromhex(p[2]).decode("utf-8", "replace") if p[2] != "-" else "",
                                bytes.fromhex(p[3]).decode("utf-8", "replace") if p[3] != "-" else "")
    verdict = ""
    sites = []
    for l in drv_out.splitlines():
        if l.startswith("verdict "):
            verdict = l[len("verdict "):]
        elif l.startswith("site "):
            p = l.split(" ")
            cls, status, fr = p[3], p[4], p[5]
            frames = []
            if fr != "-":
                for x in fr.split(";"):
                    fi, line, col = x.split(":")
                    nm, fl = infos.get(int(fi), ("?%s" % fi, "?"))
                    frames.append((nm, fl, int(line), int(col)))
            sites.append((cls, status, frames))
    return verdict, sites


def tie_trace(sites, printed, first_classes):
    """Can the printed frames be cut into groups, each group being exactly what the Lean model of `dump_stack_elem`
    prints for SOME call site of the artifact (first group: a call of the class that raises this report, later groups:
    calls of managed / indirect code)? -> (ok, groups, frames that come from inline expansion)"""
    R = [(f["fn"], f["file"], f["line"], f["col"]) for f in printed]
    by_first = {}
    for cls, status, frames in sites:
        if status in ("ok", "noloc") and frames:
            by_first.setdefault(frames[0], []).append((cls, tuple(frames)))
    n = len(R)
    memo = {}

    def go(pos, first):
        if pos == n:
            return []
        key = (pos, first)
        if key in memo:
            return memo[key]
        ans = None
        seen = set()
        for cls, frames in by_first.get(R[pos], []):
            if first and cls not in first_classes:
                continue
            if not first and cls not in ("managed", "indirect", "runtime_entry"):
                continue
            if frames in seen:
                continue
            seen.add(frames)
            k = len(frames)
            if tuple(R[pos:pos + k]) == frames:
                tail = go(pos + k, False)
                if tail is not None:
                    ans = [k] + tail
                    break
        memo[key] = ans
        return ans

    groups = go(0, True)
    if groups is None:
        return False, 0, 0
    return True, len(groups), sum(g - 1 for g in groups)


def corruptions(lines):
    """(name, corrupted artifact lines); every one must be rejected by the validator"""
    out = []
    calls = [l.split() for l in lines if l.startswith("call ") and l.split()[3] == "trap"]
    fn_kind = {l.split()[1]: l.split()[2] for l in lines if l.startswith("fn ")}
    for c in calls:
        if fn_kind.get(c[1]) != "optimized":
            continue
        idx = [i for i, l in enumerate(lines) if l.startswith("loc %s %s " % (c[1], c[2]))]
        if idx:
            out.append(("trap-site-without-location", lines[:idx[0]] + lines[idx[0] + 1:]))
            break
    locs = [i for i, l in enumerate(lines) if l.startswith("loc ")]
    for a, b in zip(locs, locs[1:]):
        if b == a + 1 and lines[a].split()[1] == lines[b].split()[1]:
            sw = list(lines)
            sw[a], sw[b] = sw[b], sw[a]
            out.append(("unsorted-locations", sw))
            dup = list(lines)
            pa, pb = lines[a].split(), lines[b].split()
            pb[2] = pa[2]
            dup[b] = " ".join(pb)
            out.append(("duplicate-offset", dup))
            break
    if locs:
        p = lines[locs[0]].split()
        p[3] = "100000"
        out.append(("inlined-id-out-of-range", lines[:locs[0]] + [" ".join(p)] + lines[locs[0] + 1:]))
        p = lines[locs[0]].split()
        p[2] = "100000000"
        out.append(("location-outside-function", lines[:locs[0]] + [" ".join(p)] + lines[locs[0] + 1:]))
    # a cyclic inlined-function table: first function with >= 1 inlined function gets itself as parent
    rng = [l.split() for l in lines if l.startswith("inlrange ") and int(l.split()[3]) >= 1]
    ti = [i for i, l in enumerate(lines) if l.startswith("inltable")]
    if rng and ti:
        vals = lines[ti[0]].split()[1:]
        s = int(rng[0][2])
        vals[s * 4 + 1] = "0"     # local id 0 names itself as parent
        out.append(("inlined-cycle", lines[:ti[0]] + ["inltable " + " ".join(vals)] + lines[ti[0] + 1:]))
    return out


# --------------------------------------------------------------------------------------------- random programs (gen/progs.py)
class _Obj:
    pass


RANDOM_KINDS = ["overflow", "div0", "shift", "index", "assert", "fatal"]


def random_batches(seed, count, per_batch, only_index=None):
    """typed random programs of gen/progs.py that end in a trap / fatal error, several per compile unit (inline modules,
    member chosen by argv). The reference interpreter is the oracle here: the expected report is filled in from its answer."""
    members = []
    i = 0
    while len(members) < count and i < 4 * count:
        if only_index is not None:
            if i > 0:
                break
            i = only_index - 5000
        p = GP.gen_program(seed, 5000 + i, kind=RANDOM_KINDS[i % len(RANDOM_KINDS)])
        i += 1
        if GP.batchable(p) and p.sexp:
            p.rkind = RANDOM_KINDS[(i - 1) % len(RANDOM_KINDS)]
            p.rindex = 5000 + i - 1
            members.append(p)
    progs = []
    for j in range(0, len(members), per_batch):
        ms = members[j:j + per_batch]
        tp = _Obj()
        tp.name = "c14r%s_%d" % (seed, j // per_batch)
        tp.dora = GP.batch_source(ms)
        lines = tp.dora.splitlines()
        tp.scenarios = []
        for m in ms:
            off = lines.index("mod %s {" % m.name) + 1          # member line L is line off + L of the unit
            sc = _Obj()
            sc.program, sc.arg, sc.sexp, sc.offset = tp, m.name, m.sexp, off
            sc.batch_main_line = lines.index("        %s::main();" % m.name) + 1   # the unit's own `main` calls the member's
            sc.spec = dict(random_program=dict(seed=seed, index=m.rindex, kind=m.rkind), chain=["random"], kind="random-" + m.rkind)
            sc.key = "random/%s" % m.rkind
            sc.random = True
            sc.expect = None
            tp.scenarios.append(sc)
        progs.append(tp)
    return progs


def expectation_from_interpreter(sc, out, outcome, chain):
    """random leg: the expected report is what the reference interpreter says"""
    if outcome.startswith("trap:"):
        cls = outcome[5:]
        if cls not in G.TRAP_MSG:
            return None
        msg, status = G.TRAP_MSG[cls], 101 + G.TRAP_IDS[cls]
    elif outcome.startswith("fatal:"):
        text = bytes.fromhex(outcome[6:]).decode("utf-8", "replace") if outcome[6:] != "-" else ""
        if text == "unreachable code executed.":
            cls, msg, status = "unreachable", text, 1
        else:
            cls, msg, status = "fatal", "fatal error: " + text, 1
    else:
        return None
    frames = [dict(std=False, loose=True, mini=fn, fn=fn, line=line + sc.offset, link="random") for fn, line in chain]
    frames.append(dict(std=False, loose=True, mini="main", fn="main", line=sc.batch_main_line, link="random"))
    return dict(message=msg, status=status, frames=frames, stdout=out, cls=cls)


# --------------------------------------------------------------------------------------------- bytecode-level lookup
def _floor_answer(table, q):
    """what `offset_location_floor` / `offset_location_no_floor` (Props/C14.lean) say"""
    best = None
    for off, line, col in table:
        if off <= q:
            best = (line, col)
    if best is None:
        best = (table[0][1], table[0][2]) if table else (1, 1)
    return "%d.%d" % best


def lookup_oracle(req, resp):
    """the property's decidable form on the implementation's own answer; None = fine, else (key suffix, text)"""
    p = req.split(" ")
    if resp.startswith("!panic"):
        if p[0] == "bcwr" and any(o.split(":")[4] == "1" and o.split(":")[6] == "-" for o in p[1].split(",")):
            return None      # documented assertion of the writer: a location-needing opcode without `set_location`
        return ("panic", "the lookup / the writer panics: " + resp[:120])
    if p[0] == "bctab":
        table = [] if p[1] == "-" else [tuple(int(x) for x in e.split(":")) for e in p[1].split(";")]
        got = resp.split(" ")
        for q, g in enumerate(got):
            want = _floor_answer(table, q)
            if g != want:
                return ("floor", "offset_location(%d) = %s on the table %s; the entry with the greatest offset <= %d is %s"
                        % (q, g, p[1][:200], q, want))
        return None
    if p[0] == "bcwr":
        m = re.match(r"^len=(\d+) tab=(\S+) at=(\S*)$", resp)
        if not m:
            return ("format", "unreadable answer " + resp[:100])
        ops = [o.split(":") for o in p[1].split(",")]
        if int(m.group(1)) != sum(int(o[5]) for o in ops):
            return None      # the sizes named in the request are not the writer's: the request is stale, not the code wrong
        at = [x.split("=") for x in m.group(3).split(";")] if m.group(3) else []
        for o, (off, g) in zip(ops, at):
            if o[4] == "1" and o[6] != "-" and g != o[6]:
                return ("own-location", "instruction `%s` at bytecode offset %s was emitted with location %s, offset_location answers %s "
                        "(position table %s)" % (o[0], off, o[6], g, m.group(2)[:200]))
        return None
    return None


def lookup_leg(ctx, drv, only_request=None):
    """correspondence of the real `offset_location` / `BytecodeWriter` with the Lean model + the oracle above"""
    st = dict(evaluations=0, distinct=set(), disagreements=0, oracle_failures=0, hist={}, samples=[], queries=0, gaps=0,
              deduplicated_instructions=0)
    hbin, hlog = C.build_harness("h_c14")
    if hbin is None:
        ctx.finding("corr:build-h_c14", dict(kind="correspondence", log=hlog[-3000:]),
                    "harness h_c14 does not build against /repo (API of dora-bytecode changed?)", no_input=True)
        st["disagreements"] += 1
        return st
    reqs = []
    if only_request:
        reqs = [only_request]
    else:
        cdir = os.path.join(C.VERIF, "corpus", "C14")
        if os.path.isdir(cdir):
            for f in sorted(os.listdir(cdir)):
                if f.endswith(".req"):
                    reqs += [l.strip() for l in open(os.path.join(cdir, f)) if l.strip() and not l.startswith("#")]
        n = 500 if ctx.tier == "quick" else 20000
        rc, gen, err = C.sh2([hbin, "gen", str(n)], env={"VERIF_SEED": str(ctx.seed)}, timeout=600)
        reqs += [l for l in gen.splitlines() if l]
    os.makedirs(os.path.join(C.BUILD, "tmp"), exist_ok=True)
    rf = os.path.join(C.BUILD, "tmp", "c14_lookup_%d.req" % os.getpid())
    open(rf, "w").write("\n".join(reqs) + "\n")
    rc1, impl, err1 = C.sh2([hbin, "run", rf], timeout=900)
    rc2, model, err2 = C.sh2([drv], stdin="\n".join(reqs) + "\n", timeout=900)
    os.unlink(rf)
    il, ml = impl.splitlines(), model.splitlines()
    if rc1 != 0 or rc2 != 0 or len(il) != len(reqs) or len(ml) != len(reqs):
        ctx.finding("corr:lookup-stream", dict(kind="correspondence", rc_impl=rc1, rc_model=rc2, n_req=len(reqs), n_impl=len(il),
                                               n_model=len(ml), stderr=(err1 + err2)[-2000:]),
                    "h_c14 or drv_c14 did not answer every lookup request", no_input=True)
        st["disagreements"] += 1
        return st
    for req, a, b in zip(reqs, il, ml):
        what = req.split(" ")[0]
        st["evaluations"] += 1
        st["hist"][what] = st["hist"].get(what, 0) + 1
        a_n = "!panic" if a.startswith("!panic") else a
        if what == "bctab":
            ents = [] if req.split(" ")[1] == "-" else [int(e.split(":")[0]) for e in req.split(" ")[1].split(";")]
            st["queries"] += len(a.split(" "))
            gaps = sum(1 for x, y in zip(ents, ents[1:]) if y > x + 1)
            st["gaps"] += gaps
            if gaps:
                st["distinct"].add(req)
        else:
            ops = [o.split(":") for o in req.split(" ")[1].split(",")]
            m = re.match(r"^len=\d+ tab=(\S+) ", a)
            nent = 0 if not m or m.group(1) == "-" else len(m.group(1).split(";"))
            dedup = sum(1 for o in ops if o[4] == "1" and o[6] != "-") - nent
            st["queries"] += len(ops)
            if dedup > 0:
                st["deduplicated_instructions"] += dedup
                st["distinct"].add(req)
        o = lookup_oracle(req, a)
        if a_n != b:
            st["disagreements"] += 1
            st["oracle_failures"] += 1 if o else 0
            ctx.finding("corr:offset-location:%s" % what,
                        dict(kind="correspondence", request=req, impl=a, model=b, oracle=o and o[1],
                             how_to_replay="./check C14 quick --replay <this file>   (or: echo '<request>' > r; "
                                           ".build/harness-target/debug/h_c14 run r; lean/.lake/build/bin/drv_c14 < r)"),
                        "real dora-bytecode and the Lean model disagree on `%s`: impl=%s model=%s%s"
                        % (req[:100], a[:90], b[:90], ("; the property fails on the implementation: " + o[1]) if o else ""),
                        no_input=(o is None))
        elif o:
            st["oracle_failures"] += 1
            ctx.finding("oracle:offset-location:%s" % o[0], dict(kind="oracle", request=req, impl=a, why=o[1]), o[1])
        if len(st["samples"]) < 3 and st["evaluations"] % 211 == 7:
            st["samples"].append(dict(request=req[:300], impl=a[:300], model=b[:300]))
    st["distinct"] = len(st["distinct"])
    return st


# --------------------------------------------------------------------------------------------- the check
def load_corpus():
    specs = []
    cdir = os.path.join(C.VERIF, "corpus", "C14")
    if os.path.isdir(cdir):
        for f in sorted(os.listdir(cdir)):
            if f.endswith(".json"):
                for s in json.load(open(os.path.join(cdir, f))):
                    specs.append(s)
    return specs


def run(ctx):
    quick = ctx.tier == "quick"
    po = C.proof_obligations(ctx, PROP_MODULE, PROP_FILE, hygiene_paths=("DoraModel/Trace", PROP_FILE))
    drv, dlog = C.lean_exe("drv_c14")
    if drv is None:
        raise RuntimeError("driver build failed:\n" + dlog[-3000:])
    only_req = None
    if ctx.replay:
        robj = json.load(open(ctx.replay))
        only_req = robj.get("request")
    look = lookup_leg(ctx, drv, only_request=only_req)
    C.log("C14 lookup leg: %d requests (%d lookups, %d gaps between table entries, %d instructions without an entry of their own), "
          "%d disagreements, %d oracle failures" % (look["evaluations"], look["queries"], look["gaps"],
                                                    look["deduplicated_instructions"], look["disagreements"], look["oracle_failures"]))
    tc = C.toolchain(need_boots=True)
    std_dir = os.path.join(tc["dir"], "pkgs", "std")
    work = os.path.join(C.BUILD, "tmp", "c14_%d" % os.getpid())
    shutil.rmtree(work, ignore_errors=True)
    os.makedirs(work)
    croot = os.path.join(C.BUILD, "cache", "c14")
    # results are cached per tool chain: tree hash + identity (size, mtime) of the binaries actually used, so a tool chain
    # rebuilt under the same tree hash does not reuse old results
    bind = os.path.dirname(tc["dora"])
    ident = hashlib.sha256(repr([(f, os.stat(os.path.join(bind, f)).st_size, os.stat(os.path.join(bind, f)).st_mtime_ns)
                                 for f in ("dora", "dora-cannon-compiler", "dora-boots-compiler", "libdora_runtime.a", "libdora_startup.a")]).encode()).hexdigest()[:8]
    cache_dir = os.path.join(croot, "%s_%s_%s" % (tc["hash"], ident, file_hash(EXTRACT, os.path.join(C.VERIF, "tools", "artifact_extract.py"))))
    os.makedirs(cache_dir, exist_ok=True)
    for o in os.listdir(croot):          # results of other tool chains are useless: drop them (disk)
        if not o.startswith(tc["hash"]) and time.time() - os.path.getmtime(os.path.join(croot, o)) > 3600:
            shutil.rmtree(os.path.join(croot, o), ignore_errors=True)

    # ---- programs
    progs = []
    if ctx.replay and only_req:
        pass                      # a lookup request: answered above
    elif ctx.replay:
        obj = json.load(open(ctx.replay))
        rp = obj["spec"].get("random_program")
        if rp:
            progs += [b for b in random_batches(rp["seed"], 4 * len(RANDOM_KINDS) + 1, 1, only_index=rp["index"])]
        else:
            progs.append(G.build_program("c14replay", [obj["spec"]], std_dir))
    else:
        corpus = load_corpus()
        for j in range(0, len(corpus), 8):
            progs.append(G.build_program("c14corpus_%d" % (j // 8), corpus[j:j + 8], std_dir))
        if quick:
            progs += G.gen_programs(ctx.seed, 76, per_program=11, singles=2, std_dir=std_dir)
            progs += random_batches(ctx.seed, 12, 12)
        else:
            progs += G.gen_programs(ctx.seed, 520, per_program=10, singles=12, std_dir=std_dir)
            progs += random_batches(ctx.seed, 120, 12)
    configs = [("cannon", ["--cannon"], "swiper", []), ("boots", [], "swiper", [])]
    if not quick:
        configs += [("cannon", ["--cannon"], "copy", ["--gc", "copy"]), ("boots", [], "copy", ["--gc", "copy"])]
    scenarios = [sc for p in progs for sc in p.scenarios]

    # ---- reference interpreter on the twins
    rc, mout, merr = C.sh2([drv], stdin="".join(sc.sexp + "\n" for sc in scenarios), timeout=1200)
    mlines = [l for l in mout.splitlines() if l.startswith("mini ")]
    stats = dict(runs=0, hist={}, samples=[], oracle_failures=0, disagreements=0, mini_checked=0, mini_agree=0,
                 artifacts=0, artifacts_ok=0, tie_traces=0, tie_ok=0, tie_groups=0, tie_inlined_frames=0,
                 selftest=0, selftest_rejected=0, compile_failed=0, cached=0, thunk_presence_differs=0,
                 backend_pairs=0, backend_pairs_equal=0, verdict_totals={})
    if len(mlines) != len(scenarios):
        ctx.finding("corr:mini-driver", dict(kind="correspondence", stderr=merr[-500:], answers=len(mlines), asked=len(scenarios)),
                    "drv_c14 answered %d of %d interpreter requests" % (len(mlines), len(scenarios)), no_input=True)
        stats["disagreements"] += 1
    else:
        for sc, ml in zip(scenarios, mlines):
            p = ml.split(" ")
            out = bytes.fromhex(p[2]).decode("utf-8", "replace") if p[2] != "-" else ""
            outcome = p[3]
            chain = [] if p[4] == "-" else [(x.rsplit("@", 1)[0], int(x.rsplit("@", 1)[1])) for x in p[4].split(",")]
            if getattr(sc, "random", False):
                sc.expect = expectation_from_interpreter(sc, out, outcome, chain)
                stats["random_total"] = stats.get("random_total", 0) + 1
                if sc.expect is None:
                    stats["random_skipped"] = stats.get("random_skipped", 0) + 1
                continue
            ex = sc.expect
            if ex["cls"] in G.TRAP_IDS:
                want_outcome = "trap:" + ex["cls"]
            else:
                want_outcome = "fatal:" + (ex["message"][len("fatal error: "):] if ex["cls"] == "fatal" else ex["message"]).encode().hex()
            want_chain = [(f["mini"], f["line"]) for f in ex["frames"] if not f["std"]]
            stats["mini_checked"] += 1
            bad = None
            if outcome != want_outcome:
                bad = "ending %s, generator expects %s" % (outcome, want_outcome)
            elif out != ex["stdout"]:
                bad = "stdout %r, generator expects %r" % (out, ex["stdout"])
            elif chain != want_chain:
                bad = "chain %s, generator expects %s" % (chain, want_chain)
            if bad:
                stats["disagreements"] += 1
                ctx.finding("corr:mini-vs-generator:%s" % ex["cls"], dict(kind="correspondence", spec=sc.spec, source=sc.program.dora,
                            sexp=sc.sexp, mini=ml), "reference interpreter and generator disagree on %s: %s" % (sc.key, bad), no_input=True)
            else:
                stats["mini_agree"] += 1

    # ---- compile, run, extract
    jobs = [(p, cfgc) for p in progs for cfgc in configs]
    t_build = time.time()
    with cf.ThreadPoolExecutor(max_workers=WORKERS) as ex:
        futs = [ex.submit(build_one, tc, cache_dir, work, p, be, bfl, gc, gfl, True) for (p, (be, bfl, gc, gfl)) in jobs]
        results = [f.result() for f in futs]
    build_s = round(time.time() - t_build, 1)
    by_cfg = {}
    for (p, (be, bfl, gc, gfl)), res in zip(jobs, results):
        by_cfg[(p.name, be, gc)] = res
        stats["cached"] += 1 if res.get("cached") else 0

    # ---- validator + model predictions per artifact
    art_sites = {}
    first_art = {}
    for (p, (be, bfl, gc, gfl)), res in zip(jobs, results):
        if not res["compile_ok"]:
            stats["compile_failed"] += 1
            ctx.finding("oracle:compile-failed:%s" % be, dict(kind="oracle", program=p.name, source=p.dora, backend=be, gc=gc, log=res["log"]),
                        "%s does not compile with %s: %s" % (p.name, be, res["log"][-300:]))
            continue
        if res["art"] is None:
            ctx.finding("corr:extract:%s" % be, dict(kind="correspondence", program=p.name, backend=be, error=res["art_err"]),
                        "artifact of %s (%s) could not be read: %s" % (p.name, be, res["art_err"]), no_input=True)
            stats["disagreements"] += 1
            continue
        rc, dout, derr = C.sh2([drv], stdin=res["art"], timeout=600)
        verdict, sites = parse_driver_artifact(res["art"], dout)
        stats["artifacts"] += 1
        if verdict.startswith("ok "):
            stats["artifacts_ok"] += 1
            for kv in verdict.split()[1:]:
                k, v = kv.split("=")
                stats["verdict_totals"][k] = stats["verdict_totals"].get(k, 0) + int(v)
            first_art.setdefault(be, res["art"])
        else:
            rule = re.sub(r"\d+", "N", verdict)
            rule = re.sub(r"[^A-Za-z]+", "-", rule.split(":")[-1])[:60]
            ctx.finding("oracle:artifact-reject:%s:%s" % (be, rule),
                        dict(kind="oracle", program=p.name, source=p.dora, backend=be, gc=gc, verdict=verdict,
                             how_to_replay="dora compile -S %s p.dora -o p.s; python3 tools/c14_extract.py x64 . p.s | lean/.lake/build/bin/drv_c14" % " ".join(bfl + gfl)),
                        "position tables of %s (%s) rejected: %s" % (p.name, be, verdict[:300]))
            stats["oracle_failures"] += 1
        art_sites[(p.name, be, gc)] = sites

    # ---- per scenario: oracle on the real report, both back ends, tie
    distinct = set()
    for sc in scenarios:
        ex = sc.expect
        if ex is None:
            continue          # random program that does not end in a report (or the interpreter gave no answer)
        cls = ex["cls"]
        per_be = {}
        for (be, bfl, gc, gfl) in configs:
            res = by_cfg[(sc.program.name, be, gc)]
            if not res["compile_ok"]:
                continue
            run_ = res["runs"].get(sc.arg or "-")
            if run_ is None:
                continue
            stats["runs"] += 1
            distinct.add((sc.key, be, gc))
            for hk in ["kind:" + sc.spec["kind"], "depth:%d" % len(sc.spec["chain"]), "style:" + sc.spec.get("style", "-")] + \
                    ["link:" + l for l in sorted(set(sc.spec["chain"]))]:
                stats["hist"][hk] = stats["hist"].get(hk, 0) + 1
            rc, out, err = run_["rc"], run_["out"], run_["err"]
            msg, frames, rest = parse_report(err)
            uf = user_frames(frames)
            if getattr(sc, "random", False):
                uf = [f for f in uf if f["file"] == "p.dora"]      # frames inside the standard library are transparent here
            bek = be if gc == "swiper" else "%s-%s" % (be, gc)
            replay = dict(kind="oracle", spec=sc.spec, scenario=sc.key, source=sc.program.dora, argument=sc.arg, backend=be, gc=gc,
                          expected=dict(message=ex["message"], status=ex["status"], stdout=ex["stdout"],
                                        frames=[(f.get("fn") or f.get("rx"), f["line"]) for f in ex["frames"]]),
                          observed=dict(rc=rc, stdout=out, stderr=err),
                          how_to_replay="write `source` to p.dora; dora compile %s p.dora -o p; ./p %s   (or ./check C14 quick --replay <this file>)"
                                        % (" ".join(bfl + gfl), sc.arg or ""))
            failed = False
            if rc == 124 or rc < 0 or rc >= 128:
                ctx.finding("oracle:crash:%s:%s" % (cls, bek), replay, "%s (%s): ended with status %s instead of a trap report" % (sc.key, bek, rc))
                failed = True
            elif rc == 0:
                ctx.finding("oracle:no-trap:%s:%s" % (cls, bek), replay, "%s (%s): the failing operation did not fail (exit 0)" % (sc.key, bek))
                failed = True
            else:
                if msg != ex["message"]:
                    ctx.finding("oracle:message:%s:%s" % (cls, bek), replay, "%s (%s): first stderr line %r, expected %r" % (sc.key, bek, msg, ex["message"]))
                    failed = True
                if rc != ex["status"]:
                    ctx.finding("oracle:status:%s:%s" % (cls, bek), replay, "%s (%s): exit status %d, expected %d" % (sc.key, bek, rc, ex["status"]))
                    failed = True
                diff = compare_frames(ex["frames"], uf)
                if diff is not None:
                    what, link, i = diff
                    where = "site" if i == 0 else "caller"
                    ctx.finding("oracle:%s-%s:%s:%s:%s" % (where, what, cls, link, bek), replay,
                                "%s (%s): frame %d of the trace is %s, expected %s — %s" % (
                                    sc.key, bek, i, ("%s line %d" % (uf[i]["fn"], uf[i]["line"])) if i < len(uf) else "absent",
                                    ("%s line %d" % (ex["frames"][i].get("fn") or ex["frames"][i].get("rx"), ex["frames"][i]["line"])) if i < len(ex["frames"]) else "no frame",
                                    what))
                    failed = True
                if rest:
                    ctx.finding("oracle:stderr-garbage:%s:%s" % (cls, bek), replay, "%s (%s): unexpected stderr lines: %s" % (sc.key, bek, rest[:3]))
                    failed = True
            if out != ex["stdout"]:
                if ex["stdout"].startswith(out):
                    lost = ex["stdout"][len(out):]
                    what = "partial-line" if not lost.endswith("\n") and "\n" not in lost else "lines"
                    handler = "trap" if cls in G.TRAP_IDS else cls        # which runtime function ended the process
                    ctx.finding("oracle:lost-output:%s:%s:%s" % (handler, what, bek), replay,
                                "%s (%s): standard output written before the trap was not delivered: %r missing" % (sc.key, bek, lost))
                else:
                    ctx.finding("oracle:stdout:%s:%s" % (cls, bek), replay, "%s (%s): stdout %r, expected %r" % (sc.key, bek, out[-200:], ex["stdout"][-200:]))
                failed = True
            if failed:
                stats["oracle_failures"] += 1
            per_be[(be, gc)] = dict(msg=msg, rc=rc, out=out, uf=[(f["fn"], f["file"], f["line"], f["col"]) for f in uf],
                                    thunks=thunk_frames(frames), replay=replay)
            # tie: the Lean model's prediction from this executable's own tables
            sites = art_sites.get((sc.program.name, be, gc))
            if sites is not None and frames and not (rc == 124 or rc < 0 or rc >= 128):
                first = {"fatal": ("fatal_error",), "unreachable": ("unreachable",)}.get(cls, ("trap", "stack_overflow"))
                ok, ngroups, ninl = tie_trace(sites, frames, first)
                stats["tie_traces"] += 1
                if ok:
                    stats["tie_ok"] += 1
                    stats["tie_groups"] += ngroups
                    stats["tie_inlined_frames"] += ninl
                else:
                    stats["disagreements"] += 1
                    ctx.finding("corr:artifact-frames:%s:%s" % (cls, bek), dict(replay, kind="correspondence"),
                                "%s (%s): the printed trace is not what the Lean model of dump_stack_elem predicts from the "
                                "executable's own position tables for any sequence of call sites" % (sc.key, bek), no_input=True)
            if len(stats["samples"]) < 6 and stats["runs"] % 23 == 1:
                stats["samples"].append(dict(scenario=sc.key, backend=bek, request=dict(argument=sc.arg, spec=sc.spec),
                                             response=dict(rc=rc, stderr=err.splitlines()[:8], stdout=out)))
        # the two code generators must print the same report (per collector)
        for gc in sorted(set(g for (_, g) in per_be)):
            a, b = per_be.get(("cannon", gc)), per_be.get(("boots", gc))
            if a is None or b is None:
                continue
            stats["backend_pairs"] += 1
            if (a["msg"], a["rc"], a["out"], a["uf"]) != (b["msg"], b["rc"], b["out"], b["uf"]):
                ctx.finding("oracle:backends-differ:%s" % cls, dict(a["replay"], observed_cannon=a["replay"]["observed"], observed_boots=b["replay"]["observed"]),
                            "%s: the two code generators print different reports (message/status/stdout/user-visible frames incl. columns)" % sc.key)
                stats["oracle_failures"] += 1
            else:
                stats["backend_pairs_equal"] += 1
            if a["thunks"] != b["thunks"]:
                stats["thunk_presence_differs"] += 1

    # ---- validator self-test: corrupted tables must be rejected
    for be, art in first_art.items():
        lines = art.strip().splitlines()
        for name, bad in corruptions(lines):
            stats["selftest"] += 1
            rc, dout, derr = C.sh2([drv], stdin="\n".join(bad) + "\n", timeout=300)
            v = [l for l in dout.splitlines() if l.startswith("verdict ")]
            if v and v[0].startswith("verdict reject"):
                stats["selftest_rejected"] += 1
            else:
                stats["disagreements"] += 1
                ctx.finding("corr:selftest:%s" % name, dict(kind="correspondence", backend=be, corruption=name, verdict=(v or ["none"])[0][:200]),
                            "the table validator accepted a corrupted artifact (%s, %s)" % (name, be), no_input=True)
    shutil.rmtree(work, ignore_errors=True)

    if not po["build_ok"] or po["failed"]:
        ctx.finding("proof:C14", dict(kind="proof", failed=po["failed"], log=po.get("build_log_tail", "")),
                    "property theorems of C14 no longer check: %s" % "; ".join(po["failed"])[:400], no_input=not ctx.violations)
    cov = dict(obligations=po["obligations"], discharged=po["discharged"], checker_cmd=po["checker_cmd"],
               trusted_base=po["trusted_base"] + [
                   "hand-written model of LocationTable::get / dump_stack_elem / determine_stack_entry (lean/DoraModel/Trace/Model.lean), "
                   "tied per run: the frames it predicts from the executable's own tables must reproduce the printed trace",
                   "Rust std contract of slice::binary_search_by_key (modelled by a concrete halving search; unique answer proved on strictly increasing tables)",
                   "hand-written model of BytecodeBody::offset_location and BytecodeWriter::{set_location, emit_location, emit_values} "
                   "(lean/DoraModel/Trace/Bytecode.lean), tied per run by h_c14 (real dora-bytecode) vs drv_c14 on generated tables and instruction sequences",
                   "gen/c14_traps.py (expected reports by construction, cross-checked against the reference interpreter DoraModel.Mini.Eval)",
                   "tools/c14_extract.py + tools/artifact_extract.py, gcc, llvm-objdump; link step copied from dora/src/driver/compile.rs"],
               theorems=po["theorems"], evaluations=stats["runs"], distinct_nontrivial=len(distinct),
               rule="one case = (scenario, code generator, collector); a scenario = one failing operation kind (%d kinds) x the way it is "
                    "written (let / expr / %s; the new styles are always followed by later position-carrying statements) x a call chain of "
                    "1-4 links out of %s; every case is non-trivial: it must end in one specific report"
                    % (len(G.KINDS), " / ".join(G.NEW_STYLES), "/".join(G.LINKS)),
               histogram=stats["hist"], samples=stats["samples"] or [dict(note="none")],
               disagreements=stats["disagreements"] + look["disagreements"], oracle_failures=stats["oracle_failures"] + look["oracle_failures"],
               bytecode_lookup=dict(look, rule="h_c14 vs drv_c14: `bctab` = a strictly increasing position table, offset_location at every "
                                               "offset 0..last+2; `bcwr` = an instruction sequence emitted through the real BytecodeWriter as "
                                               "the bytecode generator drives it (set_location right before location-taking emitters, forward "
                                               "jumps, one- to three-byte operands, some location-needing opcodes without location: the "
                                               "assertion), answer = code length, table, offset_location at every instruction; non-trivial = "
                                               "table with a gap / sequence with an instruction that got no entry of its own"),
               scenarios=len(scenarios), programs=len(progs), configurations=["%s/%s" % (b, g) for (b, _, g, _) in configs],
               reference_interpreter=dict(twins_run=stats["mini_checked"], agree_with_generator=stats["mini_agree"]),
               random_programs=dict(generated=stats.get("random_total", 0), not_ending_in_a_report=stats.get("random_skipped", 0),
                                    note="typed random programs of gen/progs.py ending in a trap / fatal error; expected report = the reference "
                                         "interpreter's (ending, stdout, chain of (function, line)); function names compared by component"),
               backend_pairs=dict(compared=stats["backend_pairs"], identical_reports=stats["backend_pairs_equal"],
                                  thunk_frames_differ=stats["thunk_presence_differs"]),
               artifacts=dict(validated=stats["artifacts"], accepted=stats["artifacts_ok"], totals=stats["verdict_totals"]),
               tie=dict(traces=stats["tie_traces"], reproduced_by_model=stats["tie_ok"], frame_groups=stats["tie_groups"],
                        frames_from_inline_expansion=stats["tie_inlined_frames"]),
               validator_selftest=dict(corrupted=stats["selftest"], rejected=stats["selftest_rejected"]),
               compile_failed=stats["compile_failed"], results_from_cache=stats["cached"], build_and_run_s=build_s,
               position_convention="reports give line:column of the start of the failing expression / of the call expression; "
                                   "lines are compared with the generator's, columns only between the two code generators")
    C.log("C14: %d/%d theorems; %d scenarios x %d configurations = %d runs, %d oracle failures, %d disagreements; interpreter agrees on %d/%d twins; "
          "%d/%d artifacts accepted; model reproduces %d/%d traces (%d frames from inline expansion); %d results from cache; build+run %.0f s"
          % (po["discharged"], po["obligations"], len(scenarios), len(configs), stats["runs"], stats["oracle_failures"], stats["disagreements"],
             stats["mini_agree"], stats["mini_checked"], stats["artifacts_ok"], stats["artifacts"], stats["tie_ok"], stats["tie_traces"],
             stats["tie_inlined_frames"], stats["cached"], build_s))
    ctx.write_evidence("proof", cov, assumptions=[
        "that the code generators RECORD the right position for each trapping instruction is compared on generated programs, not proved",
        "stack-overflow and out-of-memory reports are C13's; CAST/NIL/ILLEGAL traps cannot be produced by a Dora program (no emitting code path)",
        "compiler-generated thunk frames (`… for T as Trait`) are transparent: removed before the chain is compared, presence compared between back ends only",
        "the frame-pointer walk itself (frames_from_pc reading saved frame pointers) is exercised by the runs, not modelled below the list of return offsets"])
