"""Shared machinery for ./check: building, auditing, evidence, violations.

Every check module `checks/cNN.py` defines `run(ctx) -> None` and uses the
helpers below.  Conventions are described in /verif/CONVENTIONS.md.
"""
import fcntl
import hashlib
import json
import os
import re
import subprocess
import sys
import time

VERIF = "/verif"
REPO = "/repo"
# (mutation experiments use a private build directory: cargo judges freshness by mtime, so artifacts built from a patched
# clone of /repo must never share a target directory with builds of the real tree; see tools/with_patch.sh)
BUILD = os.environ.get("VERIF_BUILD_DIR", os.path.join(VERIF, ".build"))
LEAN = os.path.join(VERIF, "lean")
HARNESS = os.path.join(VERIF, "harness")
# (mutation experiments redirect these so that the committed evidence is not overwritten; see tools/with_patch.sh)
EVIDENCE = os.environ.get("VERIF_EVIDENCE_DIR", os.path.join(VERIF, "evidence"))
REPLAYS = os.environ.get("VERIF_REPLAYS_DIR", os.path.join(VERIF, "replays"))
KNOWN = os.path.join(VERIF, "known-findings.txt")
GUARD = "dinfuehr_dora_verif"

ALLOWED_AXIOMS = {"propext", "Classical.choice", "Quot.sound"}

OFFLINE_ENV = {
    "CARGO_NET_OFFLINE": "true",
    "GOPROXY": "off",
    "PIP_NO_INDEX": "1",
}


def log(msg):
    print(msg, flush=True)


def sh(cmd, cwd=None, timeout=None, env=None, stdin=None, quiet=True):
    """Run a command (list or shell string); returns (rc, stdout+stderr)."""
    e = dict(os.environ)
    e.update(OFFLINE_ENV)
    if env:
        e.update(env)
    shell = isinstance(cmd, str)
    try:
        p = subprocess.run(cmd, cwd=cwd, shell=shell, env=e, input=stdin,
                           stdout=subprocess.PIPE, stderr=subprocess.STDOUT,
                           timeout=timeout, text=True, errors="replace")
        return p.returncode, p.stdout
    except subprocess.TimeoutExpired as ex:
        out = ex.stdout or ""
        if isinstance(out, bytes):
            out = out.decode("utf-8", "replace")
        return 124, out + "\n[timeout after %ss]" % timeout


def sh2(cmd, cwd=None, timeout=None, env=None, stdin=None):
    """Like sh but keeps stdout and stderr apart: (rc, stdout, stderr)."""
    e = dict(os.environ)
    e.update(OFFLINE_ENV)
    if env:
        e.update(env)
    shell = isinstance(cmd, str)
    try:
        p = subprocess.run(cmd, cwd=cwd, shell=shell, env=e, input=stdin,
                           stdout=subprocess.PIPE, stderr=subprocess.PIPE,
                           timeout=timeout, text=True, errors="replace")
        return p.returncode, p.stdout, p.stderr
    except subprocess.TimeoutExpired as ex:
        return 124, (ex.stdout or b"").decode("utf-8", "replace") if isinstance(ex.stdout, bytes) else (ex.stdout or ""), "[timeout]"


class FLock:
    def __init__(self, name):
        os.makedirs(BUILD, exist_ok=True)
        self.path = os.path.join(BUILD, name + ".lock")

    def __enter__(self):
        self.f = open(self.path, "w")
        fcntl.flock(self.f, fcntl.LOCK_EX)
        return self

    def __exit__(self, *a):
        fcntl.flock(self.f, fcntl.LOCK_UN)
        self.f.close()


# --------------------------------------------------------------------------- Lean

def lean_build(targets, timeout=3000):
    """`lake build <targets>` in /verif/lean under a file lock. (ok, log)."""
    with FLock("lake"):
        rc, out = sh(["lake", "build"] + list(targets), cwd=LEAN, timeout=timeout)
        if rc != 0 and rc != 124:
            # a second attempt only re-elaborates the modules that failed: a failure that came from machine load
            # (a solver or heartbeat limit hit while 16 other modules were building) goes away, a real one repeats
            rc2, out2 = sh(["lake", "build"] + list(targets), cwd=LEAN, timeout=timeout)
            if rc2 == 0:
                log("lean_build: first attempt failed, second succeeded (load-dependent failure); first log tail:\n"
                    + out[-1500:])
            rc, out = rc2, out2
    return rc == 0, out


def lean_exe(name, timeout=3000):
    """Build a lean_exe target and return its path (or None, log)."""
    ok, out = lean_build([name], timeout=timeout)
    path = os.path.join(LEAN, ".lake", "build", "bin", name)
    if ok and os.path.exists(path):
        return path, out
    return None, out


def lean_theorems(relpath):
    """Names of `theorem`s declared in a Lean file (relative to /verif/lean),
    qualified by enclosing `namespace`s (simple, line-based)."""
    names = []
    ns = []
    depth = 0
    for line in open(os.path.join(LEAN, relpath), encoding="utf-8"):
        # skip block comments / doc comments (a line starting with `theorem` inside one is prose)
        opens = line.count("/-")
        closes = line.count("-/")
        if depth > 0:
            depth += opens - closes
            continue
        if opens > closes:
            depth += opens - closes
            if not re.match(r"^\s*(theorem|namespace|end)\b", line):
                continue
        m = re.match(r"^namespace\s+(\S+)", line)
        if m:
            ns.append(m.group(1))
            continue
        m = re.match(r"^end\s+(\S+)", line)
        if m and ns and ns[-1] == m.group(1):
            ns.pop()
            continue
        m = re.match(r"^(?:@\[[^\]]*\]\s*)?(?:private\s+|protected\s+)?theorem\s+([^\s:({\[]+)", line)
        if m:
            names.append(".".join(ns + [m.group(1)]))
    return names


def lean_audit(module, names, extra_allowed=()):
    """`#print axioms` for every name; returns (ok, {name: [axioms]}, log).
    ok is False if a theorem is missing or uses an axiom outside the allow-list
    (allow-list = propext, Classical.choice, Quot.sound + extra_allowed prefixes)."""
    os.makedirs(BUILD, exist_ok=True)
    tmp = os.path.join(BUILD, "audit_%s_%d.lean" % (module.replace(".", "_"), os.getpid()))
    with open(tmp, "w") as f:
        f.write("import %s\n" % module)
        for n in names:
            f.write("#print axioms %s\n" % n)
    rc, out = sh(["lake", "env", "lean", tmp], cwd=LEAN, timeout=1200)
    os.unlink(tmp)
    res = {}
    # output: "'name' depends on axioms: [a, b]" (may wrap) or "'name' does not depend on any axioms"
    flat = re.sub(r"\s+", " ", out)
    for m in re.finditer(r"'([^']+)' (does not depend on any axioms|depends on axioms: \[([^\]]*)\])", flat):
        name = m.group(1)
        axs = [a.strip() for a in (m.group(3) or "").split(",") if a.strip()]
        res[name] = axs
    ok = rc == 0
    bad = {}
    for n in names:
        if n not in res:
            ok = False
            bad[n] = ["<missing>"]
            continue
        for a in res[n]:
            if a in ALLOWED_AXIOMS:
                continue
            if any(a.startswith(p) or p in a for p in extra_allowed):
                continue
            ok = False
            bad.setdefault(n, []).append(a)
    return ok, res, (out if not ok else ""), bad


HYGIENE_RE = re.compile(r"\b(sorry|admit|native_decide|implemented_by|unsafe)\b|^axiom\s|maxHeartbeats\s+0")


def lean_hygiene(relpaths):
    """Scan Lean sources (files or directories under /verif/lean) for forbidden constructs,
    ignoring comments. Returns list of 'file:line: text'."""
    hits = []
    files = []
    for rp in relpaths:
        p = os.path.join(LEAN, rp)
        if os.path.isdir(p):
            for d, _, fs in os.walk(p):
                files += [os.path.join(d, f) for f in fs if f.endswith(".lean")]
        elif os.path.exists(p):
            files.append(p)
    for fp in files:
        depth = 0
        for i, line in enumerate(open(fp, encoding="utf-8"), 1):
            s = line
            # strip block comments (non-nested approximation with depth counter)
            outp = ""
            j = 0
            while j < len(s):
                if s.startswith("/-", j):
                    depth += 1
                    j += 2
                elif s.startswith("-/", j) and depth > 0:
                    depth -= 1
                    j += 2
                else:
                    if depth == 0:
                        outp += s[j]
                    j += 1
            outp = outp.split("--")[0]
            if HYGIENE_RE.search(outp):
                hits.append("%s:%d: %s" % (os.path.relpath(fp, LEAN), i, line.strip()))
    return hits


# --------------------------------------------------------------------------- Rust harness

def harness_target_dir():
    return os.path.join(BUILD, "harness-target")


def build_harness(bin_name, features=(), release=False, timeout=3000, extra_rustflags=""):
    """cargo build one binary of /verif/harness against /repo's working tree with the hook cfg on.
    Returns (path or None, log)."""
    with FLock("cargo-harness"):
        lock_src = os.path.join(REPO, "Cargo.lock")
        lock_dst = os.path.join(HARNESS, "Cargo.lock")
        import shutil
        shutil.copy(lock_src, lock_dst)   # always start from /repo's lock: same versions, cargo prunes it
        cmd = ["cargo", "build", "--offline", "-p", bin_name, "--bin", bin_name]
        if release:
            cmd.append("--release")
        if features:
            cmd += ["--features", ",".join(features)]
        env = {"CARGO_TARGET_DIR": harness_target_dir(),
               "RUSTFLAGS": ("--cfg %s %s" % (GUARD, extra_rustflags)).strip()}
        rc, out = sh(cmd, cwd=HARNESS, env=env, timeout=timeout)
    path = os.path.join(harness_target_dir(), "release" if release else "debug", bin_name)
    # the front end looks for the standard library sources in an ancestor directory of the running executable that has
    # a `pkgs` entry (sema.rs find_pkgs_directory); every harness that creates a `Sema` needs this link
    lnk = os.path.join(BUILD, "pkgs")
    if not os.path.lexists(lnk):
        try:
            os.symlink(os.path.join(REPO, "pkgs"), lnk)
        except FileExistsError:
            pass
    if rc == 0 and os.path.exists(path):
        return path, out
    return None, out


# --------------------------------------------------------------------------- Dora tool chain (shared)

def repo_tree_hash():
    """Hash of /repo's working tree state (HEAD + diff + untracked source files)."""
    rc, head = sh(["git", "-C", REPO, "rev-parse", "HEAD"])
    rc, diff = sh(["git", "-C", REPO, "diff", "HEAD", "--", ".", ":!bench/mandelbrot/mandelbrot_out"])
    rc, unt = sh(["git", "-C", REPO, "ls-files", "--others", "--exclude-standard"])
    h = hashlib.sha256()
    h.update(head.encode())
    h.update(diff.encode())
    for f in sorted(unt.split()):
        p = os.path.join(REPO, f)
        if os.path.isfile(p):
            h.update(f.encode())
            h.update(open(p, "rb").read())
    return h.hexdigest()[:16]


def toolchain(need_boots=True, timeout=3000):
    """Build dora + cannon (+ bootstrap boots) from /repo's working tree into /verif/.build/tc/<hash>.
    Returns dict(dora=..., cannon=..., boots=..., dir=..., log=...) or raises RuntimeError(log)."""
    import shutil
    with FLock("toolchain"):
        th = repo_tree_hash()
        root = os.path.join(BUILD, "tc")
        d = os.path.join(root, th)
        bind = os.path.join(d, "bin")
        stamp = os.path.join(d, "ok-boots" if need_boots else "ok-cannon")
        tc = dict(dir=d, dora=os.path.join(bind, "dora"),
                  cannon=os.path.join(bind, "dora-cannon-compiler"),
                  boots=os.path.join(bind, "dora-boots-compiler"), hash=th, log="")
        if os.path.exists(stamp) or os.path.exists(os.path.join(d, "ok-boots")):
            os.utime(d, None)     # mark as recently used
            return tc
        # drop old tool chains (disk), but never one that may still be in use by a concurrent check:
        # keep the 3 most recently used and anything touched in the last 2 hours
        if os.path.isdir(root):
            others = [o for o in os.listdir(root) if o != th]
            others.sort(key=lambda o: os.path.getmtime(os.path.join(root, o)), reverse=True)
            for o in others[2:]:
                if time.time() - os.path.getmtime(os.path.join(root, o)) > 7200:
                    shutil.rmtree(os.path.join(root, o), ignore_errors=True)
        os.makedirs(bind, exist_ok=True)
        # `dora` looks for the std/boots sources in an ancestor directory named pkgs
        lnk = os.path.join(d, "pkgs")
        if not os.path.islink(lnk):
            os.symlink(os.path.join(REPO, "pkgs"), lnk)
        tgt = os.path.join(BUILD, "repo-target")
        env = {"CARGO_TARGET_DIR": tgt}
        if not os.path.exists(os.path.join(d, "ok-cannon")):
            rc, out = sh(["cargo", "build", "--offline", "-p", "dora", "-p", "dora-cannon-compiler",
                          "-p", "dora-runtime", "-p", "dora-startup", "-p", "dora-format",
                          "-p", "dora-language-server"],
                         cwd=REPO, env=env, timeout=timeout)
            tc["log"] = out
            if rc != 0:
                raise RuntimeError("cargo build of /repo failed:\n" + out[-4000:])
            dbg = os.path.join(tgt, "debug")
            for f in ["dora", "dora-cannon-compiler", "libdora_runtime.a", "libdora_startup.a",
                      "dora-format", "dora-language-server"]:
                if os.path.exists(os.path.join(dbg, f)):
                    tmpf = os.path.join(bind, f + ".tmp%d" % os.getpid())
                    shutil.copy2(os.path.join(dbg, f), tmpf)
                    os.replace(tmpf, os.path.join(bind, f))
            open(os.path.join(d, "ok-cannon"), "w").write(th)
        if need_boots:
            pk = os.path.join(d, "boots.dora-package")
            steps = [
                [tc["dora"], "compile", "-c", "--internal-compile-boots",
                 os.path.join(REPO, "pkgs/boots/boots.dora"), "-o", pk],
                [tc["dora"], "compile", "--internal-compile-boots", "--cannon", pk, "-o",
                 os.path.join(d, "stage1")],
                [tc["dora"], "compile", "--internal-compile-boots", "--compiler",
                 os.path.join(d, "stage1"), pk, "-o", os.path.join(d, "stage2")],
            ]
            for st in steps:
                rc, out = sh(st, cwd=d, timeout=timeout)
                tc["log"] += out
                if rc != 0:
                    raise RuntimeError("bootstrap step failed: %s\n%s" % (" ".join(st), out[-4000:]))
            tmpf = tc["boots"] + ".tmp%d" % os.getpid()
            shutil.copy2(os.path.join(d, "stage2"), tmpf)
            os.replace(tmpf, tc["boots"])
            open(os.path.join(d, "ok-boots"), "w").write(th)
        return tc


# --------------------------------------------------------------------------- context, evidence, violations

class Ctx:
    def __init__(self, prop, tier, seed, replay=None):
        self.prop = prop
        self.tier = tier
        self.seed = seed
        self.replay = replay
        self.t0 = time.time()
        self.violations = []      # list of (replay_path, text)
        self.known_hits = []      # list of (key, text)
        self.notes = []
        os.makedirs(EVIDENCE, exist_ok=True)
        os.makedirs(os.path.join(REPLAYS, prop), exist_ok=True)
        self.known = load_known(prop)

    def rng(self):
        import random
        return random.Random(self.seed)

    # -- findings ----------------------------------------------------------
    def finding(self, key, replay_obj, text, no_input=False):
        """Report a failure. `key` identifies it for known-findings.txt; if listed there a
        KNOWN-FINDING line is printed, otherwise a replay file is written and a VIOLATION line printed."""
        for k, desc in self.known:
            if k == key:
                if key not in [x[0] for x in self.known_hits]:
                    log("KNOWN-FINDING: property=%s %s [%s]" % (self.prop, desc, key))
                    self.known_hits.append((key, text))
                return False
        # at most 3 VIOLATION lines per key: more of the same adds nothing and floods the log
        self.key_counts = getattr(self, "key_counts", {})
        self.key_counts[key] = self.key_counts.get(key, 0) + 1
        if self.key_counts[key] > 3:
            return True
        n = len(self.violations)
        safe = re.sub(r"[^A-Za-z0-9_.-]+", "_", key)[:80]
        path = os.path.join(REPLAYS, self.prop, "%s_%s_%d.json" % (self.tier, safe, n))
        obj = dict(property=self.prop, key=key, seed=self.seed, tier=self.tier, what=text)
        obj.update(replay_obj or {})
        with open(path, "w") as f:
            json.dump(obj, f, indent=1, default=str)
        tail = " no-failing-input-found" if no_input else ""
        log("VIOLATION property=%s replay=%s%s" % (self.prop, path, tail))
        log("  -> %s" % text[:500])
        self.violations.append((path, text))
        return True

    # -- evidence ----------------------------------------------------------
    def write_evidence(self, level, coverage, assumptions=()):
        ev = dict(property_id=self.prop, tier=self.tier, seed=self.seed, level=level,
                  coverage=coverage, assumptions=list(assumptions),
                  wall_s=round(time.time() - self.t0, 2), violations=len(self.violations))
        ev["coverage"]["known_findings_hit"] = [k for k, _ in self.known_hits]
        if self.notes:
            ev["coverage"]["notes"] = self.notes
        path = os.path.join(EVIDENCE, self.prop + ".json")
        with open(path, "w") as f:
            json.dump(ev, f, indent=1, default=str)
        return path

    def exit_code(self):
        return 1 if self.violations else 0


def load_known(prop):
    """known-findings.txt lines:  known: property=Cxx key=<key> <description>
                                   fixed: property=Cxx <commit> <description>   (suppresses nothing)"""
    res = []
    if not os.path.exists(KNOWN):
        return res
    for line in open(KNOWN, encoding="utf-8"):
        line = line.strip()
        m = re.match(r"^known:\s+property=(\S+)\s+key=(\S+)\s+(.*)$", line)
        if m and m.group(1) == prop:
            res.append((m.group(2), m.group(3)))
    return res


# --------------------------------------------------------------------------- proof obligations (shared recipe)

def proof_obligations(ctx, prop_module, prop_file, build_targets=None, extra_allowed=(),
                      hygiene_paths=("DoraModel",), extra_theorems=()):
    """Builds the property module, audits its theorems. Returns dict for evidence:
       {obligations, discharged, checker_cmd, trusted_base, theorems:{name:axioms}, build_ok, failed:[...]}.
    Does NOT report violations itself; the caller decides (so it can run its search first)."""
    targets = list(build_targets or [prop_module])
    names = lean_theorems(prop_file) + list(extra_theorems)
    ok, out = lean_build(targets)
    res = dict(obligations=len(names), discharged=0,
               checker_cmd="cd /verif/lean && lake build %s && lake env lean <#print axioms of every theorem in %s>"
               % (" ".join(targets), prop_file),
               trusted_base=["Lean 4.33.0 kernel+elaborator", "axioms: propext, Classical.choice, Quot.sound"
                             + ("".join(", " + a for a in extra_allowed))],
               theorems={}, build_ok=ok, failed=[], build_log_tail="")
    if not ok:
        res["build_log_tail"] = out[-3000:]
        # which theorems failed? look for error lines
        errs = re.findall(r"error: ([^\n]*)", out)
        res["failed"] = errs[:20] or ["lake build failed"]
        return res
    hy = lean_hygiene(hygiene_paths)
    if hy:
        res["failed"] = ["forbidden construct: " + h for h in hy[:10]]
        res["build_ok"] = False
        return res
    aok, axs, alog, bad = lean_audit(prop_module, names, extra_allowed)
    res["theorems"] = axs
    res["discharged"] = len([n for n in names if n in axs and n not in bad])
    if not aok:
        res["failed"] = ["axiom audit: %s -> %s" % (k, v) for k, v in bad.items()]
    if ctx.tier == "thorough":
        rc, lc = sh(["lake", "env", "leanchecker", prop_module], cwd=LEAN, timeout=3000)
        res["leanchecker_rc"] = rc
        if rc != 0:
            res["failed"].append("leanchecker rc=%d: %s" % (rc, lc[-500:]))
    return res


def diff_streams(a_lines, b_lines):
    """Index of first difference or -1."""
    n = min(len(a_lines), len(b_lines))
    for i in range(n):
        if a_lines[i] != b_lines[i]:
            return i
    if len(a_lines) != len(b_lines):
        return n
    return -1


def all_diffs(a_lines, b_lines, limit=50):
    res = []
    n = max(len(a_lines), len(b_lines))
    for i in range(n):
        a = a_lines[i] if i < len(a_lines) else "<missing>"
        b = b_lines[i] if i < len(b_lines) else "<missing>"
        if a != b:
            res.append(i)
            if len(res) >= limit:
                break
    return res
