"""C06 — The front end never crashes, whatever text it is given.

proof:  lean/DoraModel/Props/C06.lean over C16's hand models (lexer, parser core) and C20's line/column model:
        the lexer model is total (never the `panic` outcome, never out of fuel) with in-range error spans,
        every core operation either returns a state or the named panic, loops that consume a token per
        iteration stop within `tokens.len()` iterations, `compute_line_column` is total.
        Semantic analysis is NOT modelled: its specification is "success or a non-empty list of diagnostics
        with spans inside their files" and it is only explored below.
tie:    the lexer / core models are tied to dora-parser by C16's correspondence run (not repeated here).
oracle: (a) in-process: h_c06 runs the REAL front end (`Sema` + `check_program`, real stdlib sources) on every
            text in a worker thread (256 MB stack, 20 s limit, catch_unwind): no panic / abort / timeout, success
            flag = absence of errors, every diagnostic span inside the file it names, printable messages;
        (b) CLI: `dora compile --cannon -c` on a sample (always incl. every panicking input found in (a)):
            exit status 0 or 1, `error:` messages, no "panicked at", no signal.
Panics on inputs meant to be valid are keyed per SITE (`oracle:panic:<file>:<enclosing fn>`), panics on deliberately broken
inputs per source FILE (`oracle:panic-on-invalid-input:<file>`), each with a minimised input; see finding_key().
"""
import concurrent.futures
import hashlib
import json
import os
import re
import shutil
import subprocess

from . import common as C

PROP_MODULE = "DoraModel.Props.C06"
PROP_FILE = "DoraModel/Props/C06.lean"
DIAG_RS = os.path.join(C.REPO, "dora-frontend/src/error/diagnostics.rs")
NPROC = max(2, min(16, os.cpu_count() or 4))


def unhex(s):
    return b"" if s == "-" else bytes.fromhex(s)


def hexs(b):
    return b.hex() if b else "-"


def fnv32(s):
    h = 0x811c9dc5
    for b in s.encode("utf-8"):
        h ^= b
        h = (h * 0x01000193) & 0xFFFFFFFF
    return "%08x" % h


def diag_names():
    """id (FNV-1a-32 of the message template) -> name of the static in diagnostics.rs"""
    res = {}
    try:
        src = open(DIAG_RS, encoding="utf-8").read()
    except OSError:
        return res
    for m in re.finditer(r'pub static ([A-Z0-9_]+): DiagnosticDescriptor = DiagnosticDescriptor \{\s*message:\s*"((?:[^"\\]|\\.)*)"', src):
        msg = m.group(2)
        msg = re.sub(r"\\\n\s*", "", msg)
        msg = msg.replace('\\"', '"').replace("\\n", "\n").replace("\\t", "\t").replace("\\\\", "\\")
        res[fnv32(msg)] = m.group(1)
    return res


def diag_referenced(names):
    """names of descriptors that dora-frontend's code refers to outside diagnostics.rs (the others are dead)"""
    want = set(names.values())
    seen = set()
    root = os.path.join(C.REPO, "dora-frontend/src")
    for d, _, fs in os.walk(root):
        for f in fs:
            if not f.endswith(".rs") or os.path.join(d, f) == DIAG_RS:
                continue
            try:
                src = open(os.path.join(d, f), encoding="utf-8").read()
            except OSError:
                continue
            for w in set(re.findall(r"\b[A-Z][A-Z0-9_]{3,}\b", src)):
                if w in want:
                    seen.add(w)
    return seen


def enclosing_fn(site):
    """`file:line[@caller<caller2]` -> `file:[Impl::]fn[@caller]` by scanning the source backwards for `fn <name>`
    and the `impl` block around it; falls back to file:line.  Line numbers shift when a file is edited, names
    rarely do.  For the generic accessor `File::syntax_by_ptr` both recorded caller frames are kept, otherwise one."""
    base, _, callers = site.partition("@")
    m = re.match(r"^(.*):(\d+)$", base)
    if not m:
        return site
    path = os.path.join(C.REPO, m.group(1))
    try:
        lines = open(path, encoding="utf-8").read().split("\n")
    except OSError:
        return site
    i = min(int(m.group(2)), len(lines)) - 1
    name = None
    while i >= 0:
        f = re.match(r"(\s*)(?:pub(?:\([a-z]+\))?\s+)?(?:const\s+)?(?:unsafe\s+)?fn\s+([A-Za-z0-9_]+)", lines[i])
        if f:
            name = f.group(2)
            if f.group(1):
                j = i
                while j >= 0:
                    im = re.match(r"impl(?:<[^>]*>)?\s+(?:.*\s+for\s+)?([A-Za-z0-9_]+)", lines[j])
                    if im:
                        name = im.group(1) + "::" + name
                        break
                    if re.match(r"(?:pub\s+)?(?:fn|mod|trait)\s", lines[j]):
                        break
                    j -= 1
            break
        i -= 1
    if name is None:
        return site
    key = "%s:%s" % (m.group(1), name)
    if callers:
        fr = callers.split("<")
        key += "@" + ("<".join(fr[:2]) if name.endswith("syntax_by_ptr") else fr[0])
    return key


def base_site(site):
    return site.split("@")[0]


# ----------------------------------------------------------------------------- running the harness (sharded)

def run_shard(hbin, reqs, tag, per_req_s=25):
    """Answers `reqs` (list of request lines) with one `h_c06 run` process; if the process dies (stack overflow,
    abort) the request it died on gets `!abort rc=<n>` and a new process continues with the rest."""
    out = []
    tmp = os.path.join(C.BUILD, "tmp")
    pos = 0
    restarts = 0
    while pos < len(reqs):
        rf = os.path.join(tmp, "c06_%d_%s.req" % (os.getpid(), tag))
        with open(rf, "w") as f:
            f.write("\n".join(reqs[pos:]) + "\n")
        try:
            p = subprocess.run([hbin, "run", rf], stdout=subprocess.PIPE, stderr=subprocess.PIPE,
                               timeout=120 + per_req_s * (len(reqs) - pos), text=True, errors="replace")
            rc, so, se = p.returncode, p.stdout, p.stderr
        except subprocess.TimeoutExpired as ex:
            so = ex.stdout or ""
            if isinstance(so, bytes):
                so = so.decode("utf-8", "replace")
            rc, se = 124, "[harness timeout]"
        os.unlink(rf)
        lines = so.split("\n")
        if lines and lines[-1] == "":
            lines.pop()
        elif lines:
            lines.pop()               # an incomplete last line: the process died while writing
        lines = lines[:len(reqs) - pos]
        out += lines
        pos += len(lines)
        if pos < len(reqs):
            if rc == 0 and not lines:
                out.append("!abort rc=0 no-answer")
            else:
                tail = (se.strip().splitlines() or [""])[-1][:120]
                out.append("!abort rc=%s %s" % (rc, tail))
            pos += 1
            restarts += 1
            if restarts > 50:
                out += ["!abort skipped"] * (len(reqs) - pos)
                break
    return out


def run_sharded(hbin, reqs, tag, nproc=NPROC, per_req_s=25):
    if not reqs:
        return []
    n = min(nproc, len(reqs))
    shards = [reqs[k::n] for k in range(n)]
    with concurrent.futures.ThreadPoolExecutor(max_workers=n) as ex:
        futs = [ex.submit(run_shard, hbin, shards[k], "%s%d" % (tag, k), per_req_s) for k in range(n)]
        res = [f.result() for f in futs]
    out = [None] * len(reqs)
    for k in range(n):
        for j, r in enumerate(res[k]):
            out[k + j * n] = r
    return out


# Files whose behaviour is modelled and proved total in Lean (C16/C06 theorems): a panic there is never "expected".
PROVED_TOTAL = ("dora-parser/src/lexer.rs", "dora-parser/src/green.rs", "dora-parser/src/lib.rs", "dora-parser/src/span.rs")


def finding_key(site, family):
    """Identity of a front-end panic: one finding per panic SITE, named by source file and enclosing function (line
    numbers shift when a file is edited, names rarely do): oracle:panic:<file>:<[Impl::]fn>[@caller].
    (Round 1 grouped panics on deliberately broken input per source FILE, because ~30 sites were known and new seeds kept
    finding more; after the round-2 repairs of /repo — fixes/C06-01 … C06-18 — almost none remain, and a per-file key
    would hide a regression in a file that still has one listed site.)"""
    fk = enclosing_fn(site)
    file_ = fk.split(":")[0]
    if file_ == "dora-frontend/src/generator/bytecode.rs":
        # the BytecodeBuilder::emit_* methods all assert the register types of their operands; the generated programs
        # that trip them (generic structs/enums, code after an infinite loop) trip whichever emit_* comes first
        return "oracle:panic:" + file_ + ":BytecodeBuilder::emit_*"
    return "oracle:panic:" + fk


def read_requests(path):
    """-> list of (family, request line)"""
    fam = "?"
    res = []
    for line in open(path, encoding="utf-8"):
        line = line.rstrip("\n")
        if not line:
            continue
        if line.startswith("#"):
            fam = line[1:].strip()
            continue
        res.append((fam, line))
    return res


# ----------------------------------------------------------------------------- CLI leg

def cli_one(dora, workdir, idx, text):
    d = os.path.join(workdir, "p%d" % idx)
    os.makedirs(d, exist_ok=True)
    src = os.path.join(d, "main.dora")
    with open(src, "wb") as f:
        f.write(text)
    try:
        p = subprocess.run([dora, "compile", "--cannon", "-c", src, "-o", os.path.join(d, "out.dora-package")],
                           cwd=d, stdout=subprocess.PIPE, stderr=subprocess.PIPE, timeout=120)
        rc, err = p.returncode, (p.stdout + p.stderr).decode("utf-8", "replace")
    except subprocess.TimeoutExpired:
        rc, err = 124, "[timeout]"
    shutil.rmtree(d, ignore_errors=True)
    return rc, err


def cli_verdict(rc, err, inproc):
    """-> (class, site or None, problem or None)"""
    m = re.search(r"panicked at ([^\s:]+):(\d+)", err)
    if m:
        f = m.group(1)
        f = f[len("/repo/"):] if f.startswith("/repo/") else f
        return "panic", "%s:%s" % (f, m.group(2)), "compile command panicked (exit %s): %s" % (rc, err.strip().splitlines()[0][:160] if err.strip() else "")
    if rc < 0 or rc >= 124 or rc == 101:
        return "signal", None, "compile command ended with status %s (signal / abort / timeout)" % rc
    if rc == 0:
        if inproc.startswith("errors"):
            return "exit0", None, "compile command succeeded although the analysis reports errors"
        return "exit0", None, None
    if rc == 1:
        if not re.search(r"^error: ", err, re.M) and "rror" not in err:
            return "exit1", None, "failure status without a readable message: %r" % err[:160]
        if inproc.startswith("ok"):
            # accepted by the analysis, refused later (bytecode generation / packaging): not this property's subject
            return "exit1-after-sema", None, None
        return "exit1", None, None
    return "exit%d" % rc, None, "undocumented exit status %s: %r" % (rc, err[:160])


# ----------------------------------------------------------------------------- the check

def run(ctx):
    import time
    notes = []
    phases = {}
    t_last = [time.time()]

    def phase(name):
        now = time.time()
        phases[name] = round(now - t_last[0], 1)
        t_last[0] = now
    tmp = os.path.join(C.BUILD, "tmp")
    os.makedirs(tmp, exist_ok=True)
    po = C.proof_obligations(ctx, PROP_MODULE, PROP_FILE,
                             hygiene_paths=("DoraModel/Syntax", "DoraModel/Position", PROP_FILE))
    # the front end looks for the stdlib sources in a directory `pkgs` next to an ancestor of the executable
    lnk = os.path.join(C.BUILD, "pkgs")
    if not os.path.islink(lnk) and not os.path.exists(lnk):
        os.symlink(os.path.join(C.REPO, "pkgs"), lnk)
    hbin, hlog = C.build_harness("h_c06")
    if hbin is None:
        ctx.finding("corr:build", dict(kind="correspondence", log=hlog[-3000:]),
                    "harness does not build against /repo (API of dora-frontend / dora-parser changed?)", no_input=True)
    phase("proof+harness build (incl. waiting for the shared lake/cargo locks)")
    names = diag_names()
    stats = dict(evaluations=0, distinct=set(), hist={}, diag={}, sites={}, samples=[], oracle_failures=0,
                 ok=0, errors=0, panics=0, timeouts=0, aborts=0, cli_runs=0, cli_hist={}, min_evals=0, panic_table=[], slow_but_finished=0)
    site_inputs = {}      # site (file:line) -> list of (len, text, family)
    pairs = []

    def bump(d, k, n=1):
        d[k] = d.get(k, 0) + n

    def fail(key, replay, text):
        stats["oracle_failures"] += 1
        ctx.finding(key, replay, text)

    if hbin:
        # ---- requests: corpus first, then generated
        reqs = []
        if ctx.replay:
            r = json.load(open(ctx.replay))
            if "request" in r:
                reqs.append(("replay", r["request"]))
        else:
            cdir = os.path.join(C.VERIF, "corpus", "C06")
            if os.path.isdir(cdir):
                for f in sorted(os.listdir(cdir)):
                    if f.endswith(".req"):
                        reqs += [("corpus:" + fam, l) for fam, l in read_requests(os.path.join(cdir, f))]
            if ctx.tier == "quick":
                args = ["150", "450", "250", "500"]
            else:
                args = ["100000", "40000", "15000", "30000"]
            gf = os.path.join(tmp, "c06_gen_%d.req" % os.getpid())
            rc, _, err = C.sh2("%s gen %s > %s" % (hbin, " ".join(args), gf), env={"VERIF_SEED": str(ctx.seed)}, timeout=3600)
            if rc != 0:
                raise RuntimeError("h_c06 gen failed: " + err[-2000:])
            reqs += read_requests(gf)
            os.unlink(gf)
        phase("generate")
        resp = run_sharded(hbin, [l for _, l in reqs], "s")
        # a `!timeout` on a loaded machine may be a cold start: look at each again, alone, with a 10x limit
        slow = [i for i, a in enumerate(resp) if a and a.startswith("!timeout")]
        if slow:
            again = run_shard(hbin, [reqs[i][1] + " 200" for i in slow], "t", per_req_s=220)
            for i, a in zip(slow, again):
                if a and not a.startswith("!timeout"):
                    resp[i] = a
                    stats["slow_but_finished"] += 1
        phase("in-process analysis")
        pairs = list(zip(reqs, resp))

        # ---- the oracle on every answer
        for (fam, line), a in pairs:
            stats["evaluations"] += 1
            fam0 = fam.split(":")[0] if not fam.startswith("corpus") else "corpus"
            bump(stats["hist"], "family:" + fam0)
            if fam.startswith("mutant:") or fam.startswith("grammar:"):
                for part in fam.split(":", 1)[1].split("+"):
                    bump(stats["hist"], fam0 + ":" + part)
            text = unhex(line.split(" ")[1])
            a = a or "!abort no-answer"
            cls = a.split(" ")[0]
            nontrivial = False
            if cls == "ok":
                stats["ok"] += 1
                bump(stats["hist"], "answer:ok")
                k = int(re.search(r"kinds=(\d+)", a).group(1))
                nontrivial = k >= 3
                m = re.search(r"diag=(\S+)", a)
                if m and m.group(1) != "-":
                    for kv in m.group(1).split(","):
                        h, n = kv.split(":")
                        bump(stats["diag"], names.get(h, "id_" + h), int(n))
            elif cls == "errors":
                stats["errors"] += 1
                nontrivial = True
                if " OUT-OF-RANGE " in a:
                    bump(stats["hist"], "answer:errors-OUT-OF-RANGE")
                    fail("oracle:span-out-of-range", dict(kind="oracle", request=line, family=fam, impl=a[:500],
                                                          text_preview=text[:400].decode("utf-8", "replace")),
                         "a diagnostic names a location outside its file: %s" % a[:200])
                else:
                    bump(stats["hist"], "answer:errors")
                    m = re.search(r"diag=(\S+) dump=(\S+)", a)
                    if m and m.group(1) != "-":
                        for kv in m.group(1).split(","):
                            h, n = kv.split(":")
                            bump(stats["diag"], names.get(h, "id_" + h), int(n))
                    if m and m.group(2) != "ok":
                        fail("oracle:unreadable-messages", dict(kind="oracle", request=line, impl=a[:300]),
                             "diagnostics could not be rendered as messages: %s" % a[:120])
                    if len(stats["samples"]) < 4 and 20 < len(text) < 90:
                        stats["samples"].append(dict(family=fam, text=text.decode("utf-8", "replace"), answer=a))
            elif cls == "!panic":
                stats["panics"] += 1
                nontrivial = True
                site = a.split(" ")[1] if len(a.split(" ")) > 1 else "?:0"
                bump(stats["hist"], "answer:panic")
                bump(stats["sites"], site)
                site_inputs.setdefault(site, []).append((len(text), text, fam, a))
            elif cls == "!timeout":
                stats["timeouts"] += 1
                nontrivial = True
                bump(stats["hist"], "answer:timeout")
                fail("oracle:timeout", dict(kind="oracle", request=line, family=fam,
                                            text_preview=text[:400].decode("utf-8", "replace")),
                     "front end did not finish within 20 s (nor within 200 s when run alone) on a %d-byte text (family %s)" % (len(text), fam))
            elif cls == "!abort":
                stats["aborts"] += 1
                nontrivial = True
                bump(stats["hist"], "answer:abort")
                fail("oracle:abort", dict(kind="oracle", request=line, family=fam, impl=a[:300],
                                          text_preview=text[:400].decode("utf-8", "replace")),
                     "front-end process died (stack overflow / abort) on a %d-byte text (family %s): %s" % (len(text), fam, a[:120]))
            elif cls == "!flag":
                bump(stats["hist"], "answer:flag-mismatch")
                fail("oracle:success-flag", dict(kind="oracle", request=line, impl=a),
                     "check_program's success flag disagrees with the diagnostics list: " + a)
            else:
                bump(stats["hist"], "answer:" + cls)
                fail("oracle:harness", dict(kind="oracle", request=line[:2000], impl=a[:300]), "unexpected answer " + a[:100])
            if nontrivial:
                stats["distinct"].add(hashlib.sha1(text).digest()[:12])

        # ---- one finding per panic site, with a minimised input
        groups = {}       # finding key -> inputs (several raw sites / caller chains may share one key)
        for site, lst in site_inputs.items():
            for x in lst:
                groups.setdefault(finding_key(site, x[2]), []).append(x + (site,))
        keys_sorted = sorted(groups)
        budget = "150" if ctx.tier == "quick" else "1500"
        starts = [min(groups[k], key=lambda x: x[0]) for k in keys_sorted]
        # corpus entries (earlier minimised crashers) and inputs of at most 24 bytes are not minimised again
        todo = [i for i, st in enumerate(starts) if st[0] > 24 and not st[2].startswith("corpus")]
        mins = [None] * len(starts)
        for i, m in zip(todo, run_sharded(hbin, ["min %s %s" % (hexs(starts[i][1]), budget) for i in todo], "m", per_req_s=3000)):
            mins[i] = m
        phase("minimise")
        minimized = {}
        reported_bases = set()
        for key, st, m in zip(keys_sorted, starts, mins):
            text, s = st[1], st[4]
            p = (m or "").split(" ")
            if len(p) >= 4 and p[0] == "min" and p[1] == s:
                text = unhex(p[2])
                stats["min_evals"] += int(p[3])
            elif len(p) >= 2 and p[0] == "min" and p[1] != "-":
                notes.append("minimiser drifted from %s to %s; kept the unminimised input" % (s, p[1]))
            minimized[key] = (text, s)
            for x in groups[key]:
                reported_bases.add(base_site(x[4]))
            stats["oracle_failures"] += 1
            stats["panic_table"].append(dict(key=key, site=s, inputs=len(groups[key]),
                                             message=st[3].split(" ", 2)[2][:100] if len(st[3].split(" ", 2)) > 2 else "",
                                             minimized=text.decode("utf-8", "replace")))
            ctx.finding(key, dict(kind="oracle", request="sema " + hexs(text), site=s, family=st[2], panic=st[3][:300],
                                  inputs_hitting_site=len(groups[key]), minimized_text=text.decode("utf-8", "replace"),
                                  original_len=st[0],
                                  how_to_replay="./check C06 --replay <this file>  (or: dora compile --cannon -c <file with minimized_text>)"),
                        "front end panics at %s (%s) on %r  [%d input(s) of this run]"
                        % (s, st[3].split(" ", 2)[2][:80] if len(st[3].split(" ", 2)) > 2 else "", text.decode("utf-8", "replace")[:120],
                           len(groups[key])))

        # ---- CLI leg
        try:
            tc = C.toolchain(need_boots=False)
        except RuntimeError as ex:
            tc = None
            ctx.finding("corr:toolchain", dict(kind="correspondence", log=str(ex)[-2000:]), "tool chain does not build", no_input=True)
        if tc:
            nsample = 40 if ctx.tier == "quick" else 600
            sample = [(("minimized:" + k), minimized[k][0], "!panic " + minimized[k][1]) for k in keys_sorted]
            rng = ctx.rng()
            rest = [p for p in pairs if p[1] and not p[1].startswith("!")]
            byfam = {}
            for (fam, line), a in rest:
                byfam.setdefault(fam.split(":")[0] + ":" + a.split(" ")[0], []).append(((fam, line), a))
            keys = sorted(byfam)
            i = 0
            while len(sample) < nsample and keys:
                k = keys[i % len(keys)]
                lst = byfam[k]
                if lst:
                    (fam, line), a = lst.pop(rng.randrange(len(lst)))
                    sample.append((fam, unhex(line.split(" ")[1]), a))
                else:
                    keys.remove(k)
                    continue
                i += 1
            wd = os.path.join(tmp, "c06_cli_%d" % os.getpid())
            os.makedirs(wd, exist_ok=True)
            with concurrent.futures.ThreadPoolExecutor(max_workers=NPROC) as ex:
                futs = [ex.submit(cli_one, tc["dora"], wd, i, t) for i, (_, t, _) in enumerate(sample)]
                cres = [f.result() for f in futs]
            shutil.rmtree(wd, ignore_errors=True)
            phase("cli (incl. tool-chain build / lock)")
            for (fam, text, inproc), (rc, err) in zip(sample, cres):
                stats["cli_runs"] += 1
                cls, site, problem = cli_verdict(rc, err, inproc)
                bump(stats["cli_hist"], "cli:" + cls)
                if len(stats["samples"]) < 6 and cls == "exit1" and len(text) < 120:
                    stats["samples"].append(dict(family=fam, text=text.decode("utf-8", "replace"), in_process=inproc[:120],
                                                 cli_status=rc, cli_first_line=(err.strip().splitlines() or [""])[0][:120]))
                if problem is None:
                    continue
                if cls == "panic":
                    bump(stats["cli_hist"], "cli:panic@" + site)
                    if site in reported_bases:
                        continue          # the same site as an in-process finding of this run: one defect, one finding
                    key = finding_key(site, fam)
                else:
                    key = "oracle:cli:" + cls
                stats["oracle_failures"] += 1
                ctx.finding(key, dict(kind="oracle", leg="cli", request="sema " + hexs(text), family=fam, status=rc,
                                      output=err[-1500:], in_process=inproc[:200],
                                      how_to_replay="dora compile --cannon -c main.dora  (text = the request, hex)"),
                            "`dora compile` on %r: %s" % (text.decode("utf-8", "replace")[:80], problem))

    if not po["build_ok"] or po["failed"]:
        ctx.finding("proof:C06", dict(kind="proof", failed=po["failed"], log=po.get("build_log_tail", "")),
                    "property theorems of C06 no longer check: %s" % "; ".join(po["failed"])[:400],
                    no_input=stats["oracle_failures"] == 0)

    site_table = stats["panic_table"]
    for row in site_table:
        C.log("C06: panic site %-70s inputs=%-4d minimized=%r" % (row["key"], row["inputs"], row["minimized"][:100]))
    diag_sorted = dict(sorted(stats["diag"].items(), key=lambda kv: -kv[1]))
    referenced = diag_referenced(names)
    not_hit = sorted(referenced - set(diag_sorted))
    C.log("C06: %d inputs: %d ok, %d with diagnostics, %d panics at %d raw locations, %d timeouts, %d aborts; %d diagnostic kinds; cli %s"
          % (stats["evaluations"], stats["ok"], stats["errors"], stats["panics"], len(stats["sites"]), stats["timeouts"],
             stats["aborts"], len(diag_sorted), stats["cli_hist"]))
    C.log("C06: %d of the %d diagnostic kinds the analysis can emit were hit (%d defined); not hit: %s"
          % (len(set(diag_sorted) & referenced), len(referenced), len(names), ", ".join(not_hit)))
    C.log("C06: diagnostic kinds hit: " + ", ".join("%s:%d" % kv for kv in list(diag_sorted.items())[:400]))
    cov = dict(obligations=po["obligations"], discharged=po["discharged"], checker_cmd=po["checker_cmd"],
               trusted_base=po["trusted_base"] + [
                   "the lexer / parser-core models are C16's (DoraModel/Syntax), tied to dora-parser by C16's correspondence run; "
                   "the line/column model is C20's (DoraModel/Position)",
                   "NOT proved: the grammar routines of parser.rs and all of semantic analysis (dora-frontend) — only explored "
                   "by the in-process and CLI runs below, against the specification 'success or a non-empty diagnostic list "
                   "with spans inside their files'",
                   "harness h_c06 (catch_unwind, panic hook, worker thread with 256 MB stack, 20 s limit), checks/c06.py"],
               theorems=po["theorems"],
               evaluations=stats["evaluations"], distinct_nontrivial=len(stats["distinct"]),
               rule="texts from corpus/C06 and `h_c06 gen` (seeded): ~190 fixed edge cases; a seeded sample of the repository's "
                    ".dora files (quick: 150, thorough: all; files over 40 kB only as mutant donors); token-level mutants of them "
                    "(delete/duplicate/swap/replace/insert/truncate/splice two files/flip delimiters/copy a token of the same file, "
                    "1-3 per text); token soups over keywords, operators, literals, stdlib names, trivia, unknown characters; "
                    "grammar-directed programs (typed generator over items/statements/expressions/patterns/types, one third meant "
                    "valid, the rest seeded with faults: wrong arity, unknown names/types/fields/methods, duplicate definitions, bad "
                    "generics, cyclic aliases, wrong types, misplaced break/return, non-exhaustive or malformed patterns, syntax "
                    "slips, nesting up to depth 200). Each text is analysed by the real front end in-process; non-trivial = the "
                    "text yields >= 1 diagnostic (or a panic/timeout/abort) or parses to >= 3 distinct top-level item kinds; "
                    "distinct = distinct texts",
               inputs_ok=stats["ok"], inputs_with_diagnostics=stats["errors"], inputs_panicking=stats["panics"],
               timeouts=stats["timeouts"], aborts=stats["aborts"],
               answers_over_20s_that_finished_within_200s_when_run_alone=stats["slow_but_finished"],
               panic_sites=site_table, panic_sites_distinct=len(site_table), panic_raw_locations=stats["sites"],
               minimiser_evaluations=stats["min_evals"],
               diagnostic_kinds=diag_sorted, diagnostic_kinds_distinct=len(diag_sorted),
               diagnostic_kinds_defined=len(names), diagnostic_kinds_referenced_in_code=len(referenced),
               diagnostic_kinds_referenced_not_hit=not_hit,
               cli_runs=stats["cli_runs"], cli_histogram=stats["cli_hist"],
               histogram=stats["hist"], samples=stats["samples"] or [dict(note="no sample")],
               disagreements=0, oracle_failures=stats["oracle_failures"],
               explored_not_proved="semantic analysis (everything after parsing) and the grammar routines: panic-freedom, "
                                   "termination and in-range spans are checked on the inputs above only")
    C.log("C06: phases (s): %s" % phases)
    ctx.notes += notes
    cov["phase_seconds"] = phases
    ctx.write_evidence("proof", cov, assumptions=[
        "texts are shorter than 2^32 bytes (u32 offsets); lengths are natural numbers in the models",
        "the theorems speak about the hand-written models of the lexer and the parser core; agreement with dora-parser is "
        "C16's correspondence run",
        "size / nesting bound of the exploration: texts up to ~40 kB, nesting depth <= 200, 256 MB stack, 20 s per text",
        "a diagnostic without file and span (e.g. a missing `main`) refers to no file and is accepted"])
