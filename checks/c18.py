"""C18 — Packages and bytecode survive being written and read back.

proof:  lean/DoraModel/Props/C18.lean over lean/DoraModel/Bytecode/{Model,Writer,Bincode}.lean and the tables
        lean/DoraModel/Gen/BcOpcodes.lean, which tools/gen_bc.py REGENERATES from /repo/dora-bytecode/src on
        every run (opcode numbers, operand layout of every emit_* / read_instruction arm)
tie:    regeneration + correspondence: h_c18 (real BytecodeWriter / reader / bincode) vs drv_c18 (Lean) on the
        same requests; every function body of real packages read by both readers
oracle: on the implementation itself: read(write(p)) == p per session; real packages decode -> re-encode to the
        same bytes and every body re-written by the real writer gives the same bytes; package build == source
        build; damaged packages: in-process decode and the code generator end in success or an error message,
        never a panic / signal
"""
import concurrent.futures
import os
import re
import shutil
import subprocess
import sys

from . import common as C

PROP_MODULE = "DoraModel.Props.C18"
PROP_FILE = "DoraModel/Props/C18.lean"
TOOLS = os.path.join(C.VERIF, "tools")

SOURCES = [
    # (name, path or inline text)
    ("hello", 'fn main() {\n    println("hello");\n}\n'),
    ("wide", None),   # generated: many locals / constants / long jumps (operands beyond one varint byte)
]
REPO_SOURCES_QUICK = ["test/rt/whiletrue.dora", "bench/fannkuchredux/fannkuchredux.dora"]


def canon(line):
    return "!panic" if line.startswith("!panic") else line


def wide_program():
    """A Dora program whose main function needs > 128 registers, > 128 constants and jumps over > 16 KiB."""
    L = ["fn main() {", "    let mut s: Int64 = 0;"]
    for i in range(300):
        L.append("    let v%d: Int64 = %d;" % (i, 100000 + i * 7919))
    L.append("    let mut i: Int64 = 0;")
    L.append("    while i < 3 {")
    for i in range(300):
        L.append("        if v%d > i { s = s + v%d * %d; }" % (i, i, 3 + i))
    L.append("        i = i + 1;")
    L.append("    }")
    for i in range(0, 300, 7):
        L.append('    if s == %d { println("x%d"); }' % (i, i))
    L.append("    if s > 5 { println(\"big\"); }")
    L.append("}")
    return "\n".join(L) + "\n"


def run_requests(ctx, hbin, drv, reqs, label, stats):
    os.makedirs(C.BUILD + "/tmp", exist_ok=True)
    rf = os.path.join(C.BUILD, "tmp", "c18_%s_%d.req" % (label, os.getpid()))
    text = "\n".join(reqs) + "\n"
    open(rf, "w").write(text)
    rc1, impl, err1 = C.sh2([hbin, "run", rf], timeout=1800)
    rc2, model, err2 = C.sh2([drv], stdin=text, timeout=1800)
    os.unlink(rf)
    il = impl.splitlines()
    ml = model.splitlines()
    if rc1 != 0 or rc2 != 0 or len(il) != len(reqs) or len(ml) != len(reqs):
        ctx.finding("corr:stream", dict(kind="correspondence", detail="response streams incomplete", label=label,
                                        rc_impl=rc1, rc_model=rc2, n_req=len(reqs), n_impl=len(il),
                                        n_model=len(ml), stderr=(err1 + err2)[-2000:],
                                        next_request=reqs[min(len(il), len(ml), len(reqs) - 1)][:500]),
                    "harness or driver did not answer every request (%s): impl %d, model %d of %d"
                    % (label, len(il), len(ml), len(reqs)), no_input=True)
        return
    for i, req in enumerate(reqs):
        stats["evaluations"] += 1
        kind = req.split(" ", 1)[0]
        h = stats["hist"]
        h[kind] = h.get(kind, 0) + 1
        a, b = canon(il[i]), ml[i]
        nontrivial = False
        if kind == "bc":
            if a == "!panic":
                h["bc_refused"] = h.get("bc_refused", 0) + 1
                nontrivial = True
            else:
                m = re.search(r"code=(\S+)", a)
                code = m.group(1) if m else ""
                if code.startswith("#"):
                    h["bc_code_over_2000_bytes"] = h.get("bc_code_over_2000_bytes", 0) + 1
                    nontrivial = True
                # a multi-byte varint or a jump somewhere
                if re.search(r"(^| )(jmp|jf|jt|loop|jtab),", req):
                    h["bc_with_jump"] = h.get("bc_with_jump", 0) + 1
                    nontrivial = True
                if re.search(r"[,:\[](1[3-9]\d|[2-9]\d\d|\d{4,})", req):
                    h["bc_operand_over_127"] = h.get("bc_operand_over_127", 0) + 1
                    nontrivial = True
                if " k," in req:
                    h["bc_const_pool_filled"] = h.get("bc_const_pool_filled", 0) + 1
        elif kind == "rd":
            if a == "!panic":
                h["rd_refused"] = h.get("rd_refused", 0) + 1
            nontrivial = True
        elif kind == "bin":
            if a == "err":
                h["bin_refused"] = h.get("bin_refused", 0) + 1
            nontrivial = len(req.split(" ")[2]) > 2
        if nontrivial:
            stats["distinct"].add(req if len(req) < 300 else hash(req))
        if len(stats["samples"]) < 6 and nontrivial and i % 211 == 3:
            stats["samples"].append(dict(request=req[:300], impl=a[:300], model=b[:300]))
        if a != b:
            stats["disagreements"] += 1
            o = "rt=FAIL" in a
            ctx.finding("corr:%s" % kind,
                        dict(kind="correspondence", request=req, impl=il[i][:4000], model=ml[i][:4000],
                             how_to_replay="./check C18 --replay <this file>"),
                        "model and implementation disagree on `%s`: impl=%s model=%s"
                        % (req[:160], a[:120], b[:120]), no_input=not o)
        if "rt=FAIL" in a:
            stats["oracle_failures"] += 1
            why = a[a.index("rt=FAIL"):][:200]
            ctx.finding("oracle:roundtrip:" + re.sub(r"[^A-Za-z]+", "-", why.split(":", 1)[1])[:40],
                        dict(kind="oracle", request=req, impl=il[i][:4000], why=why),
                        "written instructions do not read back as written: %s (request %s)" % (why, req[:200]))


def own_toolchain(tc, work):
    """Hard-link the binaries we use into our scratch directory: the shared tool-chain directory is replaced
    when /repo's tree hash changes while we run."""
    bind = os.path.join(work, "bin")
    os.makedirs(bind, exist_ok=True)
    src = os.path.dirname(tc["dora"])
    for f in ["dora", "dora-cannon-compiler", "libdora_runtime.a", "libdora_startup.a"]:
        d = os.path.join(bind, f)
        if os.path.exists(d):
            os.unlink(d)
        try:
            os.link(os.path.join(src, f), d)
        except OSError:
            shutil.copy2(os.path.join(src, f), d)
    return dict(dora=os.path.join(bind, "dora"), cannon=os.path.join(bind, "dora-cannon-compiler"))


def cannon_case(args):
    hbin, cannon, pkg, work, idx, kind, pos, bit = args
    d = os.path.join(work, "m%d" % idx)
    os.makedirs(d, exist_ok=True)
    mp = os.path.join(d, "m.dora-package")
    subprocess.run([hbin, "mutant", pkg, kind, str(pos), str(bit), mp], check=True)
    try:
        p = subprocess.run([cannon, mp, "-o", os.path.join(d, "m.s")], stdout=subprocess.PIPE,
                           stderr=subprocess.STDOUT, timeout=120, text=True, errors="replace")
        rc, out = p.returncode, p.stdout
    except subprocess.TimeoutExpired:
        rc, out = 124, "[timeout 120 s]"
    shutil.rmtree(d, ignore_errors=True)
    return idx, kind, pos, bit, rc, out


def lean_damage(ctx, drv, name, src, pkg, lines, stats, pk):
    """The real decoder refuses a damaged package exactly when the Lean decoder returns none; when both accept, the
    re-encodings are equal (hash + length)."""
    cases = []
    for l in lines:
        f = l.split(" ")
        if f[4] not in ("ok", "err"):
            continue
        m = re.search(r" re=(\S+)", l)
        cases.append((f[1], f[2], f[3], ("ok " + m.group(1)) if (f[4] == "ok" and m) else f[4]))
    if not cases:
        return
    nchunks = 6
    chunks = [cases[i::nchunks] for i in range(nchunks)]

    def run_chunk(ch):
        text = "".join("pkg %s %s %s %s\n" % (pkg, k, p, b) for (k, p, b, _) in ch)
        rc, out, err = C.sh2([drv], stdin=text, timeout=7200)
        return out.splitlines()

    with concurrent.futures.ThreadPoolExecutor(max_workers=nchunks) as ex:
        outs = list(ex.map(run_chunk, chunks))
    for ch, out in zip(chunks, outs):
        if len(out) != len(ch):
            ctx.finding("corr:stream", dict(kind="correspondence", detail="Lean driver did not answer every damaged-package request",
                                            package=name, n_req=len(ch), n_model=len(out)),
                        "Lean driver did not answer every damaged-package request (%s)" % name, no_input=True)
            continue
        for (k, p, b, want), got in zip(ch, out):
            stats["evaluations"] += 1
            h = stats["hist"]
            h["pkg_damaged"] = h.get("pkg_damaged", 0) + 1
            stats["distinct"].add("pkgmut %s %s %s %s" % (name, k, p, b))
            model = got.replace(" wf=true", "")
            pk["lean_damage_compared"] = pk.get("lean_damage_compared", 0) + 1
            if want.startswith("err"):
                pk["lean_damage_both_refuse"] = pk.get("lean_damage_both_refuse", 0) + 1 if model == "err" else pk.get("lean_damage_both_refuse", 0)
            if model != want or (got.startswith("ok") and "wf=true" not in got):
                stats["disagreements"] += 1
                ctx.finding("corr:pkg-damaged",
                            dict(kind="correspondence", package=name, source=src, mutation=dict(kind=k, pos=int(p), bit=int(b)),
                                 impl=want, model=got,
                                 how_to_replay="h_c18 mutant <package> %s %s %s m; decode_program_from_bytes(m) vs drv_c18 `pkg <package> %s %s %s`"
                                               % (k, p, b, k, p, b)),
                            "real decoder and Lean decoder disagree on a damaged package (%s %s byte %s bit %s): impl `%s`, model `%s`"
                            % (name, k, p, b, want, got[:80]), no_input=False)


def pkg_leg(ctx, hbin, drv, stats, pk):
    """Real packages: round trip on the real code, both readers on every body, package build == source build,
    damaged copies through the in-process decoder and the code generator."""
    try:
        tc = C.toolchain(need_boots=False, timeout=3000)
    except RuntimeError as e:
        ctx.finding("oracle:toolchain", dict(kind="oracle", log=str(e)[-3000:]), "tool chain does not build", no_input=True)
        return
    # fixed path (the package embeds the source path, so the damaged bytes — and with them the findings — must not
    # depend on a process id); one run at a time
    work = os.path.join(C.BUILD, "tmp", "c18_pkg")
    lock = C.FLock("c18-pkg")
    lock.__enter__()
    shutil.rmtree(work, ignore_errors=True)
    os.makedirs(work)
    try:
        own = own_toolchain(tc, work)
        srcs = []
        for name, text in SOURCES:
            p = os.path.join(work, name + ".dora")
            open(p, "w").write(text if text is not None else wide_program())
            srcs.append((name, p))
        rel = REPO_SOURCES_QUICK if ctx.tier == "quick" else REPO_SOURCES_QUICK + sorted(
            os.path.join("test/rt", f) for f in os.listdir(os.path.join(C.REPO, "test/rt"))
            if f.endswith(".dora"))[:200:5]
        for r in rel:
            p = os.path.join(C.REPO, r)
            if os.path.exists(p):
                srcs.append((os.path.basename(r)[:-5], p))
        pkgs = []
        for name, src in srcs:
            out = os.path.join(work, name + ".dora-package")
            rc, log = C.sh([own["dora"], "compile", "-c", src, "-o", out], cwd=work, timeout=300)
            if rc != 0 or not os.path.exists(out):
                pk["sources_not_compiled"].append(name)
                continue
            pkgs.append((name, src, out))
        boots_pkg = os.path.join(tc["dir"], "boots.dora-package")
        if ctx.tier == "thorough" and os.path.exists(boots_pkg):
            bp = os.path.join(work, "boots.dora-package")
            shutil.copy2(boots_pkg, bp)
            pkgs.append(("boots", None, bp))
        # ---- (1) real code round trip + both readers on every function body
        for name, src, pkg in pkgs:
            rc, rd_reqs, summ = C.sh2([hbin, "pkg", pkg], timeout=1800)
            m = re.search(r"summary (.*)", summ)
            info = dict(re.findall(r"(\w+)=(\S+)", m.group(1))) if m else {}
            pk["packages"].append(dict(name=name, **info))
            if info.get("decode") != "ok":
                stats["oracle_failures"] += 1
                ctx.finding("oracle:pkg-decode", dict(kind="oracle", package=name, source=src, log=summ[-2000:]),
                            "a package written by the front end is refused by the decoder: %s" % name)
                continue
            if info.get("reencode_identical") != "true":
                stats["oracle_failures"] += 1
                ctx.finding("oracle:pkg-reencode", dict(kind="oracle", package=name, source=src, log=summ[-2000:]),
                            "decode -> encode of package %s does not give back its bytes" % name)
            if info.get("rewrite_bad") != "0" or info.get("reader_panics") != "0":
                stats["oracle_failures"] += 1
                ctx.finding("oracle:body-rewrite", dict(kind="oracle", package=name, source=src, log=summ[-2000:]),
                            "function bodies of %s do not survive read -> write: %s" % (name, summ.strip()[-300:]))
            # the Lean codec (generated type table) on the same file: decode, re-encode, compare with the real crate
            rcL, outL, errL = C.sh2([drv], stdin="pkg %s\n" % pkg, timeout=1800)
            got = outL.strip()
            want = "ok %s wf=true same=true" % info.get("re", "?")
            stats["evaluations"] += 1
            stats["hist"]["pkg_lean_codec"] = stats["hist"].get("pkg_lean_codec", 0) + 1
            stats["distinct"].add("pkg " + name)
            pk["lean_codec_packages"] = pk.get("lean_codec_packages", 0) + 1
            if got != want:
                stats["disagreements"] += 1
                ctx.finding("corr:pkg-lean-codec",
                            dict(kind="correspondence", package=name, source=src, model=got[:300], impl=want, stderr=errL[-500:]),
                            "the Lean package codec does not reproduce the real crate on package %s: model `%s`, expected `%s`"
                            % (name, got[:120], want), no_input=False)
            else:
                pk["lean_codec_identical"] = pk.get("lean_codec_identical", 0) + 1
            reqs = [l for l in rd_reqs.splitlines() if l.startswith("rd ")]
            pk["bodies_read_by_both"] += len(reqs)
            if reqs:
                run_requests(ctx, hbin, drv, reqs, "pkg_" + name, stats)
        # ---- (2) building from the package == building from the source
        for name, src, pkg in pkgs[: (3 if ctx.tier == "quick" else 12)]:
            if src is None:
                continue
            outs = []
            for tag, inp in (("src", src), ("pkg", pkg)):
                s = os.path.join(work, "%s_%s.s" % (name, tag))
                rc, log = C.sh([own["dora"], "compile", "--cannon", "-S", inp, "-o", s], cwd=work, timeout=600)
                outs.append((rc, s, log))
            if name == "hello" or ctx.tier == "thorough":
                # linked executables as well
                exes = []
                for tag, inp in (("src", src), ("pkg", pkg)):
                    e = os.path.join(work, "%s_%s.exe" % (name, tag))
                    rc, log = C.sh([own["dora"], "compile", "--cannon", inp, "-o", e], cwd=work, timeout=600)
                    exes.append((rc, e, log))
                pk["exe_compared"] = pk.get("exe_compared", 0) + 1
                if (exes[0][0] == 0 and exes[1][0] == 0 and os.path.exists(exes[0][1]) and os.path.exists(exes[1][1])
                        and open(exes[0][1], "rb").read() == open(exes[1][1], "rb").read()):
                    pk["exe_equal"] = pk.get("exe_equal", 0) + 1
                else:
                    stats["oracle_failures"] += 1
                    ctx.finding("oracle:pkg-vs-source-exe",
                                dict(kind="oracle", package=name, source=src, rc_src=exes[0][0], rc_pkg=exes[1][0],
                                     log=(exes[0][2] + exes[1][2])[-2000:]),
                                "the executable built from the package of %s differs from the one built from its source" % name)
            pk["build_compared"] += 1
            same = (outs[0][0] == 0 and outs[1][0] == 0 and os.path.exists(outs[0][1]) and os.path.exists(outs[1][1])
                    and open(outs[0][1], "rb").read() == open(outs[1][1], "rb").read())
            if same:
                pk["build_equal"] += 1
            else:
                stats["oracle_failures"] += 1
                ctx.finding("oracle:pkg-vs-source-build",
                            dict(kind="oracle", package=name, source=src, rc_src=outs[0][0], rc_pkg=outs[1][0],
                                 log=(outs[0][2] + outs[1][2])[-2000:]),
                            "compiling %s from its package and from its source give different assembly" % name)
        # ---- (3) damage
        panics = {}
        for pi, (name, src, pkg) in enumerate(pkgs[: (2 if ctx.tier == "quick" else 6)]):
            size = os.path.getsize(pkg)
            step = max(1, size // 400) if ctx.tier == "quick" else 1
            flips = 300 if ctx.tier == "quick" else 6000
            if ctx.tier == "thorough" and (size > 400000 or pi >= 2):
                step = max(1, size // 4000)   # every single truncation only for the first two packages
            start = 0
            lines = []
            aborts = 0
            while True:
                p = subprocess.run([hbin, "damage", pkg, str(ctx.seed), str(step), str(flips), str(start)],
                                   stdout=subprocess.PIPE, stderr=subprocess.PIPE, text=True, errors="replace",
                                   timeout=7200)
                got = p.stdout.splitlines()
                lines += [l for l in got if len(l.split(" ")) > 4]
                if p.returncode == 0:
                    break
                # the process died inside a case (abort / signal): that case is the last, incomplete line
                aborts += 1
                last = got[-1].split(" ") if got else ["%d" % start, "?", "0", "0"]
                stats["oracle_failures"] += 1
                ctx.finding("oracle:decode-abort:rc%d" % p.returncode,
                            dict(kind="oracle", package=name, source=src, mutation=last[:4], rc=p.returncode,
                                 stderr=p.stderr[-1500:],
                                 how_to_replay="h_c18 mutant <package> %s <out>; decode_program_from_bytes(out)" % " ".join(last[1:4])),
                            "in-process decoding of a damaged package kills the process (rc %d): %s %s"
                            % (p.returncode, name, " ".join(last[:4])))
                start = int(last[0]) + 1
                if aborts > 20:
                    break
            lean_damage(ctx, drv, name, src, pkg, lines, stats, pk)
            ok_cases = []
            for l in lines:
                f = l.split(" ")
                idx, kind, pos, bit, res = int(f[0]), f[1], int(f[2]), int(f[3]), f[4]
                pk["damage_inprocess"] += 1
                pk["damage_" + kind + "_" + res] = pk.get("damage_" + kind + "_" + res, 0) + 1
                if res == "panic":
                    site = f[5] if len(f) > 5 else "?"
                    site = re.sub(r"^.*?/(?=[^/]*/src/)", "", site)
                    stats["oracle_failures"] += 1
                    panics.setdefault(site, []).append((name, kind, pos, bit))
                    ctx.finding("oracle:panic:" + site,
                                dict(kind="oracle", where="decode_program_from_bytes (in-process)", package=name, source=src,
                                     mutation=dict(kind=kind, pos=pos, bit=bit), panic_site=site),
                                "decoding a damaged package panics at %s (%s: %s byte %d bit %d)" % (site, name, kind, pos, bit))
                elif res == "ok":
                    if kind == "trunc":
                        # a proper prefix of a package that decodes would mean trailing data was never needed
                        stats["oracle_failures"] += 1
                        ctx.finding("oracle:truncation-accepted", dict(kind="oracle", package=name, source=src, pos=pos),
                                    "package %s truncated to %d bytes is accepted" % (name, pos))
                    if "stable=false" in l:
                        stats["oracle_failures"] += 1
                        ctx.finding("oracle:decode-not-stable", dict(kind="oracle", package=name, source=src, line=l),
                                    "a damaged package decodes to a program whose encoding does not decode to the same program")
                    ok_cases.append((idx, kind, pos, bit))
            # ---- the code generator on a sample: all refused kinds once in a while, every accepted flip
            sample = ok_cases[: (200 if ctx.tier == "quick" else 3000)]
            refused = [l.split(" ") for l in lines if " err " in l]
            sample += [(int(f[0]), f[1], int(f[2]), int(f[3])) for f in refused[:: max(1, len(refused) // 40)]]
            jobs = [(hbin, own["cannon"], pkg, work, i, k, po, b) for (i, k, po, b) in sample]
            with concurrent.futures.ThreadPoolExecutor(max_workers=8) as ex:
                for idx, kind, pos, bit, rc, out in ex.map(cannon_case, jobs):
                    pk["damage_codegen"] += 1
                    key = "codegen_rc_%d" % rc
                    pk[key] = pk.get(key, 0) + 1
                    m = re.search(r"panicked at ([^\s:]+:\d+)", out)
                    if m or rc not in (0, 1):
                        site = re.sub(r"^.*?/(?=[^/]*/src/)", "", m.group(1)) if m else "rc%d" % rc
                        stats["oracle_failures"] += 1
                        panics.setdefault(site, []).append((name, kind, pos, bit))
                        msg = ""
                        mm = re.search(r"panicked at [^\n]*\n([^\n]*)", out)
                        if mm:
                            msg = mm.group(1)[:200]
                        # one root cause = one finding: a decoded-but-inconsistent program is never validated before code
                        # generation, so the generator panics at whichever site first trips over the damage. Signals and
                        # panics of the DECODER keep their own keys (none known).
                        ckey = ("oracle:panic:codegen-on-inconsistent-package" if (m and rc == 101)
                                else "oracle:crash:codegen:rc%d:%s" % (rc, site))
                        ctx.finding(ckey,
                                    dict(kind="oracle", where="dora-cannon-compiler <damaged package>", package=name, source=src,
                                         mutation=dict(kind=kind, pos=pos, bit=bit), rc=rc, panic_site=site, message=msg,
                                         output=out[-1500:],
                                         how_to_replay="dora compile -c %s -o p; h_c18 mutant p %s %d %d m; dora-cannon-compiler m -o m.s"
                                                       % (src, kind, pos, bit)),
                                    "the code generator crashes on a damaged package (%s, rc %d): %s %s byte %d bit %d  %s"
                                    % (site, rc, name, kind, pos, bit, msg))
                    elif rc == 1 and not out.strip():
                        stats["oracle_failures"] += 1
                        ctx.finding("oracle:refused-without-message", dict(kind="oracle", package=name, kind_=kind, pos=pos, bit=bit),
                                    "damaged package refused with exit status 1 but no message")
        pk["panic_sites"] = {k: [list(x) for x in v[:3]] + ([len(v)] if len(v) > 3 else []) for k, v in panics.items()}
    finally:
        shutil.rmtree(work, ignore_errors=True)
        lock.__exit__()


def regenerate():
    """Regenerate the opcode/layout tables (and generated package types) from dora-bytecode (used by ./check setup)."""
    rc, gout = C.sh([sys.executable, os.path.join(TOOLS, "gen_bc.py")], timeout=300)
    if rc != 0:
        raise RuntimeError("gen_bc failed:\n" + gout[-2000:])

def run(ctx):
    # -- regenerate the tables from the Rust sources (tie by regeneration)
    rc, gout = C.sh([sys.executable, os.path.join(TOOLS, "gen_bc.py")], timeout=120)
    C.log(gout.strip())
    if rc != 0:
        ctx.finding("corr:tie", dict(kind="correspondence", log=gout[-2000:]),
                    "the bytecode sources no longer have the shape the translator understands: %s" % gout.strip()[-300:],
                    no_input=True)
    po = C.proof_obligations(ctx, PROP_MODULE, PROP_FILE,
                             hygiene_paths=("DoraModel/Bytecode", "DoraModel/Gen/BcOpcodes.lean", "DoraModel/Gen/PkgTypes.lean", PROP_FILE))
    import time
    t_phase = [("proofs", round(time.time() - ctx.t0, 1))]
    drv, dlog = C.lean_exe("drv_c18")
    hbin, hlog = C.build_harness("h_c18")
    t_phase.append(("builds", round(time.time() - ctx.t0, 1)))
    stats = dict(evaluations=0, distinct=set(), hist={}, samples=[], disagreements=0, oracle_failures=0)
    pk = dict(packages=[], sources_not_compiled=[], bodies_read_by_both=0, build_compared=0, build_equal=0,
              damage_inprocess=0, damage_codegen=0)
    if hbin is None:
        ctx.finding("corr:build", dict(kind="correspondence", log=hlog[-3000:]), "harness does not build", no_input=True)
    if drv is None:
        ctx.finding("corr:build-driver", dict(kind="correspondence", log=dlog[-3000:]), "Lean driver does not build", no_input=True)
    if hbin and drv:
        if ctx.replay:
            import json
            obj = json.load(open(ctx.replay))
            if obj.get("request"):
                run_requests(ctx, hbin, drv, [obj["request"]], "replay", stats)
        else:
            cdir = os.path.join(C.VERIF, "corpus", "C18")
            if os.path.isdir(cdir):
                for f in sorted(os.listdir(cdir)):
                    if f.endswith(".req"):
                        reqs = [l.strip() for l in open(os.path.join(cdir, f)) if l.strip() and not l.startswith("#")]
                        run_requests(ctx, hbin, drv, reqs, "corpus", stats)
            n = 300 if ctx.tier == "quick" else 20000
            rc, gen, err = C.sh2([hbin, "gen", str(n)], env={"VERIF_SEED": str(ctx.seed)}, timeout=600)
            reqs = [l for l in gen.splitlines() if l]
            run_requests(ctx, hbin, drv, reqs, "gen", stats)
            t_phase.append(("requests", round(time.time() - ctx.t0, 1)))
            pkg_leg(ctx, hbin, drv, stats, pk)
            t_phase.append(("packages", round(time.time() - ctx.t0, 1)))
    if not po["build_ok"] or po["failed"]:
        found_input = stats["disagreements"] > 0 or stats["oracle_failures"] > 0
        ctx.finding("proof:C18", dict(kind="proof", failed=po["failed"], log=po.get("build_log_tail", "")),
                    "property theorems of C18 no longer check: %s" % "; ".join(po["failed"])[:400],
                    no_input=not found_input)
    C.log("phases (s since start): %s" % t_phase)
    ctx.notes.append("phases (s since start): %s" % t_phase)
    cov = dict(obligations=po["obligations"], discharged=po["discharged"], checker_cmd=po["checker_cmd"],
               trusted_base=po["trusted_base"] + [
                   "tools/gen_bc.py (regex translator of opcode.rs/data.rs/reader.rs/writer.rs into Gen/BcOpcodes.lean; "
                   "fails loudly on an unrecognised shape; its output is also exercised by the correspondence run)",
                   "hand-written primitives DoraModel/Bytecode/Model.lean, Writer.lean (varint, fixed u32, patching, labels) "
                   "tied by the correspondence run only",
                   "bincode 2.0.1 wire format as transcribed in DoraModel/Bytecode/Bincode.lean + the derive layout in "
                   "Schema.lean (struct = fields in order, enum = variant position as u32 + fields), validated against the real "
                   "crate: 23 value types on generated/damaged encodings, and the whole `Program` tree (type table regenerated "
                   "from the #[derive(Encode, Decode)] items by tools/gen_bc.py into Gen/PkgTypes.lean) on every real package of "
                   "the run (decode -> encode byte-identical) and on every damaged copy (refused by both or same re-encoding)",
                   "harness h_c18 (+ generated gen_dispatch.rs), driver drv_c18, checks/c18.py",
                   "debug-build semantics of Rust arithmetic (shift overflow in read_u32_variable panics)"],
               theorems=po["theorems"],
               evaluations=stats["evaluations"], distinct_nontrivial=len(stats["distinct"]),
               rule="requests from `h_c18 gen` (seeded): every opcode x every operand position x 21 boundary values "
                    "(0,1,126..129,254..257,16382..16385,2^21-1..2^21+1,2^28-1,2^28,2^32-2,2^32-1), argument lists of 0/127/128/255/256/"
                    "16383/16384 registers, forward jumps / JumpLoop / jump tables over paddings that put the distance on both "
                    "sides of 128, 16384 and 2^21, constant pools of 0..70000 entries, writer misuse, random sessions; `rd`: the "
                    "reader on truncated / illegal / over-long code and on every function body of the real packages; `bin`: bincode "
                    "values and damaged encodings. non-trivial = a bc session with a jump, an operand over 127, a refused misuse or "
                    "code over 2000 bytes; every rd; every bin with more than one byte",
               histogram=stats["hist"], samples=stats["samples"] or [dict(note="no sample")],
               disagreements=stats["disagreements"], oracle_failures=stats["oracle_failures"],
               packages=pk)
    ctx.write_evidence("proof", cov, assumptions=[
        "operands are below 2^32 (the writer casts with `as u32`); larger register numbers are outside the statement",
        "programs are modelled as generic value trees typed by the generated table (a deep embedding), not as Lean structures; "
        "pkg_roundtrip is stated with an explicit nesting bound `fuel` (decodeAll uses (len+2)*(table size+1)); that this "
        "fuel always suffices and that decoded values are well-formed is observed on every package (wf=true), not proved",
        "a damaged package that is itself a well-formed package is accepted (there is no integrity check in the format); the check "
        "demands 'no crash', an error message on refusal, and that accepted bytes decode to a re-encodable program",
        "package-vs-source builds are compared as assembly text (`dora compile --cannon -S`, baseline code generator) for every "
        "sampled program and as linked executables for one (quick) / all of them (thorough); the optimizing back end is not used here"])
