"""C13 — Running out of stack or heap ends in the documented trap, never in a crash.

proof   : lean/DoraModel/Props/C13.lean — array-size arithmetic of both code generators: refused or exact for every
          64-bit length (baseline: full; optimizing: non-negative lengths only, negative witness proved).
tie     : generated `Array[T]::zero(n)` programs compiled with both back ends; the observed outcome class must be the
          one the Lean model (drv_c13) predicts from (length, element size, heap limit).
explore : recursion with tiny..huge frames on main and spawned threads, live-data growth and single huge objects,
          x both code generators (x collectors in the thorough tier): exit status must be the documented trap
          (107 stack overflow / 106 out of memory / 109 overflow); a signal, a hang or a success that should not be
          possible is an oracle failure.
"""
import concurrent.futures as cf
import os
import re
import shutil

from . import common as C

PROP_MODULE = "DoraModel.Props.C13"
PROP_FILE = "DoraModel/Props/C13.lean"
HEAP_MB = 64

# (element type, element size, how to make one: `zero(n)` needs a zero value, other types use fill(n, v))
ELEMS = [("UInt8", 1, None), ("Int32", 4, None), ("Int64", 8, None), ("String", 8, '"x"'),
         ("(Int64, Int64)", 16, "(1, 2)"), ("(Int64, Int64, Int64)", 24, "(1, 2, 3)")]
LENGTHS = ["-1", "-2", "-9223372036854775807 - 1", "-2305843009213693952", "2147483648", "1152921504606846976",
           "2305843009213693951", "2305843009213693952", "2305843009213693953", "4611686018427387904",
           "4611686018427387905", "9223372036854775800", "9223372036854775807", "1000", "0"]

STRUCTS = """struct S1 { a: Int64, b: Int64, c: Int64, d: Int64, e: Int64, f: Int64, g: Int64, h: Int64 }
struct S2 { a: S1, b: S1, c: S1, d: S1, e: S1, f: S1, g: S1, h: S1 }
struct S3 { a: S2, b: S2, c: S2, d: S2, e: S2, f: S2, g: S2, h: S2 }
struct S4 { a: S3, b: S3, c: S3, d: S3, e: S3, f: S3, g: S3, h: S3 }
struct S5 { a: S4, b: S4, c: S4, d: S4, e: S4, f: S4, g: S4, h: S4 }
struct S6 { a: S5, b: S5, c: S5, d: S5, e: S5, f: S5, g: S5, h: S5 }
fn m1(): S1 { S1(a=1,b=2,c=3,d=4,e=5,f=6,g=7,h=8) }
fn m2(): S2 { let x = m1(); S2(a=x,b=x,c=x,d=x,e=x,f=x,g=x,h=x) }
fn m3(): S3 { let x = m2(); S3(a=x,b=x,c=x,d=x,e=x,f=x,g=x,h=x) }
fn m4(): S4 { let x = m3(); S4(a=x,b=x,c=x,d=x,e=x,f=x,g=x,h=x) }
fn m5(): S5 { let x = m4(); S5(a=x,b=x,c=x,d=x,e=x,f=x,g=x,h=x) }
fn m6(): S6 { let x = m5(); S6(a=x,b=x,c=x,d=x,e=x,f=x,g=x,h=x) }
"""


def ival(s):
    return eval(s)   # the literal texts above are plain integer arithmetic


def wrap_thread(body, spawned):
    if not spawned:
        return 'fn main() { println("start"); %s println("end"); }\n' % body
    return 'fn main() { println("start"); let t = std::thread::spawn(|| { %s }); t.join(); println("end"); }\n' % body


def stack_programs(quick):
    progs = []
    for spawned in (False, True):
        tag = "spawned" if spawned else "main"
        progs.append(("rec-plain-%s" % tag, "fn f(n: Int64): Int64 { f(n + 1) + 1 }\n" + wrap_thread('println("${f(0)}");', spawned), "stack", None))
        for k in (20, 200):
            decl = " ".join("let v%d = n + %d;" % (i, i) for i in range(k))
            use = " + ".join("v%d" % i for i in range(k))
            progs.append(("rec-locals%d-%s" % (k, tag), "fn f(n: Int64): Int64 { %s f(n + 1) + %s }\n" % (decl, use)
                          + wrap_thread('println("${f(0)}");', spawned), "stack", None))
        for lvl, size in ((3, "4K"), (4, "32K"), (5, "256K")):
            acc = ".".join(["a"] * lvl)
            progs.append(("rec-struct%s-%s" % (size, tag), STRUCTS + "fn f(n: Int64): Int64 { let s = m%d(); f(n + 1) + s.%s }\n" % (lvl, acc)
                          + wrap_thread('println("${f(0)}");', spawned), "stack", "frame>=%s" % size))
        progs.append(("rec-mutual-%s" % tag, "fn f(n: Int64): Int64 { g(n + 1) + 1 }\nfn g(n: Int64): Int64 { f(n + 1) * 2 }\n"
                      + wrap_thread('println("${f(0)}");', spawned), "stack", None))
        progs.append(("rec-closure-%s" % tag, "class R { f: (Int64): Int64 }\nfn mk(): R { let r = R(f = |n: Int64|: Int64 { n }); r.f = |n: Int64|: Int64 { (r.f)(n + 1) + 1 }; r }\n"
                      + wrap_thread('let r = mk(); println("${(r.f)(0)}");', spawned), "stack", None))
        # frames of k x 256 KB (k locals of a 256 KB struct): the stack limit is crossed at a different distance from the
        # mapped end of the stack for every k, so a stack that has too little room below the limit for the overflow
        # report (the prologue moves rsp first and compares afterwards) is hit for some k whatever the alignment
        for k in ((2, 3, 5) if quick else (2, 3, 4, 5)):
            decl = " ".join("let s%d = m5();" % i for i in range(k))
            use = " + ".join("s%d.a.a.a.a.a" % i for i in range(k))
            progs.append(("rec-struct%dx256K-%s" % (k, tag), STRUCTS + "fn f(n: Int64): Int64 { %s f(n + 1) + %s }\n" % (decl, use)
                          + wrap_thread('println("${f(0)}");', spawned), "stack", "frame>=512K"))
            progs.append(("frame%dx256K-once-%s" % (k, tag), STRUCTS + "fn g(n: Int64): Int64 { %s n + %s }\n" % (decl, use)
                          + wrap_thread('println("${g(1)}");', spawned), "bigframe", "frame>=512K"))
        # a single frame larger than any stack: no recursion needed
        progs.append(("frame2M-once-%s" % tag, STRUCTS + wrap_thread('let s = m6(); println("${s.a.a.a.a.a.a}");', spawned), "bigframe", "frame>=2M"))
        progs.append(("rec-struct2M-%s" % tag, STRUCTS + "fn f(n: Int64): Int64 { let s = m6(); f(n + 1) + s.a.a.a.a.a.a }\n"
                      + wrap_thread('println("${f(0)}");', spawned), "stack", "frame>=2M"))
    return progs


def heap_programs(quick):
    progs = []
    for spawned in (False, True):
        tag = "spawned" if spawned else "main"
        progs.append(("live-growth-%s" % tag, wrap_thread(
            'let v = Vec[Array[Int64]]::new(); let mut i = 0; while true { v.push(Array[Int64]::zero(100000)); i = i + 1; } println("${i}");', spawned), "oom", None))
        progs.append(("live-list-%s" % tag, "class N { next: Option[N], pad: Array[Int64] }\n" + wrap_thread(
            'let mut head: Option[N] = None[N]; while true { head = Some[N](N(next = head, pad = Array[Int64]::zero(1000))); }', spawned), "oom", None))
    return progs


def array_programs(quick):
    """(name, source, kind, info, args): the length comes from the command line, so that ONE executable per (element type,
    constructor, code generator) serves all lengths (a compile costs ~10 s of the debug tool chain, a run a few ms); a few
    literal lengths per element type are kept because the optimizing compiler treats a constant length differently."""
    progs = []
    NARG = "std::argv(0i32).to_int64().get_or_panic()"

    def src_for(make, n_expr, tail='println("size ${a.size()}");'):
        return 'fn main() { println("start"); let n: Int64 = %s; let a = %s; %s }\n' % (n_expr, make, tail)
    for (ty, es, fillv) in ELEMS:
        make = "Array[%s]::zero(n)" % ty if fillv is None else "Array[%s]::fill(n, %s)" % (ty, fillv)
        for n in LENGTHS:
            if quick and ty in ("String", "(Int64, Int64, Int64)") and n not in ("-1", "2305843009213693953", "9223372036854775807", "1000"):
                continue
            name = "array-%s-%s" % (re.sub(r"\W+", "", ty), re.sub(r"[^0-9-]", "", n.replace(" - 1", "m1")))
            progs.append((name, src_for(make, NARG), "array", (es, ival(n)), [str(ival(n))]))
            if n in ("-1", "2305843009213693953"):
                progs.append((name + "-lit", src_for(make, n), "array", (es, ival(n)), []))
    # lengths right at the representability boundary of each element size (where len*es + header + alignment slack
    # crosses 2^63): a range check that is off by a word shows only here
    for (ty, es, fillv) in ELEMS:
        make = "Array[%s]::zero(n)" % ty if fillv is None else "Array[%s]::fill(n, %s)" % (ty, fillv)
        base = (2 ** 63 - 1 - 16) // es
        ks = (-9, -8, -7, -4, -3, -2, -1, 0, 1, 2) if not quick else (-9, -8, -4, -3, -2, -1, 0, 1)
        for k in ks:
            n = base + k
            progs.append(("array-%s-edge%+d" % (re.sub(r"\W+", "", ty), k), src_for(make, NARG), "array", (es, n), [str(n)]))
            if k in (-1, 0):
                progs.append(("array-%s-edge%+d-lit" % (re.sub(r"\W+", "", ty), k), src_for(make, "%d" % n), "array", (es, n), []))
    for (ctor, arg) in (("Vec[Int64]::new_with_capacity(n)", "-1"), ("Array[Int64]::fill(n, 7)", "-5"),
                        ("Array[Int64]::fill(n, 7)", "2305843009213693953"), ("Vec[UInt8]::new_with_capacity(n)", "9223372036854775807")):
        name = "array-ctor-%s-%s" % (re.sub(r"\W+", "", ctor)[:18], arg.replace("-", "m"))
        progs.append((name, src_for(ctor, NARG, 'println("made");'), "array", (8 if "Int64" in ctor else 1, int(arg)), [arg]))
    return progs


def classify(rc, out, err):
    first = (err.strip().splitlines() or [""])[0]
    if rc == 107 and "stack overflow" in first:
        return "trap:stack"
    if rc == 106 and "out of memory" in first:
        return "trap:oom"
    if rc == 109 and "overflow" in first:
        return "trap:overflow"
    if rc == 0:
        return "exit0"
    if rc == 124:
        return "timeout"
    if rc < 0 or rc >= 128:
        return "signal:%d" % (-rc if rc < 0 else rc - 128)
    if "panicked at" in err:
        return "rust-panic"
    return "status:%d:%s" % (rc, first[:40])


def run(ctx):
    quick = ctx.tier == "quick"
    po = C.proof_obligations(ctx, PROP_MODULE, PROP_FILE, hygiene_paths=("DoraModel/Alloc", PROP_FILE))
    drv, dlog = C.lean_exe("drv_c13")
    if drv is None:
        raise RuntimeError("driver build failed:\n" + dlog[-3000:])
    tc = C.toolchain(need_boots=True)
    work = os.path.join(C.BUILD, "tmp", "c13_%d" % os.getpid())
    shutil.rmtree(work, ignore_errors=True)
    os.makedirs(work)
    backends = [("cannon", ["--cannon"]), ("boots", [])]
    gcs = [("swiper", [])] if quick else [("swiper", []), ("copy", ["--gc", "copy"]), ("sweep", ["--gc", "sweep"])]
    progs = [p + ([],) for p in stack_programs(quick) + heap_programs(quick)] + array_programs(quick)
    # model predictions for the array family
    reqs = []
    for (name, src, kind, info, args) in progs:
        if kind == "array":
            es, n = info
            reqs.append("cannon %d %d" % (n, es))
            reqs.append("boots %d %d" % (n, es))
    rc, pred_out, _ = C.sh2([drv], stdin="\n".join(reqs) + "\n", timeout=120)
    pred = dict(zip(reqs, pred_out.splitlines()))
    jobs = []
    skipped_boots = []
    for (name, src, kind, info, args) in progs:
        for (be, bfl) in backends:
            for (gc, gfl) in gcs:
                if kind == "array" and gc != "swiper":
                    continue
                if be == "boots" and re.search(r"struct(32K|256K|2M|\dx256K)|frame(2M|\dx256K)", name):
                    # the optimizing compiler needs > 15 min (or runs out of memory) for structs of 32 KB and more:
                    # a compile-time matter, not C13's; those frame sizes are exercised with the baseline generator
                    skipped_boots.append(name)
                    continue
                jobs.append((name, src, kind, info, be, bfl, gc, gfl, args))

    # every distinct (source, code generator, collector) is compiled once, in parallel; then the cases run
    import hashlib
    units = {}
    for job in jobs:
        name, src, kind, info, be, bfl, gc, gfl, args = job
        units.setdefault((src, be, gc), (bfl, gfl))

    def compile_unit(item):
        (src, be, gc), (bfl, gfl) = item
        d = os.path.join(work, "u_%s_%s_%s" % (hashlib.sha256(src.encode()).hexdigest()[:12], be, gc))
        os.makedirs(d, exist_ok=True)
        open(os.path.join(d, "p.dora"), "w").write(src)
        rc, out = C.sh([tc["dora"], "compile"] + bfl + gfl + ["p.dora", "-o", "p"], cwd=d, timeout=900)
        if rc != 0 or not os.path.exists(os.path.join(d, "p")):
            return (src, be, gc), (None, out[-400:].replace("\n", " | "))
        return (src, be, gc), (d, "")

    with cf.ThreadPoolExecutor(max_workers=10) as ex:
        exes = dict(ex.map(compile_unit, list(units.items())))

    def one(job):
        name, src, kind, info, be, bfl, gc, gfl, args = job
        d, clog = exes[(src, be, gc)]
        if d is None:
            return job, "compile-failed", clog, ""
        env = {"DORA_FLAGS": "--max-heap-size=%dM" % HEAP_MB}
        rc, o, e = C.sh2(["./p"] + args, cwd=d, timeout=180, env=env)
        cls = classify(rc, o, e)
        if cls.startswith("signal") or cls == "timeout":
            # reproduce before believing a crash/hang on a loaded machine
            rc2, o2, e2 = C.sh2(["./p"] + args, cwd=d, timeout=360, env=env)
            cls2 = classify(rc2, o2, e2)
            if cls2 != cls:
                cls, o, e = cls2, o2, e2
        return job, cls, o[-200:], e[:300]

    stats = dict(runs=0, hist={}, array_agree=0, array_cases=0, samples=[], compile_failed=0)
    distinct = set()
    with cf.ThreadPoolExecutor(max_workers=10) as ex:
        results = list(ex.map(one, jobs))
    for (job, cls, o, e) in results:
        name, src, kind, info, be, bfl, gc, gfl, args = job
        stats["runs"] += 1
        stats["hist"]["%s:%s" % (kind, cls)] = stats["hist"].get("%s:%s" % (kind, cls), 0) + 1
        distinct.add((name, be, gc))
        replay = dict(kind="oracle", program=name, source=src, backend=be, gc=gc, observed=cls, stdout_tail=o, stderr_head=e,
                      args=args,
                      how_to_replay="dora compile %s p.dora -o p && DORA_FLAGS=--max-heap-size=%dM ./p %s" % (" ".join(bfl + gfl), HEAP_MB, " ".join(args)))
        if cls == "compile-failed":
            stats["compile_failed"] += 1
            if len(ctx.notes) < 8:
                ctx.notes.append("compile failed: %s %s: %s" % (name, be, o[-160:]))
            continue
        if kind in ("stack", "bigframe"):
            okset = ("trap:stack",) if kind == "stack" else ("trap:stack", "exit0")
            if cls not in okset:
                frame = info or "frame<4K"
                thread = "spawned" if "spawned" in name else "main"
                ctx.finding("oracle:%s:stack:%s:%s:%s" % (cls.split(":")[0], frame, thread, be), replay,
                            "%s (%s, %s, %s): expected the stack-overflow trap, observed %s" % (name, be, gc, frame, cls))
        elif kind == "oom":
            if cls != "trap:oom":
                ctx.finding("oracle:%s:heap:%s:%s" % (cls.split(":")[0], re.sub(r"-(main|spawned)$", "", name), be), replay,
                            "%s (%s, %s): expected the out-of-memory trap, observed %s" % (name, be, gc, cls))
        elif kind == "array":
            es, n = info
            p = pred.get("%s %d %d" % (be, n, es), "?")
            stats["array_cases"] += 1
            lenclass = "negative" if n < 0 else ("huge" if n >= 2 ** 40 else ("large" if n >= 2 ** 20 else "small"))
            if p == "refuse":
                expect = ("trap:overflow",)
            elif p.startswith("size"):
                sz = int(p.split()[1])
                if n < 0:
                    expect = ()            # the model itself says: not refused, bogus size -> nothing acceptable but a trap
                elif sz > HEAP_MB * 2 ** 20:
                    expect = ("trap:oom",)
                else:
                    expect = ("exit0",)
            else:
                expect = ()
            acceptable = cls in ("trap:oom", "trap:overflow") if (n < 0 or n >= 2 ** 40) else cls in expect
            if cls in expect:
                stats["array_agree"] += 1
            if not acceptable:
                ctx.finding("oracle:%s:array-new:len=%s:%s" % (cls.split(":")[0], lenclass, be), replay,
                            "%s (%s): length %d, element size %d: model predicts `%s`, observed %s — an impossible size must be "
                            "refused with a trap" % (name, be, n, es, p, cls))
            elif expect and cls not in expect:
                ctx.finding("corr:array-outcome:%s:%s" % (lenclass, be), dict(replay, predicted=p),
                            "%s (%s): model predicts `%s` but the program ended with %s" % (name, be, p, cls), no_input=True)
        if len(stats["samples"]) < 5 and stats["runs"] % 17 == 0:
            stats["samples"].append(dict(program=name, backend=be, gc=gc, observed=cls))
    shutil.rmtree(work, ignore_errors=True)
    if not po["build_ok"] or po["failed"]:
        ctx.finding("proof:C13", dict(kind="proof", failed=po["failed"], log=po.get("build_log_tail", "")),
                    "property theorems of C13 no longer check: %s" % "; ".join(po["failed"])[:400], no_input=not ctx.violations)
    # the size model `cannonSize` of Props/C13.lean is PROVED equal to what the regenerated determine_array_size sequence
    # computes (Props/C13Masm.lean); a break runs the machine leg's native-execution search under this property
    from . import c01_masm
    alloc = c01_masm.alloc_obligations(ctx)
    po["obligations"] += alloc["obligations"]
    po["discharged"] += alloc["discharged"]
    po["theorems"] = dict(po["theorems"], **alloc["theorems"])
    cov = dict(obligations=po["obligations"], discharged=po["discharged"], checker_cmd=po["checker_cmd"] + " (and DoraModel.Props.C13Masm)",
               masm_alloc=dict(module=alloc["module"], obligations=alloc["obligations"], discharged=alloc["discharged"],
                               runtime_rules=alloc["runtime_rules"], search=alloc.get("search")),
               trusted_base=po["trusted_base"] + ["arithmetic model DoraModel/Alloc/ArraySize.lean: its baseline half is proved equal to the regenerated instruction sequence (Props/C13Masm.lean), the optimizing half is tied by the array programs below",
                                                  "generated programs + exit-status classification (checks/c13.py)"],
               theorems=po["theorems"], evaluations=stats["runs"], distinct_nontrivial=len(distinct),
               rule="one case = (program, code generator, collector): recursion with frames from a few bytes to 2 MB on main and "
                    "spawned threads, unbounded live data, and Array[T]::zero(n)/fill/new_with_capacity for 6 element sizes x 15 lengths "
                    "(negative, 2^31, 2^60..2^63-1, small); all cases are non-trivial (each must end in a specific trap or succeed)",
               histogram=stats["hist"], samples=stats["samples"] or [dict(note="none")],
               array_cases=stats["array_cases"], array_outcomes_as_model_predicts=stats["array_agree"],
               compile_failed=stats["compile_failed"], heap_limit_mb=HEAP_MB, executables_compiled=len(units),
               not_run_with_optimizing_compiler=sorted(set(skipped_boots)))
    ctx.write_evidence("proof", cov, assumptions=[
        "only the size arithmetic is proved; real stack depth, OS guard pages and the allocation retry ladder are explored by programs",
        "model prediction for success needs size <= heap limit; lengths between 2^20 and 2^40 are expected to end in the OOM trap"])
