//! C17 harness: drives the real dora-format (Doc builders + renderer) and dora-parser.
//!   h_c17 gen <n>                 request file on stdout, derived from VERIF_SEED and the .dora files of /repo
//!                                 (n = number of sampled files, 0 = all)
//!   h_c17 run <reqfile> [<out>]   answer every request line; responses go to <out> (or stdout)
//!                                 (the formatter prints to stdout when its self-check fails, hence the file)
//!   h_c17 tree <file>             debugging: dump the syntax tree
//!
//! requests (one per line; <src> is `@<path>` or the text as lower-case hex, `-` = empty):
//!   chk <src> <width> <mut> [label]   the property's oracle on format(x, width); <mut> = `-` or `<style>.<seed>`
//!                                     -> `ok <len> <fnv64> changed=<0|1> tokens=<n> comments=<n>` | `!error` (input does not parse: property does not apply)
//!                                      | `FAIL <key> <class> <hex detail> <hex input>`
//!   min <src> <width> <mut> <key>     shrink the input while `chk` keeps failing with <key>  -> hex text
//!   fmt <src> <width>                 -> hex of the formatted text | `!error` | `!panic <site> <msg>`
//!   doc <src>                         -> serialised Doc | `!error` | `!panic <site> <msg>`
//!   render <doc> <w1,w2,..>           real renderer on a deserialised Doc -> `<w>:<len>:<fnv64>` per width
//!   renderx <doc> <w>                 -> hex of the rendered text
//!
//! serialised Doc: comma separated prefix form  C<n> children.. | N<indent> d | G d | T<hex> | L | B | I d | H
use std::cell::RefCell;
use std::io::{BufRead, Write};
use std::panic::AssertUnwindSafe;
use std::sync::Arc;

use dora_format::doc::Doc;
use dora_format::{doc, render};
use dora_parser::ast::{File, SyntaxElement, SyntaxNode, SyntaxNodeBase, SyntaxToken};
use dora_parser::TokenKind::*;
use dora_parser::{lex, Parser, TokenKind};
use hutil::{hex, unhex, Rng};

// ------------------------------------------------------------------------------------------- panics

thread_local! {
    static LAST_PANIC: RefCell<Option<(String, String)>> = RefCell::new(None);
}

fn install_hook() {
    std::panic::set_hook(Box::new(|info| {
        let site = info
            .location()
            .map(|l| format!("{}:{}", l.file().trim_start_matches("/repo/"), l.line()))
            .unwrap_or_else(|| "?".to_string());
        let p = info.payload();
        let msg = if let Some(s) = p.downcast_ref::<String>() {
            s.clone()
        } else if let Some(s) = p.downcast_ref::<&str>() {
            s.to_string()
        } else {
            "?".to_string()
        };
        let msg = msg.lines().next().unwrap_or("").to_string();
        LAST_PANIC.with(|c| *c.borrow_mut() = Some((site, msg)));
    }));
}

/// (site, message) of a panic inside `f`
fn catch<T>(f: impl FnOnce() -> T) -> Result<T, (String, String)> {
    match std::panic::catch_unwind(AssertUnwindSafe(f)) {
        Ok(v) => Ok(v),
        Err(_) => Err(LAST_PANIC
            .with(|c| c.borrow_mut().take())
            .unwrap_or_else(|| ("?".to_string(), "?".to_string()))),
    }
}

fn sanitize(s: &str, max: usize) -> String {
    let mut o = String::new();
    for ch in s.chars() {
        if o.len() >= max {
            break;
        }
        if ch.is_ascii_alphanumeric() || "_.:-".contains(ch) {
            o.push(ch);
        } else if !o.ends_with('_') {
            o.push('_');
        }
    }
    o.trim_matches('_').to_string()
}

fn fnv64(b: &[u8]) -> u64 {
    let mut h: u64 = 0xcbf29ce484222325;
    for x in b {
        h ^= *x as u64;
        h = h.wrapping_mul(0x100000001b3);
    }
    h
}

// ------------------------------------------------------------------------------------------- parsing

enum Parsed {
    Ok(File),
    Errors(File, String),
    Panic(String, String),
}

fn parse(text: &str) -> Parsed {
    let content = Arc::new(text.to_string());
    match catch(|| Parser::from_shared_string(content).parse()) {
        Ok((file, errors)) => {
            if errors.is_empty() {
                Parsed::Ok(file)
            } else {
                let e = &errors[0];
                let m = format!("{} at {}", e.error.message(), e.span);
                Parsed::Errors(file, m)
            }
        }
        Err((site, msg)) => Parsed::Panic(site, msg),
    }
}

// ------------------------------------------------------------------------------------------- Doc (de)serialisation

fn ser(d: &Doc, out: &mut Vec<String>) {
    match d {
        Doc::Concat { children } => {
            out.push(format!("C{}", children.len()));
            for c in children {
                ser(c, out);
            }
        }
        Doc::Nest { indent, doc } => {
            out.push(format!("N{}", indent));
            ser(doc, out);
        }
        Doc::Group { doc } => {
            out.push("G".to_string());
            ser(doc, out);
        }
        Doc::Text { text } => out.push(format!("T{}", hex(text.as_bytes()))),
        Doc::SoftLine => out.push("L".to_string()),
        Doc::SoftBreak => out.push("B".to_string()),
        Doc::IfBreak { doc } => {
            out.push("I".to_string());
            ser(doc, out);
        }
        Doc::HardLine => out.push("H".to_string()),
    }
}

fn ser_doc(d: &Doc) -> String {
    let mut v = Vec::new();
    ser(d, &mut v);
    v.join(",")
}

fn deser(toks: &[&str], pos: &mut usize) -> Option<Doc> {
    let t = *toks.get(*pos)?;
    *pos += 1;
    let (h, rest) = t.split_at(1);
    Some(match h {
        "C" => {
            let n: usize = rest.parse().ok()?;
            let mut children = Vec::with_capacity(n);
            for _ in 0..n {
                children.push(deser(toks, pos)?);
            }
            Doc::Concat { children }
        }
        "N" => Doc::Nest { indent: rest.parse().ok()?, doc: Box::new(deser(toks, pos)?) },
        "G" => Doc::Group { doc: Box::new(deser(toks, pos)?) },
        "T" => Doc::Text { text: String::from_utf8(unhex(rest)).ok()?.into() },
        "L" => Doc::SoftLine,
        "B" => Doc::SoftBreak,
        "I" => Doc::IfBreak { doc: Box::new(deser(toks, pos)?) },
        "H" => Doc::HardLine,
        _ => return None,
    })
}

fn deser_doc(s: &str) -> Option<Doc> {
    let toks: Vec<&str> = s.split(',').collect();
    let mut pos = 0;
    let d = deser(&toks, &mut pos)?;
    if pos == toks.len() {
        Some(d)
    } else {
        None
    }
}

// ------------------------------------------------------------------------------------------- normalised token sequence
//
// The code tokens of a file in order, with exactly the differences the formatter is *specified* to make
// (each one is pinned by unit tests in dora-format/src/doc/*.rs) taken out on both sides:
//   1. the comma of the last entry of a comma list (LIST_ITEM) — dropped when the list is printed flat, added when
//      it is broken (utils.rs print_comma_list_item, element.rs format_braced_list_item); kept for a one-entry
//      TUPLE_EXPR, where it is not optional;
//   2. commas between the arms of a `match` — printed after every arm whose value is not block-like and after no
//      other (expr.rs format_match);
//   3. modifier lists — annotations first, then `pub`, `static`, `mutating` (element.rs format_modifier_list);
//   4. `use` — runs of neighbouring declarations are sorted, the entries of a `{..}` group are sorted, a group with
//      one entry loses its braces (element_list.rs sort_use_declarations, use_.rs format_use_group).
// Comments are collected apart (multiset); a line comment is compared without its trailing blanks, which the
// renderer strips like any other trailing blank.

#[derive(Clone, PartialEq, Eq, PartialOrd, Ord, Debug)]
struct Tok {
    kind: TokenKind,
    text: String,
    off: u32,
}

#[derive(Default)]
struct Norm {
    toks: Vec<Tok>,
    comments: Vec<(String, u32)>,
}

fn push_tok(t: &SyntaxToken, n: &mut Norm, drop_comma: bool) {
    let k = t.syntax_kind();
    if k == LINE_COMMENT {
        n.comments.push((t.text().trim_end().to_string(), t.offset().value()));
    } else if k == MULTILINE_COMMENT {
        n.comments.push((t.text().to_string(), t.offset().value()));
    } else if k.is_trivia() {
    } else if k == COMMA && drop_comma {
    } else {
        n.toks.push(Tok { kind: k, text: t.text().to_string(), off: t.offset().value() });
    }
}

fn walk(node: &SyntaxNode, n: &mut Norm) {
    let kind = node.syntax_kind();
    if kind == MODIFIER_LIST {
        return walk_modifier_list(node, n);
    }
    if kind == ELEMENT_LIST {
        return walk_element_list(node, n);
    }
    let elems: Vec<SyntaxElement> = node.children_with_tokens().collect();
    let items: Vec<usize> = elems
        .iter()
        .enumerate()
        .filter(|(_, e)| matches!(e, SyntaxElement::Node(c) if c.syntax_kind() == LIST_ITEM))
        .map(|(i, _)| i)
        .collect();
    let last_item = items.last().copied();
    let keep_last_comma = kind == TUPLE_EXPR && items.len() == 1;
    for (i, e) in elems.iter().enumerate() {
        match e {
            SyntaxElement::Token(t) => push_tok(t, n, kind == MATCH_EXPR),
            SyntaxElement::Node(c) => {
                if c.syntax_kind() == LIST_ITEM {
                    let drop = Some(i) == last_item && !keep_last_comma;
                    for le in c.children_with_tokens() {
                        match le {
                            SyntaxElement::Token(t) => push_tok(&t, n, drop),
                            SyntaxElement::Node(cc) => walk(&cc, n),
                        }
                    }
                } else {
                    walk(c, n);
                }
            }
        }
    }
}

fn walk_modifier_list(node: &SyntaxNode, n: &mut Norm) {
    let mut annotations: Vec<Vec<Tok>> = Vec::new();
    let mut keywords: Vec<Vec<Tok>> = Vec::new();
    let mut others: Vec<Tok> = Vec::new();
    for e in node.children_with_tokens() {
        match e {
            SyntaxElement::Token(t) => {
                let mut tmp = Norm::default();
                push_tok(&t, &mut tmp, false);
                n.comments.append(&mut tmp.comments);
                others.append(&mut tmp.toks);
            }
            SyntaxElement::Node(c) => {
                let mut tmp = Norm::default();
                walk(&c, &mut tmp);
                n.comments.append(&mut tmp.comments);
                if tmp.toks.first().map(|t| t.kind) == Some(AT) {
                    annotations.push(tmp.toks);
                } else {
                    keywords.push(tmp.toks);
                }
            }
        }
    }
    keywords.sort_by_key(|m| match m.first().map(|t| t.kind) {
        Some(PUB_KW) => 0,
        Some(STATIC_KW) => 1,
        Some(MUTATING_KW) => 2,
        _ => 3,
    });
    for m in annotations.into_iter().chain(keywords) {
        n.toks.extend(m);
    }
    n.toks.extend(others);
}

fn tok_key(v: &[Tok]) -> Vec<(TokenKind, String)> {
    v.iter().map(|t| (t.kind, t.text.clone())).collect()
}

fn flush_uses(run: &mut Vec<Vec<Tok>>, n: &mut Norm) {
    run.sort_by_key(|u| tok_key(u));
    for u in run.drain(..) {
        n.toks.extend(u);
    }
}

fn walk_element_list(node: &SyntaxNode, n: &mut Norm) {
    let mut run: Vec<Vec<Tok>> = Vec::new();
    for e in node.children_with_tokens() {
        match e {
            SyntaxElement::Token(t) => {
                if !t.syntax_kind().is_trivia() {
                    flush_uses(&mut run, n);
                }
                push_tok(&t, n, false);
            }
            SyntaxElement::Node(c) => {
                if c.syntax_kind() == USE {
                    run.push(use_canon(&c, n));
                } else {
                    flush_uses(&mut run, n);
                    walk(&c, n);
                }
            }
        }
    }
    flush_uses(&mut run, n);
}

fn use_canon(node: &SyntaxNode, n: &mut Norm) -> Vec<Tok> {
    let mut out: Vec<Tok> = Vec::new();
    for e in node.children_with_tokens() {
        let mut tmp = Norm::default();
        match e {
            SyntaxElement::Token(t) => push_tok(&t, &mut tmp, false),
            SyntaxElement::Node(c) => {
                if c.syntax_kind() == USE_TREE {
                    let mut paths: Vec<Vec<Tok>> = Vec::new();
                    flatten_use(&c, Vec::new(), &mut paths, &mut tmp);
                    paths.sort_by_key(|p| tok_key(p));
                    for (i, p) in paths.into_iter().enumerate() {
                        if i > 0 {
                            tmp.toks.push(Tok { kind: COMMA, text: ",".into(), off: p.first().map(|t| t.off).unwrap_or(0) });
                        }
                        tmp.toks.extend(p);
                    }
                } else {
                    walk(&c, &mut tmp);
                }
            }
        }
        n.comments.append(&mut tmp.comments);
        out.append(&mut tmp.toks);
    }
    out
}

fn flatten_use(tree: &SyntaxNode, prefix: Vec<Tok>, paths: &mut Vec<Vec<Tok>>, n: &mut Norm) {
    let mut prefix = prefix;
    let mut emitted = false;
    for e in tree.children_with_tokens() {
        match e {
            SyntaxElement::Token(t) => {
                let mut tmp = Norm::default();
                push_tok(&t, &mut tmp, false);
                n.comments.append(&mut tmp.comments);
                prefix.append(&mut tmp.toks);
            }
            SyntaxElement::Node(c) => {
                if c.syntax_kind() == USE_GROUP {
                    emitted = true;
                    let mut any = false;
                    let mut braces: Vec<Tok> = Vec::new();
                    for ge in c.children_with_tokens() {
                        match ge {
                            SyntaxElement::Token(t) => {
                                let mut tmp = Norm::default();
                                push_tok(&t, &mut tmp, false);
                                n.comments.append(&mut tmp.comments);
                                braces.append(&mut tmp.toks);
                            }
                            SyntaxElement::Node(li) => {
                                for le in li.children_with_tokens() {
                                    match le {
                                        SyntaxElement::Token(t) => {
                                            let mut tmp = Norm::default();
                                            push_tok(&t, &mut tmp, true);
                                            n.comments.append(&mut tmp.comments);
                                            // anything but a comma inside a list item is unexpected: keep it visible
                                            braces.append(&mut tmp.toks);
                                        }
                                        SyntaxElement::Node(t2) => {
                                            any = true;
                                            if t2.syntax_kind() == USE_TREE {
                                                flatten_use(&t2, prefix.clone(), paths, n);
                                            } else {
                                                let mut tmp = Norm::default();
                                                walk(&t2, &mut tmp);
                                                n.comments.append(&mut tmp.comments);
                                                let mut p = prefix.clone();
                                                p.append(&mut tmp.toks);
                                                paths.push(p);
                                            }
                                        }
                                    }
                                }
                            }
                        }
                    }
                    if !any {
                        let mut p = prefix.clone();
                        p.append(&mut braces);
                        paths.push(p);
                    }
                } else {
                    let mut tmp = Norm::default();
                    walk(&c, &mut tmp);
                    n.comments.append(&mut tmp.comments);
                    prefix.append(&mut tmp.toks);
                }
            }
        }
    }
    if !emitted {
        paths.push(prefix);
    }
}

fn norm_of(file: &File) -> Norm {
    let mut n = Norm::default();
    walk(&file.root(), &mut n);
    n
}

/// raw non-trivia tokens from the lexer alone (usable when the text does not parse)
fn lex_toks(text: &str) -> Vec<Tok> {
    let r = lex(text);
    let mut v = Vec::new();
    let cnt = r.tokens.len() - 1; // last is EOF
    for i in 0..cnt {
        let s = r.starts[i] as usize;
        let e = if i + 1 < cnt { r.starts[i + 1] as usize } else { text.len() };
        let k = r.tokens[i];
        if !k.is_trivia() {
            v.push(Tok { kind: k, text: text[s..e].to_string(), off: s as u32 });
        }
    }
    v
}

/// all tokens (with trivia) as (kind, start, end)
fn lex_all(text: &str) -> Vec<(TokenKind, usize, usize)> {
    let r = lex(text);
    let cnt = r.tokens.len() - 1;
    (0..cnt)
        .map(|i| {
            let s = r.starts[i] as usize;
            let e = if i + 1 < cnt { r.starts[i + 1] as usize } else { text.len() };
            (r.tokens[i], s, e)
        })
        .collect()
}

/// lexer-level stand-in for rules 1 and 2 (only used to say *where* an unparsable output went wrong)
fn light_norm(v: Vec<Tok>) -> Vec<Tok> {
    let mut out: Vec<Tok> = Vec::new();
    for i in 0..v.len() {
        if v[i].kind == COMMA {
            let next_closer = matches!(v.get(i + 1).map(|t| t.kind), Some(R_PAREN | R_BRACKET | R_BRACE) | None);
            let prev_brace = i > 0 && v[i - 1].kind == R_BRACE;
            if next_closer || prev_brace {
                continue;
            }
        }
        out.push(v[i].clone());
    }
    out
}

fn node_kind_at(file: &File, off: u32) -> String {
    match file.token_at_offset(off) {
        Some(t) => {
            let mut p = t.parent();
            while let Some(nd) = p.clone() {
                if nd.syntax_kind() == LIST_ITEM {
                    p = nd.parent();
                } else {
                    break;
                }
            }
            p.map(|nd| nd.syntax_kind().to_string()).unwrap_or_else(|| "ROOT".to_string())
        }
        None => "EOF".to_string(),
    }
}


fn ancestors(file: &File, off: u32) -> Vec<(TokenKind, u32, u32)> {
    let mut v = Vec::new();
    if let Some(t) = file.token_at_offset(off) {
        let mut p = t.parent();
        while let Some(nd) = p {
            let sp = nd.full_span();
            v.push((nd.syntax_kind(), sp.start(), sp.end()));
            p = nd.parent();
        }
    }
    v
}

/// kind of the lowest node that contains both tokens (LIST_ITEM skipped)
fn lca_kind(file: &File, a: u32, b: u32) -> String {
    let aa = ancestors(file, a);
    let bb = ancestors(file, b);
    for x in &aa {
        if x.0 != LIST_ITEM && bb.contains(x) {
            return x.0.to_string();
        }
    }
    "ROOT".to_string()
}

/// code tokens directly before and at/after a byte offset: (kind, start)
fn code_neighbours(text: &str, off: usize) -> (Option<(TokenKind, usize)>, Option<(TokenKind, usize)>) {
    let toks = lex_all(text);
    let mut before = None;
    let mut after = None;
    for t in toks {
        if t.0.is_trivia() {
            continue;
        }
        if t.2 <= off {
            before = Some((t.0, t.1));
        } else if after.is_none() {
            after = Some((t.0, t.1));
        }
    }
    (before, after)
}

fn kind_name(k: Option<(TokenKind, usize)>) -> String {
    k.map(|x| x.0.to_string()).unwrap_or_else(|| "NONE".to_string())
}

fn inside_kind(file: &File, off: u32, kinds: &[TokenKind]) -> bool {
    if let Some(t) = file.token_at_offset(off) {
        let mut p = t.parent();
        while let Some(nd) = p {
            if kinds.contains(&nd.syntax_kind()) {
                return true;
            }
            p = nd.parent();
        }
    }
    false
}

fn show(v: &[Tok], i: usize) -> String {
    let lo = i.saturating_sub(3);
    let hi = (i + 4).min(v.len());
    v[lo..hi].iter().map(|t| format!("{}`{}`", t.kind, t.text)).collect::<Vec<_>>().join(" ")
}

/// first difference of two token sequences: (index, class, text)
fn tok_diff(file: &File, a: &[Tok], b: &[Tok]) -> Option<(usize, String, String)> {
    let n = a.len().min(b.len());
    let mut i = 0;
    while i < n && a[i].kind == b[i].kind && a[i].text == b[i].text {
        i += 1;
    }
    if i == a.len() && i == b.len() {
        return None;
    }
    let ek = a.get(i).map(|t| t.kind.to_string()).unwrap_or_else(|| "END".to_string());
    let gk = b.get(i).map(|t| t.kind.to_string()).unwrap_or_else(|| "END".to_string());
    let node = match a.get(i) {
        Some(t) => node_kind_at(file, t.off),
        None => "EOF".to_string(),
    };
    let cls = if node == "FIELD_EXPR" && ek == "INT_LITERAL" && gk == "FLOAT_LITERAL" {
        "tuple-field-chain".to_string()
    } else {
        format!("{}:{}->{}", node, ek, gk)
    };
    let text = format!(
        "code token #{} differs inside {}: input has [{}], output has [{}]",
        i,
        node,
        show(a, i),
        show(b, i)
    );
    Some((i, cls, text))
}


/// order-insensitive comparison (for outputs that do not parse and inputs whose `use`s / modifiers get reordered):
/// first code token of the input that the output has fewer of, first of the output that the input has fewer of
fn multiset_diff(file: &File, a: &[Tok], b: &[Tok]) -> Option<(String, String)> {
    use std::collections::HashMap;
    let skip = |t: &Tok| matches!(t.kind, COMMA | L_BRACE | R_BRACE);
    let mut ca: HashMap<(TokenKind, &str), i64> = HashMap::new();
    for t in a.iter().filter(|t| !skip(t)) {
        *ca.entry((t.kind, t.text.as_str())).or_insert(0) += 1;
    }
    let mut cb: HashMap<(TokenKind, &str), i64> = HashMap::new();
    for t in b.iter().filter(|t| !skip(t)) {
        *cb.entry((t.kind, t.text.as_str())).or_insert(0) += 1;
    }
    let lost = a.iter().filter(|t| !skip(t)).find(|t| {
        ca[&(t.kind, t.text.as_str())] > *cb.get(&(t.kind, t.text.as_str())).unwrap_or(&0)
    });
    let gained = b.iter().filter(|t| !skip(t)).find(|t| {
        cb[&(t.kind, t.text.as_str())] > *ca.get(&(t.kind, t.text.as_str())).unwrap_or(&0)
    });
    if lost.is_none() && gained.is_none() {
        return None;
    }
    let ek = lost.map(|t| t.kind.to_string()).unwrap_or_else(|| "NONE".to_string());
    let gk = gained.map(|t| t.kind.to_string()).unwrap_or_else(|| "NONE".to_string());
    let node = lost.map(|t| node_kind_at(file, t.off)).unwrap_or_else(|| "EOF".to_string());
    let cls = if node == "FIELD_EXPR" && ek == "INT_LITERAL" && gk == "FLOAT_LITERAL" {
        "tuple-field-chain".to_string()
    } else {
        format!("{}:{}->{}", node, ek, gk)
    };
    Some((
        cls,
        format!(
            "code tokens differ inside {}: the output lacks {:?} and has {:?} instead",
            node,
            lost.map(|t| format!("{}`{}`", t.kind, t.text)),
            gained.map(|t| format!("{}`{}`", t.kind, t.text))
        ),
    ))
}

// ------------------------------------------------------------------------------------------- the oracle

enum Verdict {
    /// formatted text, number of code tokens, number of comments
    Ok(String, usize, usize),
    InputError,
    Fail { key: String, class: String, detail: String },
}

fn fail(key: String, class: &str, detail: String) -> Verdict {
    Verdict::Fail { key, class: class.to_string(), detail }
}

fn panic_key(site: &str, msg: &str) -> String {
    if let Some(rest) = msg.strip_prefix("unsupported node ") {
        format!("oracle:panic:unsupported-node:{}", sanitize(rest, 40))
    } else {
        format!("oracle:panic:{}:{}", site, sanitize(msg, 60))
    }
}

fn format_pieces(file: &File, width: u32) -> Result<String, (String, String, &'static str)> {
    let root = file.root();
    let d = catch(|| doc::format(root)).map_err(|(s, m)| (s, m, "doc"))?;
    catch(|| render::render_doc_with_line_length(&d, width)).map_err(|(s, m)| (s, m, "render"))
}

fn first_diff_line(a: &str, b: &str) -> String {
    let la: Vec<&str> = a.lines().collect();
    let lb: Vec<&str> = b.lines().collect();
    let mut i = 0;
    while i < la.len() && i < lb.len() && la[i] == lb[i] {
        i += 1;
    }
    format!(
        "line {}: first pass `{}` / second pass `{}`",
        i + 1,
        la.get(i).unwrap_or(&"<end>"),
        lb.get(i).unwrap_or(&"<end>")
    )
}

fn offset_of_line(text: &str, line: usize) -> u32 {
    let mut off = 0usize;
    for (i, l) in text.split_inclusive('\n').enumerate() {
        if i == line {
            let lead = l.len() - l.trim_start().len();
            return (off + lead) as u32;
        }
        off += l.len();
    }
    text.len() as u32
}

fn check(text: &str, width: u32) -> Verdict {
    // the property speaks about syntactically valid files only
    let file = match parse(text) {
        Parsed::Ok(f) => f,
        _ => return Verdict::InputError,
    };
    // the real entry point (self-check included): must not panic
    let entry = catch(|| dora_format::format_source_with_line_length(text, width));
    let entry_note = match &entry {
        Err((s, m)) => format!("; format_source_with_line_length panics at {} ({})", s, m),
        _ => String::new(),
    };
    // the same in pieces, to say what went wrong
    let out = match format_pieces(&file, width) {
        Ok(o) => o,
        Err((site, msg, stage)) => {
            return fail(
                panic_key(&site, &msg),
                &format!("panic-{}@{}", stage, site),
                format!("formatter panics at {} ({}) while building/rendering the document", site, msg),
            );
        }
    };
    let n_in = norm_of(&file);
    let out_file = match parse(&out) {
        Parsed::Ok(f) => f,
        other => {
            let (class, why) = match &other {
                Parsed::Errors(_, m) => ("unparsable-errors".to_string(), format!("parse error: {}", m)),
                Parsed::Panic(s, m) => (format!("unparsable-panic@{}", s), format!("parser panics at {} ({})", s, m)),
                Parsed::Ok(_) => unreachable!(),
            };
            // say where the code tokens went wrong, from the lexer alone
            let a = light_norm(lex_toks(text));
            let b = light_norm(lex_toks(&out));
            let d = tok_diff(&file, &a, &b);
            return match d {
                Some((i, cls, t))
                    if !a.get(i).map(|t| inside_kind(&file, t.off, &[USE, MODIFIER_LIST])).unwrap_or(false) =>
                {
                    fail(
                        format!("oracle:tokens-changed:{}", cls),
                        &class,
                        format!("{}; the output does not parse ({}){}", t, why, entry_note),
                    )
                }
                _ => {
                    if let Some((cls, t)) = multiset_diff(&file, &a, &b) {
                        return fail(
                            format!("oracle:tokens-changed:{}", cls),
                            &class,
                            format!("{}; the output does not parse ({}){}", t, why, entry_note),
                        );
                    }
                    fail(
                    format!("oracle:output-unparsable:{}", sanitize(&why, 60)),
                    &class,
                    format!("the output does not parse ({}){}", why, entry_note),
                )
                }
            };
        }
    };
    let n_out = norm_of(&out_file);
    if let Some((_, cls, t)) = tok_diff(&file, &n_in.toks, &n_out.toks) {
        return fail(format!("oracle:tokens-changed:{}", cls), "tokens-changed", format!("{}{}", t, entry_note));
    }
    let mut ca: Vec<&String> = n_in.comments.iter().map(|c| &c.0).collect();
    let mut cb: Vec<&String> = n_out.comments.iter().map(|c| &c.0).collect();
    ca.sort();
    cb.sort();
    if ca != cb {
        // first comment of the input that is missing from the output (as a multiset)
        let mut rest: Vec<&String> = cb.clone();
        let mut lost: Option<&(String, u32)> = None;
        for c in &n_in.comments {
            if let Some(p) = rest.iter().position(|x| **x == c.0) {
                rest.remove(p);
            } else {
                lost = Some(c);
                break;
            }
        }
        return match lost {
            Some((c, off)) => {
                let node = node_kind_at(&file, *off);
                let (before, after) = code_neighbours(text, *off as usize);
                fail(
                    format!("oracle:comment-lost:{}", node),
                    "comments-changed",
                    format!(
                        "comment `{}` (inside {}, between {} and {}) is missing from the output{}",
                        c,
                        node,
                        kind_name(before),
                        kind_name(after),
                        entry_note
                    ),
                )
            }
            None => fail(
                "oracle:comment-added".to_string(),
                "comments-changed",
                format!("the output has a comment the input does not have: {:?}{}", rest.first(), entry_note),
            ),
        };
    }
    // formatting the output again changes nothing
    let out2 = match format_pieces(&out_file, width) {
        Ok(o) => o,
        Err((site, msg, stage)) => {
            return fail(
                format!("oracle:second-pass-panic:{}:{}", site, sanitize(&msg, 60)),
                &format!("second-pass-panic-{}@{}", stage, site),
                format!("formatting the formatted text panics at {} ({})", site, msg),
            );
        }
    };
    if out2 != out {
        let mut d = out.bytes().zip(out2.bytes()).take_while(|(x, y)| x == y).count();
        while !out.is_char_boundary(d) {
            d -= 1;
        }
        let (before, after) = code_neighbours(&out, d);
        let node = match (before, after) {
            (Some(b), Some(a)) => lca_kind(&out_file, b.1 as u32, a.1 as u32),
            _ => "ROOT".to_string(),
        };
        return fail(
            format!("oracle:not-idempotent:{}", node),
            "not-idempotent",
            format!(
                "formatting the output again changes the layout between {} and {} (inside {}): {}",
                kind_name(before),
                kind_name(after),
                node,
                first_diff_line(&out, &out2)
            ),
        );
    }
    match entry {
        Ok(Ok(s)) => {
            if *s != out {
                return fail(
                    "oracle:entry-mismatch".to_string(),
                    "entry-mismatch",
                    "format_source_with_line_length differs from doc::format + render".to_string(),
                );
            }
        }
        Ok(Err(_)) => {
            return fail(
                "oracle:entry-error".to_string(),
                "entry-error",
                "format_source_with_line_length reports parse errors for an input that parses".to_string(),
            );
        }
        Err((site, msg)) => {
            return fail(
                panic_key(&site, &msg),
                &format!("entry-panic@{}", site),
                format!("format_source_with_line_length panics at {} ({})", site, msg),
            );
        }
    }
    Verdict::Ok(out, n_in.toks.len(), n_in.comments.len())
}

// ------------------------------------------------------------------------------------------- minimisation

fn collect_candidates(node: &SyntaxNode, depth: usize, out: &mut Vec<(usize, u32, u32)>) {
    let kind = node.syntax_kind();
    for c in node.children() {
        let ck = c.syntax_kind();
        let deletable = match kind {
            ELEMENT_LIST | BLOCK_EXPR => true,
            MATCH_EXPR => ck == MATCH_ARM,
            _ => ck == LIST_ITEM,
        };
        if deletable {
            let sp = c.full_span();
            out.push((depth, sp.start(), sp.end()));
            collect_candidates(&c, depth + 1, out);
        } else {
            collect_candidates(&c, depth, out);
        }
    }
}

fn key_of(text: &str, width: u32) -> Option<String> {
    match check(text, width) {
        Verdict::Fail { key, .. } => Some(key),
        _ => None,
    }
}

fn minimise(text: &str, width: u32, key: &str) -> String {
    let t0 = std::time::Instant::now();
    let budget = std::time::Duration::from_secs(
        std::env::var("C17_MIN_SECS").ok().and_then(|v| v.parse().ok()).unwrap_or(25),
    );
    let mut cur = text.to_string();
    for _round in 0..4 {
        let before = cur.len();
        let mut depth = 0;
        loop {
            let file = match parse(&cur) {
                Parsed::Ok(f) => f,
                _ => break,
            };
            let mut cands = Vec::new();
            collect_candidates(&file.root(), 0, &mut cands);
            let maxd = cands.iter().map(|c| c.0).max();
            if maxd.map(|m| depth > m).unwrap_or(true) {
                break;
            }
            let mut level: Vec<(u32, u32)> = cands.iter().filter(|c| c.0 == depth).map(|c| (c.1, c.2)).collect();
            level.sort();
            level.reverse();
            for (s, e) in level {
                if t0.elapsed() > budget {
                    return cur;
                }
                let (s, e) = (s as usize, e as usize);
                if e > cur.len() || s >= e || !cur.is_char_boundary(s) || !cur.is_char_boundary(e) {
                    continue;
                }
                let mut t = String::with_capacity(cur.len());
                t.push_str(&cur[..s]);
                t.push_str(&cur[e..]);
                if key_of(&t, width).as_deref() == Some(key) {
                    cur = t;
                }
            }
            depth += 1;
        }
        // line pass
        let lines: Vec<String> = cur.split_inclusive('\n').map(|s| s.to_string()).collect();
        if lines.len() <= 400 {
            let mut keep: Vec<bool> = vec![true; lines.len()];
            for i in (0..lines.len()).rev() {
                if t0.elapsed() > budget {
                    break;
                }
                keep[i] = false;
                let t: String = lines.iter().zip(&keep).filter(|(_, k)| **k).map(|(l, _)| l.as_str()).collect();
                if key_of(&t, width).as_deref() != Some(key) {
                    keep[i] = true;
                }
            }
            cur = lines.iter().zip(&keep).filter(|(_, k)| **k).map(|(l, _)| l.as_str()).collect();
        }
        // trivia pass: drop comments that are not needed, shrink white space
        if cur.len() <= 4000 {
            let toks = lex_all(&cur);
            let mut pieces: Vec<String> = toks.iter().map(|t| cur[t.1..t.2].to_string()).collect();
            let code: Vec<(TokenKind, String)> = lex_toks(&cur).iter().map(|x| (x.kind, x.text.clone())).collect();
            for i in (0..toks.len()).rev() {
                if t0.elapsed() > budget {
                    break;
                }
                let k = toks[i].0;
                if !k.is_trivia() {
                    continue;
                }
                let alts: Vec<String> = match k {
                    LINE_COMMENT | MULTILINE_COMMENT => vec![String::new()],
                    NEWLINE => vec![String::new(), " ".to_string()],
                    _ => vec![String::new(), " ".to_string()],
                };
                for alt in alts {
                    if alt == pieces[i] {
                        continue;
                    }
                    let saved = std::mem::replace(&mut pieces[i], alt);
                    let t: String = pieces.concat();
                    let same_code = lex_toks(&t).iter().map(|x| (x.kind, x.text.clone())).collect::<Vec<_>>() == code;
                    if same_code && key_of(&t, width).as_deref() == Some(key) {
                        break;
                    }
                    pieces[i] = saved;
                }
            }
            cur = pieces.concat();
        }
        if cur.len() == before {
            break;
        }
    }
    cur
}

// ------------------------------------------------------------------------------------------- layout mutants

/// `a` `ws` `b` re-lexes as exactly a, (trivia), b
fn boundary_ok(a: &str, ak: TokenKind, ws: &str, b: &str, bk: TokenKind) -> bool {
    let s = format!("{}{}{}", a, ws, b);
    let r = match catch(|| lex_all(&s)) {
        Ok(r) => r,
        Err(_) => return false,
    };
    let nt: Vec<&(TokenKind, usize, usize)> = r.iter().filter(|t| !t.0.is_trivia()).collect();
    nt.len() == 2 && nt[0].0 == ak && nt[0].2 == a.len() && nt[1].0 == bk && nt[1].1 == a.len() + ws.len()
}

/// Layout-only mutant of `text`: the code tokens and the comments of the input stay what they were.
/// styles: respace | comments | join | split | mixed
fn mutant(text: &str, style: &str, seed: u64) -> Option<String> {
    let mut r = Rng(seed.wrapping_mul(0x9E3779B97F4A7C15) ^ 0xC17C17);
    let toks = catch(|| lex_all(text)).ok()?;
    let orig: Vec<(TokenKind, String)> =
        toks.iter().filter(|t| !t.0.is_trivia()).map(|t| (t.0, text[t.1..t.2].to_string())).collect();
    // segments: code token, then the trivia run that follows it
    let mut out = String::new();
    let mut i = 0;
    let mut comment_no = 0;
    let n_comments_target = 1 + r.below(4);
    let code_count = orig.len().max(1) as u64;
    // leading trivia
    while i < toks.len() && toks[i].0.is_trivia() {
        out.push_str(&text[toks[i].1..toks[i].2]);
        i += 1;
    }
    const WS: &[&str] = &[" ", "", "\n", "  ", "\n\n", "\n    ", "\t", " \n", "\n\n\n"];
    while i < toks.len() {
        let a = toks[i];
        let a_text = &text[a.1..a.2];
        out.push_str(a_text);
        i += 1;
        let run_start = i;
        while i < toks.len() && toks[i].0.is_trivia() {
            i += 1;
        }
        let run = &toks[run_start..i];
        let run_text: String = run.iter().map(|t| &text[t.1..t.2]).collect();
        if i >= toks.len() {
            out.push_str(&run_text);
            break;
        }
        let b = toks[i];
        let b_text = &text[b.1..b.2];
        let has_comment = run.iter().any(|t| matches!(t.0, LINE_COMMENT | MULTILINE_COMMENT));
        let mut new_ws: Option<String> = None;
        let st = if style == "mixed" { r.pick(&["respace", "comments", "join", "split"]) } else { style };
        match st {
            "respace" if !has_comment && r.chance(3, 10) => {
                new_ws = Some(r.pick(WS).to_string());
            }
            "join" if !has_comment && run_text.contains('\n') && r.chance(1, 2) => {
                new_ws = Some(" ".to_string());
            }
            "split" if !has_comment && !run_text.contains('\n') && r.chance(if run_text.is_empty() { 1 } else { 3 }, 10) => {
                new_ws = Some("\n".to_string());
            }
            "comments" if r.below(code_count) < n_comments_target * 2 => {
                comment_no += 1;
                let c = if r.chance(1, 2) {
                    format!("/*c{}*/", comment_no)
                } else {
                    format!("//c{}\n", comment_no)
                };
                let w = match r.below(4) {
                    0 => format!("{}{}", run_text, c),
                    1 => format!("{}{}", c, run_text),
                    2 => format!(" {} ", c),
                    _ => format!("\n{}\n", c),
                };
                new_ws = Some(w);
            }
            _ => {}
        }
        match new_ws {
            Some(w) if boundary_ok(a_text, a.0, &w, b_text, b.0) => out.push_str(&w),
            _ => out.push_str(&run_text),
        }
    }
    if out == text {
        return None;
    }
    // global check: same code tokens
    let toks2 = catch(|| lex_all(&out)).ok()?;
    let now: Vec<(TokenKind, String)> =
        toks2.iter().filter(|t| !t.0.is_trivia()).map(|t| (t.0, out[t.1..t.2].to_string())).collect();
    if now != orig {
        return None;
    }
    Some(out)
}

// ------------------------------------------------------------------------------------------- requests

fn load_src(spec: &str) -> Option<String> {
    if let Some(p) = spec.strip_prefix('@') {
        let path = if p.starts_with('/') { p.to_string() } else { format!("/repo/{}", p) };
        String::from_utf8(std::fs::read(path).ok()?).ok()
    } else {
        String::from_utf8(unhex(spec)).ok()
    }
}

fn load_mut(spec: &str, m: &str) -> Option<String> {
    let text = load_src(spec)?;
    if m == "-" {
        return Some(text);
    }
    let (style, seed) = m.split_once('.')?;
    mutant(&text, style, seed.parse().ok()?)
}

fn respond(line: &str) -> String {
    let p: Vec<&str> = line.split(' ').collect();
    match p[0] {
        "chk" => {
            let text = match load_mut(p[1], p[3]) {
                Some(t) => t,
                None => return "!nomutant".to_string(),
            };
            let w: u32 = p[2].parse().unwrap();
            match check(&text, w) {
                Verdict::Ok(out, ntoks, ncomments) => format!(
                    "ok {} {:016x} changed={} tokens={} comments={}",
                    out.len(),
                    fnv64(out.as_bytes()),
                    (out != text) as u8,
                    ntoks,
                    ncomments
                ),
                Verdict::InputError => "!error".to_string(),
                Verdict::Fail { key, class, detail } => {
                    format!("FAIL {} {} {} {}", key, class, hex(detail.as_bytes()), hex(text.as_bytes()))
                }
            }
        }
        "min" => {
            let text = match load_mut(p[1], p[3]) {
                Some(t) => t,
                None => return "!nomutant".to_string(),
            };
            let w: u32 = p[2].parse().unwrap();
            hex(minimise(&text, w, p[4]).as_bytes())
        }
        "fmt" => {
            let text = match load_src(p[1]) {
                Some(t) => t,
                None => return "!badreq".to_string(),
            };
            let w: u32 = p[2].parse().unwrap();
            match catch(|| dora_format::format_source_with_line_length(&text, w)) {
                Ok(Ok(s)) => hex(s.as_bytes()),
                Ok(Err(_)) => "!error".to_string(),
                Err((s, m)) => format!("!panic {} {}", s, m),
            }
        }
        "doc" => {
            let text = match load_src(p[1]) {
                Some(t) => t,
                None => return "!badreq".to_string(),
            };
            match parse(&text) {
                Parsed::Ok(f) => match catch(|| doc::format(f.root())) {
                    Ok(d) => ser_doc(&d),
                    Err((s, m)) => format!("!panic {} {}", s, m),
                },
                _ => "!error".to_string(),
            }
        }
        "render" => match deser_doc(p[1]) {
            Some(d) => {
                let mut res = Vec::new();
                for w in p[2].split(',') {
                    let w: u32 = w.parse().unwrap();
                    match catch(|| render::render_doc_with_line_length(&d, w)) {
                        Ok(s) => res.push(format!("{}:{}:{:016x}", w, s.len(), fnv64(s.as_bytes()))),
                        Err((s, _)) => res.push(format!("{}:!panic:{}", w, s)),
                    }
                }
                res.join(" ")
            }
            None => "!baddoc".to_string(),
        },
        "renderx" => match deser_doc(p[1]) {
            Some(d) => {
                let w: u32 = p[2].parse().unwrap();
                match catch(|| render::render_doc_with_line_length(&d, w)) {
                    Ok(s) => hex(s.as_bytes()),
                    Err((s, m)) => format!("!panic {} {}", s, m),
                }
            }
            None => "!baddoc".to_string(),
        },
        _ => "!badreq".to_string(),
    }
}

// ------------------------------------------------------------------------------------------- generation

fn dora_files() -> Vec<String> {
    fn rec(dir: &std::path::Path, out: &mut Vec<String>) {
        let mut ents: Vec<_> = match std::fs::read_dir(dir) {
            Ok(r) => r.filter_map(|e| e.ok()).map(|e| e.path()).collect(),
            Err(_) => return,
        };
        ents.sort();
        for p in ents {
            if p.is_dir() {
                rec(&p, out);
            } else if p.extension().map(|e| e == "dora").unwrap_or(false) {
                out.push(p.to_string_lossy().trim_start_matches("/repo/").to_string());
            }
        }
    }
    let mut v = Vec::new();
    for d in ["pkgs", "test", "bench"] {
        rec(std::path::Path::new(&format!("/repo/{}", d)), &mut v);
    }
    v
}

fn rand_doc(r: &mut Rng, depth: u32) -> Doc {
    const TEXTS: &[&str] = &[
        "a", "bb", "foo", "(", ")", ",", " ", "", "  ", "x ", "{", "}", "// c ", "/* m\n  n */", "\"s\\n\"", "é☃", "let",
        "longer_identifier_name", "=", ";", " \n",
    ];
    let k = if depth == 0 { r.below(5) } else { r.below(12) };
    match k {
        0 | 1 => Doc::Text { text: (*r.pick(TEXTS)).into() },
        2 => Doc::SoftLine,
        3 => Doc::SoftBreak,
        4 => Doc::HardLine,
        5 | 6 | 7 => {
            let n = r.below(6) as usize;
            Doc::Concat { children: (0..n).map(|_| rand_doc(r, depth - 1)).collect() }
        }
        8 => Doc::Nest { indent: r.below(9) as u32, doc: Box::new(rand_doc(r, depth - 1)) },
        9 | 10 => Doc::Group { doc: Box::new(rand_doc(r, depth - 1)) },
        _ => Doc::IfBreak { doc: Box::new(rand_doc(r, depth - 1)) },
    }
}

const WIDTHS_RENDER: &str = "1,20,40,60,80,90,100,120,200,10000";

fn gen(n: usize) {
    let mut r = Rng::from_env();
    let files = dora_files();
    let all = n == 0 || n >= files.len();
    // every file is checked at the default width; a seeded sample (all files when n = 0) also at the other
    // widths, as layout mutants, and through the renderer correspondence
    let mut sampled = vec![all; files.len()];
    if !all {
        let mut idx: Vec<usize> = (0..files.len()).collect();
        for i in 0..n {
            let j = i + r.below((idx.len() - i) as u64) as usize;
            idx.swap(i, j);
            sampled[idx[i]] = true;
        }
    }
    let styles = ["respace", "comments", "join", "split", "mixed"];
    // line lengths at the edges of the `u32` the command line accepts (`as i32` in render.rs)
    for w in [2147483647u32, 2147483648, 4294967295] {
        println!("chk @bench/fannkuchredux/fannkuchredux.dora {} - bench/fannkuchredux/fannkuchredux.dora", w);
    }
    let mut k = 0usize;
    for (fi, f) in files.iter().enumerate() {
        println!("chk @{} 90 - {}", f, f);
        if !sampled[fi] {
            continue;
        }
        let text = match load_src(&format!("@{}", f)) {
            Some(t) => t,
            None => continue,
        };
        k += 1;
        println!("chk @{} 40 - {}", f, f);
        println!("chk @{} 120 - {}", f, f);
        if k % 7 == 0 {
            println!("chk @{} 1 - {}", f, f);
            println!("chk @{} 10000 - {}", f, f);
        }
        let big = text.len() > 40_000;
        let n_mut = if all { if big { 2 } else { 6 } } else if big { 1 } else { 3 };
        for _ in 0..n_mut {
            let st = *r.pickv(&styles);
            let seed = r.below(1 << 40);
            let w = *r.pickv(&[1u32, 40, 40, 90, 90, 90, 120, 120, 10000]);
            println!("chk @{} {} {}.{} {}~{}.{}", f, w, st, seed, f, st, seed);
        }
        // the Doc of the file for the renderer correspondence
        if !big || k % 5 == 0 {
            if let Parsed::Ok(file) = parse(&text) {
                if let Ok(d) = catch(|| doc::format(file.root())) {
                    println!("render {} {}", ser_doc(&d), WIDTHS_RENDER);
                }
            }
        }
    }
    // synthetic documents: shapes the builders never produce (groups inside flat groups, IfBreak around
    // hard lines, texts with blanks and line breaks)
    let n_synth = if all { 20000 } else { 1500 };
    for _ in 0..n_synth {
        let depth = 1 + r.below(6) as u32;
        let d = rand_doc(&mut r, depth);
        let w = r.below(30);
        println!("render {} {},{}", ser_doc(&d), w, WIDTHS_RENDER);
    }
}

fn main() {
    let args: Vec<String> = std::env::args().collect();
    install_hook();
    match args.get(1).map(|s| s.as_str()) {
        Some("gen") => {
            let n: usize = args.get(2).and_then(|s| s.parse().ok()).unwrap_or(100);
            gen(n);
        }
        Some("run") => {
            let input: Box<dyn BufRead> = match args.get(2) {
                Some(p) if p != "-" => Box::new(std::io::BufReader::new(std::fs::File::open(p).expect("open request file"))),
                _ => Box::new(std::io::BufReader::new(std::io::stdin())),
            };
            let mut out: Box<dyn Write> = match args.get(3) {
                Some(p) => Box::new(std::io::BufWriter::new(std::fs::File::create(p).expect("create response file"))),
                None => Box::new(std::io::BufWriter::new(std::io::stdout())),
            };
            for line in input.lines() {
                let line = line.expect("read line");
                let l = line.trim_end_matches(['\n', '\r']);
                if l.is_empty() {
                    continue;
                }
                let resp = match catch(|| respond(l)) {
                    Ok(s) => s,
                    Err((s, m)) => format!("!panic {} {}", s, m),
                };
                writeln!(out, "{}", resp).unwrap();
            }
            out.flush().unwrap();
        }
        Some("tree") => {
            let text = std::fs::read_to_string(&args[2]).expect("read");
            let (file, errors) = Parser::from_shared_string(Arc::new(text)).parse();
            print!("{}", dora_parser::ast::printer::dump_file_to_string_with_trivia(&file, args.get(3).is_some()));
            for e in errors {
                println!("error: {} at {}", e.error.message(), e.span);
            }
        }
        _ => {
            eprintln!("usage: h_c17 gen <n> | run <reqfile> [<outfile>] | tree <file>");
            std::process::exit(2);
        }
    }
}
