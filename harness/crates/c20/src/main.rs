//! C20 harness: drives the real position.rs of dora-language-server (a binary-only crate, so the file
//! is compiled in by path) and `compute_line_starts` / `compute_line_column` of dora-parser.
//!   h_c20 gen <n> [depth]   request file to stdout (seeded by VERIF_SEED): every concatenation of
//!                           <= depth pieces (default 2) + n random texts
//!   h_c20 run [file]        answer requests (one per line) with the real implementation
//! requests (text = hex of its UTF-8 bytes, `-` = empty):
//!   starts <text>                 -> `s0,s1,...`
//!   o2p <text> <off>              -> `line col`            (utf8_offset_to_utf16_position)
//!   p2o <text> <line> <col>       -> `off`                 (utf16_position_to_utf8_offset)
//!   lc <text> <off>               -> `line col`            (compute_line_column, 1-based, bytes)
//!   s2r <text> <start> <end>      -> `l1 c1 l2 c2`         (span_to_range)
//! a panic is `!panic slice` (str slicing refused: out of range / inside a character), `!panic index`
//! (slice index / subtraction underflow) or `!panic other <msg>`.
#[allow(dead_code)]
#[path = "/repo/dora-language-server/src/position.rs"]
mod position;

use dora_parser::{compute_line_column, compute_line_starts, Span};
use hutil::{hex, unhex, Rng};
use lsp_types::Position;

fn text(h: &str) -> Option<String> {
    String::from_utf8(unhex(h)).ok()
}

fn canon_panic(s: String) -> String {
    if let Some(m) = s.strip_prefix("!panic ") {
        if m.contains("is not a char boundary") || m.contains("out of bounds of `") || m.contains("out of range for string")
            || m.contains("begin <= end") || (m.contains("byte index") && m.contains("is out of bounds"))
        {
            return "!panic slice".to_string();
        }
        if m.contains("index out of bounds") || m.contains("subtract with overflow") || m.contains("out of range for slice") {
            return "!panic index".to_string();
        }
        return format!("!panic other {}", m);
    }
    s
}

fn respond(line: &str) -> String {
    let p: Vec<&str> = line.split(' ').collect();
    if p.len() < 2 {
        return "!badreq".to_string();
    }
    let t = match text(p[1]) {
        Some(t) => t,
        None => return "!notutf8".to_string(),
    };
    let num = |i: usize| -> Option<u32> { p.get(i).and_then(|s| s.parse::<u32>().ok()) };
    let r = hutil::guarded(&mut || {
        let starts = compute_line_starts(&t);
        match p[0] {
            "starts" => starts.iter().map(|x| x.to_string()).collect::<Vec<_>>().join(","),
            "o2p" => match num(2) {
                Some(off) => {
                    let pos = position::utf8_offset_to_utf16_position(&t, &starts, off);
                    format!("{} {}", pos.line, pos.character)
                }
                None => "!badreq".to_string(),
            },
            "p2o" => match (num(2), num(3)) {
                (Some(l), Some(c)) => {
                    position::utf16_position_to_utf8_offset(&t, &starts, Position::new(l, c)).to_string()
                }
                _ => "!badreq".to_string(),
            },
            "lc" => match num(2) {
                Some(off) => {
                    let (l, c) = compute_line_column(&starts, off);
                    format!("{} {}", l, c)
                }
                None => "!badreq".to_string(),
            },
            "s2r" => match (num(2), num(3)) {
                (Some(s), Some(e)) if s <= e => {
                    let r = position::span_to_range(&t, &starts, Span::new(s, e - s));
                    format!("{} {} {} {}", r.start.line, r.start.character, r.end.line, r.end.character)
                }
                _ => "!badreq".to_string(),
            },
            _ => "!badreq".to_string(),
        }
    });
    canon_panic(r)
}

// one piece per UTF-8 length and per 4-byte LEAD byte (F0..F4: planes 1-3, 4-7, 8-11, 12-15, 16), both ends of each
// encoding length, a lone BOM; line ends of every style
const PIECES: &[&str] = &["a", "é", "世", "😀", "𝔘", "\n", "\r", "\r\n", " ", "\u{2028}", "\t", "",
    "\u{7f}", "\u{80}", "\u{7ff}", "\u{800}", "\u{ffff}", "\u{10000}", "\u{3ffff}", "\u{40000}", "\u{7ffff}",
    "\u{80000}", "\u{bffff}", "\u{c0000}", "\u{e0067}", "\u{e0100}", "\u{fffff}", "\u{100000}", "\u{10ffff}", "\u{feff}"];

fn emit_text(t: &str, r: &mut Rng) {
    let h = hex(t.as_bytes());
    println!("starts {}", h);
    let len = t.len() as u32;
    // every byte offset 0..=len+2: all char boundaries, all offsets inside characters, two past the end
    for off in 0..=len + 2 {
        println!("o2p {} {}", h, off);
        println!("lc {} {}", h, off);
    }
    println!("lc {} {}", h, len + 1000);
    let starts = compute_line_starts(t);
    let nlines = starts.len() as u32;
    // longest line in UTF-16 units
    let mut maxcol = 0u32;
    for (i, s) in starts.iter().enumerate() {
        let e = if i + 1 < starts.len() { starts[i + 1] } else { len };
        let c = t[*s as usize..e as usize].encode_utf16().count() as u32;
        maxcol = maxcol.max(c);
    }
    // the position grid: every line incl. two past the last, every column incl. inside surrogate pairs,
    // at the line terminator, and two past the longest line
    for l in 0..nlines + 2 {
        for c in 0..=maxcol + 2 {
            println!("p2o {} {} {}", h, l, c);
        }
    }
    println!("p2o {} {} {}", h, u32::MAX, 0);
    println!("p2o {} {} {}", h, 0, u32::MAX);
    println!("p2o {} {} {}", h, nlines - 1, u32::MAX);
    println!("p2o {} {} {}", h, u32::MAX, u32::MAX);
    // spans between boundaries (nested pairs come from the check script's oracle over all of them)
    let bounds: Vec<u32> = (0..=len).filter(|o| t.is_char_boundary(*o as usize)).collect();
    for _ in 0..4 {
        let a = *r.pickv(&bounds);
        let b = *r.pickv(&bounds);
        println!("s2r {} {} {}", h, a.min(b), a.max(b));
    }
    println!("s2r {} 0 {}", h, len);
    println!("s2r {} {} {}", h, len, len + 1);
}

fn exhaustive(depth: usize, cur: &mut String, seen: &mut std::collections::BTreeSet<String>, r: &mut Rng) {
    if seen.insert(cur.clone()) {
        emit_text(cur, r);
    }
    if depth == 0 {
        return;
    }
    for p in PIECES {
        if p.is_empty() {
            continue;
        }
        let l = cur.len();
        cur.push_str(p);
        exhaustive(depth - 1, cur, seen, r);
        cur.truncate(l);
    }
}

fn gen(n: usize, depth: usize) {
    let mut r = Rng::from_env();
    // fixed: the shapes named in the property text
    let fixed = [
        "", "line1\nline2\nline3", "line1\r\nline2\r\nline3", "a😀\r\nb", "😀\r\n", "𝔘\r", "\r\r\n\n\r", "x\n",
        "Hello 😀 World\n🎉 Test 🚀", "fn 你好() {}\r\n\r\n", "a\u{2028}b\u{85}c\u{b}d\u{c}e", "\u{feff}fn main() {}\n",
        "\n\n\n", "\r\n\r\n", "\n\r", "é\r\n世\r𝔘\n😀",
    ];
    let mut seen = std::collections::BTreeSet::new();
    for f in fixed {
        if seen.insert(f.to_string()) {
            emit_text(f, &mut r);
        }
    }
    let mut cur = String::new();
    exhaustive(depth, &mut cur, &mut seen, &mut r);
    for i in 0..n {
        let k = match i % 3 {
            0 => 3 + r.below(4),
            1 => 5 + r.below(8),
            _ => 8 + r.below(16),
        };
        let mut s = String::new();
        for _ in 0..k {
            s.push_str(r.pick(PIECES));
        }
        if seen.insert(s.clone()) {
            emit_text(&s, &mut r);
        }
    }
}

fn main() {
    let args: Vec<String> = std::env::args().collect();
    match args.get(1).map(|s| s.as_str()) {
        Some("gen") => gen(
            args.get(2).and_then(|s| s.parse().ok()).unwrap_or(200),
            args.get(3).and_then(|s| s.parse().ok()).unwrap_or(2),
        ),
        Some("run") => hutil::serve(args.get(2).map(|s| s.as_str()), &mut |l| respond(l)),
        _ => eprintln!("usage: h_c20 gen <n> [depth] | run [file]"),
    }
}
