//! C07 harness: drives the real x86-64 assembler of dora-asm.
//!   h_c07 gen <level>      request file on stdout (level 0 = quick, 1 = thorough), derived only from VERIF_SEED
//!   h_c07 run [file]       answer each request with the real implementation
//! request:  `<avx 0|1> <op> [; <op>]*`   one fresh `AssemblerX64::new(avx)` per line, ops in order, then `finalize(1)`
//!   op = `<method> <operands…>` (method table generated from x64.rs: src/dispatch.rs) or `nops <k>`
//!   operands: register / xmm by number, immediate decimal (i64), condition by declaration index,
//!             label by creation index, address `off b d` | `idx i s d` | `arr b i s d` | `rip d` (scale 0..3)
//! response: lower-case hex of the code bytes | `!panic`
mod dispatch;

use dora_asm::x64::*;
use dora_asm::Label;
use hutil::{hex, Rng};

pub struct Toks<'a> {
    toks: Vec<&'a str>,
    i: usize,
    labels: Vec<Label>,
}

impl<'a> Toks<'a> {
    fn next(&mut self) -> &'a str {
        let t = self.toks.get(self.i).copied().expect("missing operand");
        self.i += 1;
        t
    }
    pub fn end(&mut self) {
        assert!(self.i == self.toks.len(), "too many operands");
    }
    pub fn reg(&mut self) -> Register {
        Register::new(self.next().parse().unwrap())
    }
    pub fn xmm(&mut self) -> XmmRegister {
        XmmRegister::new(self.next().parse().unwrap())
    }
    pub fn imm(&mut self) -> Immediate {
        Immediate(self.next().parse().unwrap())
    }
    pub fn cond(&mut self) -> Condition {
        dispatch::CONDS[self.next().parse::<usize>().unwrap()]
    }
    pub fn u8(&mut self) -> u8 {
        self.next().parse().unwrap()
    }
    pub fn u32(&mut self) -> u32 {
        self.next().parse().unwrap()
    }
    pub fn u64(&mut self) -> u64 {
        self.next().parse().unwrap()
    }
    pub fn i32(&mut self) -> i32 {
        self.next().parse().unwrap()
    }
    pub fn usize(&mut self) -> usize {
        self.next().parse().unwrap()
    }
    pub fn label(&mut self) -> Label {
        let k: usize = self.next().parse().unwrap();
        self.labels[k]
    }
    pub fn push_label(&mut self, l: Label) {
        self.labels.push(l);
    }
    fn scale(&mut self) -> ScaleFactor {
        match self.next() {
            "0" => ScaleFactor::One,
            "1" => ScaleFactor::Two,
            "2" => ScaleFactor::Four,
            "3" => ScaleFactor::Eight,
            _ => panic!("bad scale"),
        }
    }
    pub fn addr(&mut self) -> Address {
        match self.next() {
            "off" => {
                let b = self.reg();
                let d = self.i32();
                Address::offset(b, d)
            }
            "idx" => {
                let i = self.reg();
                let s = self.scale();
                let d = self.i32();
                Address::index(i, s, d)
            }
            "arr" => {
                let b = self.reg();
                let i = self.reg();
                let s = self.scale();
                let d = self.i32();
                Address::array(b, i, s, d)
            }
            "rip" => {
                let d = self.i32();
                Address::rip(d)
            }
            _ => panic!("bad address"),
        }
    }
}

fn respond(line: &str) -> String {
    let (avx, rest) = line.split_once(' ').unwrap_or((line, ""));
    let mut a = AssemblerX64::new(avx == "1");
    let mut t = Toks { toks: Vec::new(), i: 0, labels: Vec::new() };
    for op in rest.split(';') {
        let toks: Vec<&str> = op.split_whitespace().collect();
        if toks.is_empty() {
            continue;
        }
        if toks[0] == "nops" {
            let k: usize = toks[1].parse().unwrap();
            for _ in 0..k {
                a.nop();
            }
            continue;
        }
        t.toks = toks[1..].to_vec();
        t.i = 0;
        if !dispatch::dispatch(&mut a, toks[0], &mut t) {
            return "!badreq".to_string();
        }
    }
    hex(&a.finalize(1).code())
}

// ---------------------------------------------------------------------------------------------- generator

const SUBSET: &[i64] = &[0, 3, 4, 5, 7, 8, 12, 13, 15];
const DISPS: &[i64] = &[0, 1, -1, 127, -127, 128, -128, 129, -129, 2147483647, -2147483648, 4096, -65536];
const IMMS: &[i64] = &[
    0, 1, -1, 2, 5, 127, 128, -128, -129, 255, 256, 32767, 65535, 65536, 2147483647, 2147483648, -2147483648,
    -2147483649, 4294967295, 4294967296, 9223372036854775807, -9223372036854775808, 305419896, -559038737,
];
const BYTES: &[i64] = &[0, 1, 2, 3, 4, 7, 8, 127, 128, 255];

fn addresses(r: &mut Rng, thorough: bool) -> Vec<String> {
    let mut v = Vec::new();
    let mut disps: Vec<i64> = DISPS.to_vec();
    for _ in 0..(if thorough { 6 } else { 2 }) {
        disps.push(r.range(-2147483648, 2147483647));
        disps.push(r.range(-300, 300));
    }
    for b in 0..16 {
        for d in &disps {
            v.push(format!("off {} {}", b, d));
        }
    }
    let few: Vec<i64> = if thorough { disps.clone() } else { vec![0, 1, -128, 127, 128, 2147483647, -2147483648] };
    for i in 0..16 {
        for s in 0..4 {
            for d in &few {
                if thorough || (i + s) % 3 == 0 || *d == 0 {
                    v.push(format!("idx {} {} {}", i, s, d));
                }
            }
        }
    }
    for b in 0..16 {
        for i in 0..16 {
            for s in 0..4 {
                for d in &few {
                    if thorough || r.chance(1, 24) || (*d == 0 && s == 0 && (b + i) % 3 == 0) {
                        v.push(format!("arr {} {} {} {}", b, i, s, d));
                    }
                }
            }
        }
    }
    for d in &disps {
        v.push(format!("rip {}", d));
    }
    v
}

fn operand_values(k: char, pos: usize, thorough: bool, r: &mut Rng, addrs: &[String]) -> Vec<String> {
    match k {
        'r' | 'x' => {
            if thorough || pos == 0 {
                (0..16).map(|x| x.to_string()).collect()
            } else {
                SUBSET.iter().map(|x| x.to_string()).collect()
            }
        }
        'c' => (0..dispatch::CONDS.len()).map(|x| x.to_string()).collect(),
        'a' => addrs.to_vec(),
        'i' => {
            let mut v: Vec<String> = IMMS.iter().map(|x| x.to_string()).collect();
            for _ in 0..(if thorough { 12 } else { 3 }) {
                v.push((r.next() as i64).to_string());
                v.push(r.range(-2147483648, 2147483647).to_string());
                v.push(r.range(-130, 260).to_string());
            }
            v
        }
        'b' => BYTES.iter().map(|x| x.to_string()).collect(),
        'd' => DISPS.iter().map(|x| x.to_string()).collect(),
        'n' => vec!["1".into(), "4".into(), "16".into()],
        'w' => vec!["0".into(), "305419896".into(), "4294967295".into()],
        'q' => vec!["0".into(), "81985529216486895".into(), "18446744073709551615".into()],
        _ => vec![],
    }
}

fn gen_plain(r: &mut Rng, thorough: bool) {
    let addrs = addresses(r, thorough);
    let cap: u64 = if thorough { 20_000 } else { 400 };
    for (name, sig) in dispatch::METHODS {
        if sig.contains('l') || ["create_label", "create_and_bind_label", "set_position", "set_position_end"].contains(name) {
            continue;
        }
        let lists: Vec<Vec<String>> =
            sig.chars().enumerate().map(|(i, k)| operand_values(k, i, thorough, r, &addrs)).collect();
        let total: u64 = lists.iter().map(|l| l.len() as u64).product();
        for avx in 0..2 {
            if total <= cap {
                // full cartesian product
                for n in 0..total {
                    let mut m = n;
                    let mut ops: Vec<&str> = Vec::new();
                    for l in lists.iter().rev() {
                        ops.push(l[(m % l.len() as u64) as usize].as_str());
                        m /= l.len() as u64;
                    }
                    ops.reverse();
                    println!("{} {} {}", avx, name, ops.join(" "));
                }
            } else {
                // every value of every operand at least once with random partners, then random combinations
                for (i, l) in lists.iter().enumerate() {
                    for v in l {
                        let ops: Vec<&str> = lists
                            .iter()
                            .enumerate()
                            .map(|(j, lj)| if j == i { v.as_str() } else { lj[r.below(lj.len() as u64) as usize].as_str() })
                            .collect();
                        println!("{} {} {}", avx, name, ops.join(" "));
                    }
                }
                for _ in 0..cap {
                    let ops: Vec<&str> = lists.iter().map(|lj| lj[r.below(lj.len() as u64) as usize].as_str()).collect();
                    println!("{} {} {}", avx, name, ops.join(" "));
                }
            }
        }
    }
}

fn label_op(name: &str, sig: &str, r: &mut Rng, label: usize) -> String {
    let mut s = name.to_string();
    for k in sig.chars() {
        s.push(' ');
        match k {
            'l' => s.push_str(&label.to_string()),
            'c' => s.push_str(&r.below(dispatch::CONDS.len() as u64).to_string()),
            _ => s.push_str(&r.below(16).to_string()),
        }
    }
    s
}

fn filler(r: &mut Rng) -> String {
    match r.below(6) {
        0 => format!("nops {}", r.below(5)),
        1 => format!("addq_rr {} {}", r.below(16), r.below(16)),
        2 => format!("movq_ri {} {}", r.below(16), r.next() as i64),
        3 => format!("movq_ra {} off {} {}", r.below(16), r.below(16), r.range(-300, 300)),
        4 => format!("cmpl_ri {} {}", r.below(16), r.range(-300, 300)),
        _ => "retq".to_string(),
    }
}

fn gen_labels(r: &mut Rng, thorough: bool) {
    let dists: Vec<u64> = if thorough {
        (0..140).chain([200, 255, 256, 300, 1000, 3000]).collect()
    } else {
        vec![0, 1, 2, 5, 60, 120, 121, 122, 123, 124, 125, 126, 127, 128, 129, 130, 131, 300]
    };
    for (name, sig) in dispatch::METHODS {
        if !sig.contains('l') || *name == "bind_label" {
            continue;
        }
        let reps = if thorough { 4 } else { 1 };
        for avx in 0..2 {
            for &k in &dists {
                for _ in 0..reps {
                    // forward reference
                    println!("{} create_label ; {} ; nops {} ; bind_label 0 ; retq", avx, label_op(name, sig, r, 0), k);
                    // backward reference (both ways of binding)
                    println!("{} create_and_bind_label ; nops {} ; {} ; retq", avx, k, label_op(name, sig, r, 0));
                    println!("{} nops 3 ; create_label ; bind_label 0 ; nops {} ; {}", avx, k, label_op(name, sig, r, 0));
                }
            }
            // never bound: finalize must refuse; bound twice: refused
            println!("{} create_label ; {}", avx, label_op(name, sig, r, 0));
            println!("{} create_label ; bind_label 0 ; {} ; bind_label 0", avx, label_op(name, sig, r, 0));
        }
    }
    // random programs: several labels, forward and backward references mixed with ordinary instructions
    let lm: Vec<&(&str, &str)> = dispatch::METHODS.iter().filter(|(n, s)| s.contains('l') && *n != "bind_label").collect();
    let n = if thorough { 20000 } else { 600 };
    for _ in 0..n {
        let avx = r.below(2);
        let nl = 1 + r.below(4) as usize;
        let mut ops: Vec<String> = (0..nl).map(|_| "create_label".to_string()).collect();
        let mut bound = vec![false; nl];
        let len = 3 + r.below(14);
        for _ in 0..len {
            match r.below(4) {
                0 => {
                    let l = r.below(nl as u64) as usize;
                    if !bound[l] {
                        bound[l] = true;
                        ops.push(format!("bind_label {}", l));
                    }
                }
                1 | 2 => {
                    let (name, sig) = lm[r.below(lm.len() as u64) as usize];
                    // SSE/AVX label forms must match the flag or the whole program is refused: pick compatible ones mostly
                    let is_v = name.starts_with('v');
                    let sse = sig.contains('x') && !is_v && !name.starts_with("xor");
                    if (is_v && avx == 0 || sse && avx == 1) && r.chance(9, 10) {
                        continue;
                    }
                    let li = r.below(nl as u64) as usize;
                    ops.push(label_op(name, sig, r, li));
                }
                _ => ops.push(filler(r)),
            }
            if r.chance(1, 12) {
                ops.push(format!("nops {}", 100 + r.below(60)));
            }
        }
        for l in 0..nl {
            if !bound[l] && r.chance(19, 20) {
                ops.push(format!("bind_label {}", l));
            }
        }
        println!("{} {}", avx, ops.join(" ; "));
    }
}

fn main() {
    let args: Vec<String> = std::env::args().collect();
    match args.get(1).map(|s| s.as_str()) {
        Some("gen") => {
            let level: usize = args.get(2).and_then(|s| s.parse().ok()).unwrap_or(0);
            let mut r = Rng::from_env();
            gen_plain(&mut r, level > 0);
            gen_labels(&mut r, level > 0);
        }
        Some("run") => {
            hutil::serve(args.get(2).map(|s| s.as_str()), &mut |l| respond(l));
        }
        _ => {
            eprintln!("usage: h_c07 gen <level> | run [file]");
            std::process::exit(2);
        }
    }
}
