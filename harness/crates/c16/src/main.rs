//! C16 harness: drives the real dora-parser (lexer, parser, green tree, red-tree spans).
//!   h_c16 gen <nfiles> <nmut> <nsoup> <nshort> [maxbuild]   request file on stdout (seeded by VERIF_SEED)
//!   h_c16 run [file]                                         answer requests with the real implementation
//! requests (text as lower-case hex of its UTF-8 bytes, `-` = empty):
//!   lex <text>             -> ok K@start,K@start,...,EOF ; Err@start+len,...        (model answers too)
//!   parse <text>           -> oracle facts on the real tree (harness only), or `!panic <file:line> <msg>`
//!   build <text> <events>  -> ok <pre-order of the real green tree>                  (model: lexer + buildTree on the events)
//!   ops <text> <ops>       -> ok <token_idx> <leading> | <events> | <pre-order>     (model: lexer + core ops + buildTree)
//!                             only with feature `oplog` (cfg-gated op log in parser.rs, hooks/c16_oplog.patch)
use dora_parser::ast::{File, SyntaxElement, SyntaxNode, SyntaxNodeBase};
use dora_parser::{lex, GreenElement, GreenNode, ParseError, ParseErrorWithLocation, Parser, TokenKind};
use hutil::{hex, unhex, Rng};
use std::collections::BTreeMap;
use std::io::{BufRead, Write};
use std::sync::{Arc, Mutex};

static PANIC_SITE: Mutex<String> = Mutex::new(String::new());

fn install_hook() {
    std::panic::set_hook(Box::new(|info| {
        let loc = info
            .location()
            .map(|l| {
                let f = l.file();
                let f = f.rsplit('/').next().unwrap_or(f);
                format!("{}:{}", f, l.line())
            })
            .unwrap_or_else(|| "?".to_string());
        *PANIC_SITE.lock().unwrap() = loc;
    }));
}

/// Run a closure; a panic becomes `!panic <file:line> <first line of the message>`.
fn guarded<T>(f: impl FnOnce() -> T) -> Result<T, String> {
    match std::panic::catch_unwind(std::panic::AssertUnwindSafe(f)) {
        Ok(v) => Ok(v),
        Err(e) => {
            let msg = if let Some(s) = e.downcast_ref::<String>() {
                s.clone()
            } else if let Some(s) = e.downcast_ref::<&str>() {
                s.to_string()
            } else {
                "?".to_string()
            };
            let site = PANIC_SITE.lock().unwrap().clone();
            Err(format!("!panic {} {}", site, msg.lines().next().unwrap_or("")))
        }
    }
}

fn err_name(e: &ParseError) -> String {
    match e {
        ParseError::UnknownChar(c) => format!("UnknownChar({})", *c as u32),
        other => {
            let d = format!("{:?}", other);
            d.split('(').next().unwrap().to_string()
        }
    }
}

fn err_kind(e: &ParseError) -> String {
    let d = format!("{:?}", e);
    d.split('(').next().unwrap().to_string()
}

// ------------------------------------------------------------------------------------------ lex

fn lex_line(text: &str) -> String {
    let r = lex(text);
    let mut s = String::with_capacity(r.tokens.len() * 14 + 8);
    s.push_str("ok ");
    for (i, k) in r.tokens.iter().enumerate() {
        if i > 0 {
            s.push(',');
        }
        if i < r.starts.len() {
            s.push_str(&format!("{:?}@{}", k, r.starts[i]));
        } else {
            s.push_str(&format!("{:?}", k));
        }
    }
    s.push_str(" ; ");
    if r.errors.is_empty() {
        s.push('-');
    }
    for (i, e) in r.errors.iter().enumerate() {
        if i > 0 {
            s.push(',');
        }
        s.push_str(&format!("{}@{}+{}", err_name(&e.error), e.span.start(), e.span.len()));
    }
    s
}

// ------------------------------------------------------------------------------------------ tree walks

fn preorder(node: &GreenNode, out: &mut String) {
    out.push_str(&format!("{:?}:{}(", node.syntax_kind(), node.text_length()));
    for c in node.children() {
        out.push(' ');
        match c {
            GreenElement::Token(t) => out.push_str(&format!("{:?}:{}", t.kind, t.text.len())),
            GreenElement::Node(n) => preorder(n, out),
        }
    }
    out.push_str(" )");
}

/// An event sequence that `build_tree` turns into exactly this green tree: `O<kinds>` / `A` / `C`.
/// A node whose first child is a node shares one Open with it (kinds in close order: inner first).
fn events_from_green(node: &GreenNode, out: &mut Vec<String>) {
    // collect the chain of first-child nodes
    let mut chain: Vec<&GreenNode> = vec![node];
    loop {
        let last = *chain.last().unwrap();
        match last.children().first() {
            Some(GreenElement::Node(n)) => chain.push(n.as_ref()),
            _ => break,
        }
    }
    let kinds: Vec<String> = chain.iter().rev().map(|n| format!("{:?}", n.syntax_kind())).collect();
    out.push(format!("O{}", kinds.join(".")));
    // now emit the remaining children innermost first
    for (depth, n) in chain.iter().enumerate().rev() {
        let skip = if depth + 1 < chain.len() { 1 } else { 0 };
        for c in n.children().iter().skip(skip) {
            match c {
                GreenElement::Token(_) => out.push("A".to_string()),
                GreenElement::Node(m) => events_from_green(m, out),
            }
        }
        out.push("C".to_string());
    }
}

struct Facts {
    lens: bool,
    tile: bool,
    spans: bool,
    ntok: usize,
    nnode: usize,
    nodes: BTreeMap<String, usize>,
    leaves: Vec<(TokenKind, u32, u32)>,
}

/// Walks the red tree through the public API (`children_with_tokens`, `offset`, `full_span`, `span`).
fn walk(node: &SyntaxNode, text: &str, f: &mut Facts) {
    f.nnode += 1;
    *f.nodes.entry(format!("{:?}", node.syntax_kind())).or_insert(0) += 1;
    let full = node.full_span();
    if full.start() != node.offset().value() || full.len() != node.text_length() {
        f.tile = false;
    }
    let inner = node.span();
    if !(full.start() <= inner.start() && inner.end() <= full.end()) {
        f.spans = false;
    }
    let mut pos = full.start();
    let mut sum: u64 = 0;
    for el in node.children_with_tokens() {
        let off = el.offset().value();
        let len = el.text_length();
        if off != pos {
            f.tile = false; // gap or overlap between siblings / at the start of the node
        }
        pos = off.wrapping_add(len);
        sum += len as u64;
        match el {
            SyntaxElement::Token(t) => {
                f.ntok += 1;
                let s = off as usize;
                let e = s + len as usize;
                if e > text.len() || !text.is_char_boundary(s) || !text.is_char_boundary(e) || &text[s..e] != t.text() {
                    f.tile = false; // the token's span does not address its own text
                }
                let sp = t.span();
                if sp.start() != off || sp.len() != len {
                    f.tile = false;
                }
                f.leaves.push((t.syntax_kind(), off, len));
            }
            SyntaxElement::Node(n) => walk(&n, text, f),
        }
    }
    if pos != full.end() {
        f.tile = false;
    }
    if sum != node.text_length() as u64 {
        f.lens = false;
    }
}

fn parse_real(text: &str) -> (File, Vec<ParseErrorWithLocation>) {
    Parser::from_shared_string(Arc::new(text.to_string())).parse()
}

fn b(x: bool) -> char {
    if x { '1' } else { '0' }
}

fn parse_line(text: &str) -> String {
    let (file, errors) = parse_real(text);
    let root = file.root();
    let green_text = root.green().to_string();
    let text_ok = green_text == text;
    let mut f = Facts { lens: true, tile: true, spans: true, ntok: 0, nnode: 0, nodes: BTreeMap::new(), leaves: Vec::new() };
    walk(&root, text, &mut f);
    if root.full_span().start() != 0 || root.full_span().len() as usize != text.len() {
        f.tile = false;
    }
    // every lexed token (EOF excluded) appears exactly once, in order, with the lexer's span
    let lx = lex(text);
    let mut toks_ok = f.leaves.len() == lx.starts.len();
    if toks_ok {
        for (i, (k, off, len)) in f.leaves.iter().enumerate() {
            let end = if i + 1 < lx.starts.len() { lx.starts[i + 1] } else { text.len() as u32 };
            if *k != lx.tokens[i] || *off != lx.starts[i] || off + len != end {
                toks_ok = false;
                break;
            }
        }
    }
    let mut errin = true;
    let mut errs: BTreeMap<String, usize> = BTreeMap::new();
    for e in &errors {
        if (e.span.start() as u64) + (e.span.len() as u64) > text.len() as u64 {
            errin = false;
        }
        *errs.entry(err_kind(&e.error)).or_insert(0) += 1;
    }
    let reparse = if errors.is_empty() {
        let (file2, errors2) = parse_real(&green_text);
        let mut p1 = String::new();
        let mut p2 = String::new();
        preorder(root.green(), &mut p1);
        preorder(file2.root().green(), &mut p2);
        b(errors2.is_empty() && p1 == p2)
    } else {
        '-'
    };
    let join = |m: &BTreeMap<String, usize>| {
        if m.is_empty() {
            "-".to_string()
        } else {
            m.iter().map(|(k, v)| format!("{}:{}", k, v)).collect::<Vec<_>>().join(",")
        }
    };
    format!(
        "ok text={} lens={} tile={} spans={} toks={} errin={} reparse={} nerr={} ntok={} nnode={} | errs={} | nodes={}",
        b(text_ok), b(f.lens), b(f.tile), b(f.spans), b(toks_ok), b(errin), reparse,
        errors.len(), f.ntok, f.nnode, join(&errs), join(&f.nodes)
    )
}

fn build_line(text: &str) -> String {
    let (file, _errors) = parse_real(text);
    let mut p = String::from("ok ");
    preorder(file.root().green(), &mut p);
    p
}

#[cfg(feature = "oplog")]
mod oplog {
    use super::*;
    use dora_parser::parser::{VerifEvent, VerifLog, VerifOp};

    pub fn parse_logged(text: &str) -> (File, Vec<ParseErrorWithLocation>, VerifLog) {
        Parser::from_shared_string(Arc::new(text.to_string())).verif_parse_with_oplog()
    }

    pub fn ops_string(log: &VerifLog) -> String {
        let v: Vec<String> = log
            .ops
            .iter()
            .map(|o| match o {
                VerifOp::Open => "o".to_string(),
                VerifOp::Close(m, k) => format!("c{}:{:?}", m, k),
                VerifOp::Advance => "a".to_string(),
                VerifOp::SkipTrivia => "s".to_string(),
                VerifOp::RawAdvance(l) => format!("r{}", if *l { 1 } else { 0 }),
                VerifOp::AdvanceByAllTrivia => "t".to_string(),
                VerifOp::AdvanceByTrailingTrivia => "l".to_string(),
                VerifOp::AdvanceByNonLeadingTrivia => "n".to_string(),
            })
            .collect();
        if v.is_empty() { "-".to_string() } else { v.join(",") }
    }

    pub fn events_string(log: &VerifLog) -> String {
        let v: Vec<String> = log
            .events
            .iter()
            .map(|e| match e {
                VerifEvent::Open(kinds) => {
                    format!("O{}", kinds.iter().map(|k| format!("{:?}", k)).collect::<Vec<_>>().join("."))
                }
                VerifEvent::Advance => "A".to_string(),
                VerifEvent::Close => "C".to_string(),
            })
            .collect();
        if v.is_empty() { "-".to_string() } else { v.join(",") }
    }

    pub fn ops_line(text: &str) -> String {
        let (file, _errors, log) = parse_logged(text);
        let mut p = String::new();
        preorder(file.root().green(), &mut p);
        format!("ok {} {} | {} | {}", log.token_idx, log.leading, events_string(&log), p)
    }
}

fn respond(line: &str) -> String {
    let p: Vec<&str> = line.split(' ').collect();
    if p.len() < 2 {
        return "!badreq".to_string();
    }
    let text = match String::from_utf8(unhex(p[1])) {
        Ok(t) => t,
        Err(_) => return "!notutf8".to_string(),
    };
    let r = match p[0] {
        "lex" => guarded(|| lex_line(&text)),
        "parse" => guarded(|| parse_line(&text)),
        "build" => guarded(|| build_line(&text)),
        #[cfg(feature = "oplog")]
        "ops" => guarded(|| oplog::ops_line(&text)),
        _ => Ok("!badreq".to_string()),
    };
    match r {
        Ok(s) => s,
        Err(s) => s,
    }
}

fn serve(path: Option<String>) {
    let input: Box<dyn BufRead> = match path {
        Some(p) => Box::new(std::io::BufReader::new(std::fs::File::open(p).expect("open request file"))),
        None => Box::new(std::io::BufReader::new(std::io::stdin())),
    };
    let stdout = std::io::stdout();
    let mut out = std::io::BufWriter::new(stdout.lock());
    for line in input.lines() {
        let line = line.expect("read line");
        let l = line.trim_end_matches(['\n', '\r']);
        if l.is_empty() || l.starts_with('#') {
            continue;
        }
        writeln!(out, "{}", respond(l)).unwrap();
    }
    out.flush().unwrap();
}

// ------------------------------------------------------------------------------------------ generator

fn dora_files() -> Vec<String> {
    fn rec(dir: &std::path::Path, out: &mut Vec<String>) {
        let mut entries: Vec<_> = match std::fs::read_dir(dir) {
            Ok(r) => r.filter_map(|e| e.ok()).collect(),
            Err(_) => return,
        };
        entries.sort_by_key(|e| e.file_name());
        for e in entries {
            let p = e.path();
            let name = e.file_name().to_string_lossy().to_string();
            if p.is_dir() {
                if name == "target" || name.starts_with('.') {
                    continue;
                }
                rec(&p, out);
            } else if name.ends_with(".dora") {
                out.push(p.to_string_lossy().to_string());
            }
        }
    }
    let mut out = Vec::new();
    let root = std::env::var("VERIF_REPO").unwrap_or_else(|_| "/repo".to_string());
    for sub in ["pkgs", "test", "tests", "bench"] {
        rec(&std::path::Path::new(&root).join(sub), &mut out);
    }
    out
}

const KEYWORDS: &[&str] = &[
    "true", "false", "class", "enum", "struct", "trait", "impl", "mod", "use", "package", "extern", "fn", "let", "mut",
    "const", "return", "if", "else", "while", "for", "in", "break", "continue", "match", "self", "super", "pub",
    "static", "mutating", "as", "is", "type", "where", "Self", "ref", "_",
];
const OPERATORS: &[&str] = &[
    "+", "-", "*", "/", "%", "!", "|", "&", "^", "&&", "||", "==", "!=", "===", "!==", "<", "<=", ">", ">=", "+=", "-=",
    "*=", "/=", "%=", "|=", "&=", "^=", ">>=", ">>>=", "<<=", ">>", ">>>", "<<", "=", ",", ";", ".", "..", "...", ":",
    "::", "@", "->", "=>", "(", ")", "[", "]", "{", "}",
];
const LITERALS: &[&str] = &[
    "x", "foo1", "Bar", "a_b", "0", "12", "0x1F", "0b101", "1_000", "1i32", "0xffu8", "0b", "0x", "1.5", "2.0e10",
    "3.0E-2f32", "1.", "1.e5", "7.0e", "\"s\"", "\"a\\\"b\"", "\"é世\"", "\"\"", "\"x${", "}y\"", "}${", "\"${\"${1}\"}\"",
    "\"a${b}c\"", "\"", "\"\\", "'a'", "'\\n'", "'\\''", "'", "'ab", "'\\", "'世'",
];
const TRIVIA: &[&str] = &[
    " ", "  ", "\t", "\n", "\r\n", "\r", "\n\n", "\u{a0}", "\u{2028}", "\u{2029}", "\u{3000}", "\u{85}", "\u{b}", "\u{c}",
    "\u{1680}", "\u{2003}", "\u{202f}", "\u{205f}", "//c\n", "// é世😀\n", "//", "/* c */", "/* a\nb */", "/* a\r\nb */",
    "/*", "/**/", "/*/", "/* 世 */", "/* * / */",
];
const UNKNOWN: &[&str] = &[
    "#", "$", "?", "\\", "~", "`", "\u{0}", "é", "世", "😀", "\u{feff}", "\u{200b}", "\u{180e}", "\u{2060}", "\u{7f}", "𝔘",
];
const FLIP: &[(&str, &str)] = &[("(", ")"), (")", "("), ("{", "}"), ("}", "{"), ("[", "]"), ("]", "["), ("\"", "'"), ("${", "$")];

fn vocab_pick<'a>(r: &mut Rng) -> &'a str {
    match r.below(10) {
        0 | 1 => r.pick(KEYWORDS),
        2 | 3 | 4 => r.pick(OPERATORS),
        5 | 6 => r.pick(LITERALS),
        7 | 8 => r.pick(TRIVIA),
        _ => r.pick(UNKNOWN),
    }
}

/// token texts of `text` by the real lexer
fn token_texts(text: &str) -> Vec<String> {
    let r = lex(text);
    let mut out = Vec::with_capacity(r.starts.len());
    for i in 0..r.starts.len() {
        let s = r.starts[i] as usize;
        let e = if i + 1 < r.starts.len() { r.starts[i + 1] as usize } else { text.len() };
        out.push(text[s..e].to_string());
    }
    out
}

fn floor_boundary(s: &str, mut i: usize) -> usize {
    if i > s.len() {
        i = s.len();
    }
    while !s.is_char_boundary(i) {
        i -= 1;
    }
    i
}

/// a window of at most `max` tokens (whole file if small)
fn window(r: &mut Rng, toks: &[String], max: usize) -> Vec<String> {
    if toks.len() <= max {
        return toks.to_vec();
    }
    let start = r.below((toks.len() - max) as u64) as usize;
    toks[start..start + max].to_vec()
}

fn mutate(r: &mut Rng, toks: &mut Vec<String>, other: &[String]) -> &'static str {
    if toks.is_empty() {
        toks.push(vocab_pick(r).to_string());
        return "insert";
    }
    let n = toks.len() as u64;
    match r.below(9) {
        0 => {
            let i = r.below(n) as usize;
            toks.remove(i);
            "delete"
        }
        1 => {
            let i = r.below(n) as usize;
            let t = toks[i].clone();
            toks.insert(i, t);
            "duplicate"
        }
        2 => {
            let i = r.below(n) as usize;
            let j = r.below(n) as usize;
            toks.swap(i, j);
            "swap"
        }
        3 => {
            let i = r.below(n) as usize;
            toks[i] = vocab_pick(r).to_string();
            "replace"
        }
        4 => {
            let i = r.below(n + 1) as usize;
            toks.insert(i, vocab_pick(r).to_string());
            "insert"
        }
        5 => {
            // truncate at an arbitrary byte, moved down to a char boundary
            let joined: String = toks.concat();
            let cut = floor_boundary(&joined, r.below(joined.len() as u64 + 1) as usize);
            toks.clear();
            toks.push(joined[..cut].to_string());
            "truncate"
        }
        6 => {
            // splice: prefix of this + suffix of the other file
            let i = r.below(n + 1) as usize;
            toks.truncate(i);
            if !other.is_empty() {
                let j = r.below(other.len() as u64) as usize;
                toks.extend_from_slice(&other[j..]);
            }
            "splice"
        }
        7 => {
            // flip delimiters
            let mut done = false;
            for _ in 0..20 {
                let i = r.below(n) as usize;
                if let Some((_, to)) = FLIP.iter().find(|(from, _)| toks[i] == *from) {
                    toks[i] = to.to_string();
                    done = true;
                    break;
                }
            }
            if !done {
                let i = r.below(n) as usize;
                toks[i] = (*r.pick(&["(", ")", "{", "}", "[", "]"])).to_string();
            }
            "flip"
        }
        _ => {
            // delete all separators around a token (glues neighbours together)
            let i = r.below(n) as usize;
            if toks[i].trim().is_empty() || toks[i].starts_with("//") {
                toks.remove(i);
            } else {
                toks[i] = toks[i].chars().rev().collect();
            }
            "glue"
        }
    }
}

fn convert_newlines(text: &str, style: u64) -> String {
    let lf = text.replace("\r\n", "\n").replace('\r', "\n");
    match style {
        0 => lf,
        1 => lf.replace('\n', "\r\n"),
        2 => lf.replace('\n', "\r"),
        _ => {
            // mixed: alternate
            let mut out = String::with_capacity(lf.len() + 16);
            let mut k = 0;
            for ch in lf.chars() {
                if ch == '\n' {
                    out.push_str(["\n", "\r\n", "\r"][k % 3]);
                    k += 1;
                } else {
                    out.push(ch);
                }
            }
            out
        }
    }
}

struct Emit {
    maxbuild: usize,
    seen: std::collections::HashSet<String>,
}

impl Emit {
    /// `lex` + `parse` for every text; `build`/`ops` when the parser produced a tree and the text is small enough
    fn text(&mut self, family: &str, text: &str) {
        if !self.seen.insert(text.to_string()) {
            return;
        }
        let h = hex(text.as_bytes());
        println!("# {}", family);
        println!("lex {}", h);
        println!("parse {}", h);
        if text.len() <= self.maxbuild {
            #[cfg(feature = "oplog")]
            {
                if let Ok((_f, _e, log)) = guarded(|| oplog::parse_logged(text)) {
                    println!("ops {} {}", h, oplog::ops_string(&log));
                }
            }
            #[cfg(not(feature = "oplog"))]
            {
                if let Ok((file, _errs)) = guarded(|| parse_real(text)) {
                    let mut ev = Vec::new();
                    events_from_green(file.root().green(), &mut ev);
                    println!("build {} {}", h, ev.join(","));
                }
            }
        }
    }
}

fn gen(nfiles: usize, nmut: usize, nsoup: usize, nshort: usize, maxbuild: usize) {
    let mut r = Rng::from_env();
    let mut em = Emit { maxbuild, seen: std::collections::HashSet::new() };

    // 1. fixed edge cases
    let fixed: &[&str] = &[
        "", " ", "\n", "\r", "\r\n", "\n\r", "\r\r\n", "x", "_", "_x", "é", "世", "😀", "\u{a0}", "\u{2028}x", "/", "//", "/*", "/*/", "/**/",
        "/* *", "/***/", "'", "''", "'\\", "'\\'", "'a", "'ab'", "\"", "\"\"", "\"\\", "\"\\\"", "\"${", "\"${}", "\"${}\"", "\"$", "\"$x\"",
        "\"${\"${}\"}\"", "\"${{}}\"", "\"a${ {1} }b${2}c\"", "\"${\"", "}", "}}", "{}", "{ \"${ } }", "0x", "0b", "0b2", "0xg", "1.", "1.x",
        "1.5", "1.5e", "1.5e+", "1.5e+3f32", "1..2", "1_000i64", "0xffu8", "00x1", "1e5", ">>>=", ">>>", ">>=", ">>", "...", "..", "....",
        "===", "!==", "!=", "<<=", "->", "=>", "=>>", "::", ":::", "let x = t.0.1;", "fn main() { let a = [1i32]; }",
        "fn f() {}\n", "fn f() { // c\n}\n\n\n// trailing\n", "fn f() {}\r\n\r\n/* m\r\nn */ fn g() {}\r\n",
        "class Foo { a: Int64, b: é }\n", "fn f(): Int64 { 1 + }", "fn (", "use a::b::{c, d as e};", "let x = \"a${1 + \"b${2}\"}c\";",
        "enum E { A(Int64), B }\nimpl E { fn f() {} }", "@pub @static fn f[T: Foo + Bar](x: T) where T: Baz {}",
        "fn f() { match x { 1 => 2, _ => { 3 } } }", "#", "#!", "\u{0}", "\u{feff}fn f() {}", "fn\u{3000}f\u{a0}()\u{2028}{}\u{85}",
    ];
    for t in fixed {
        em.text("fixed", t);
    }

    // 2. all strings of length 1 and 2 over an alphabet of interesting characters, sampled length 3..6
    let alpha: Vec<char> = "a_0x1b.eE+-*/%=<>!&|^:;,(){}[]@\"'\\$ \n\r\t#é世😀\u{a0}\u{2028}".chars().collect();
    for a in &alpha {
        em.text("short1", &a.to_string());
    }
    for a in &alpha {
        for b2 in &alpha {
            let s: String = [*a, *b2].iter().collect();
            em.text("short2", &s);
        }
    }
    for _ in 0..nshort {
        let len = 3 + r.below(4) as usize;
        let s: String = (0..len).map(|_| *r.pickv(&alpha)).collect();
        em.text("short3", &s);
    }

    // 3. repository sources (seeded sample), as they are and with converted line endings
    let files = dora_files();
    let mut order: Vec<usize> = (0..files.len()).collect();
    // Fisher-Yates with the seeded PRNG
    for i in (1..order.len()).rev() {
        let j = r.below(i as u64 + 1) as usize;
        order.swap(i, j);
    }
    let take = nfiles.min(order.len());
    let mut texts: Vec<String> = Vec::new();
    for &idx in order.iter().take(take) {
        if let Ok(bytes) = std::fs::read(&files[idx]) {
            if let Ok(t) = String::from_utf8(bytes) {
                em.text("file", &t);
                if r.chance(1, 3) {
                    let style = 1 + r.below(3);
                    em.text(["", "file-crlf", "file-cr", "file-mixed"][style as usize], &convert_newlines(&t, style));
                }
                texts.push(t);
            }
        }
    }

    // 4. token-level mutants of repository sources
    if !texts.is_empty() {
        let tok_cache: Vec<Vec<String>> = texts.iter().map(|t| token_texts(t)).collect();
        for _ in 0..nmut {
            let a = r.below(texts.len() as u64) as usize;
            let b2 = r.below(texts.len() as u64) as usize;
            let wmax = 60 + r.below(400) as usize;
            let mut toks = window(&mut r, &tok_cache[a], wmax);
            let other = window(&mut r, &tok_cache[b2], 200);
            let k = 1 + r.below(3);
            let mut names = Vec::new();
            for _ in 0..k {
                names.push(mutate(&mut r, &mut toks, &other));
            }
            let mut t: String = toks.concat();
            if r.chance(1, 4) {
                t = convert_newlines(&t, 1 + r.below(3));
                names.push("nl");
            }
            em.text(&format!("mutant:{}", names.join("+")), &t);
        }
    }

    // 5. token soups over all token kinds
    for i in 0..nsoup {
        let n = 1 + r.below(if i % 4 == 0 { 120 } else { 30 }) as usize;
        let mut s = String::new();
        let sep_mode = r.below(3);
        for _ in 0..n {
            s.push_str(vocab_pick(&mut r));
            match sep_mode {
                0 => {}
                1 => s.push(' '),
                _ => {
                    if r.chance(1, 2) {
                        s.push_str(r.pick(TRIVIA));
                    }
                }
            }
        }
        em.text("soup", &s);
    }

    // 6. grammar-shaped programs with unterminated / nested templates, comments, multi-byte trivia
    let heads = ["fn f() { ", "class C { ", "let x = ", "impl A for B { fn g() { ", "fn f(a: Int64, ", "use a::{", "enum E { A, "];
    let mids = [
        "let s = \"a${x}b\"; ", "let s = \"${\"${y}\"}\"; ", "x.0.1; ", "f(1, 2,); ", "if a { b } else { c } ", "while true { break; } ",
        "/* é */ ", "// 世\n", "\u{3000}", "return 1 + 2 * 3; ", "match v { A(x) => x, _ => 0 } ", "|a, b| a + b; ", "x is Some(y) && y > 1; ",
        "a as Int64; ", "for i in 0..10 { } ", "[1, 2, 3]; ", "(1, \"s\", 'c'); ", "ref mut x; ", "T::f[Int64](1); ", "\"unterminated ${ ",
        "\"unterminated ", "/* unterminated ", "'", "} ", "{ ", ") ", "@pub ", "=> ", ":: ", ", ",
    ];
    let tails = ["}", " }}", "", ";", ")", "\n", " } // end", "}\r\n"];
    for _ in 0..nsoup / 2 {
        let mut s = String::new();
        s.push_str(r.pick(&heads));
        for _ in 0..r.below(6) {
            s.push_str(r.pick(&mids));
        }
        s.push_str(r.pick(&tails));
        em.text("shaped", &s);
    }
}

fn main() {
    let args: Vec<String> = std::env::args().collect();
    install_hook();
    // deep recursion of the real parser on nested input: give the worker a large stack
    let worker = std::thread::Builder::new().stack_size(1 << 30).spawn(move || {
        let a = |i: usize, d: usize| args.get(i).and_then(|s| s.parse().ok()).unwrap_or(d);
        match args.get(1).map(|s| s.as_str()) {
            Some("gen") => gen(a(2, 50), a(3, 200), a(4, 200), a(5, 200), a(6, 20000)),
            Some("run") => serve(args.get(2).cloned()),
            _ => eprintln!("usage: h_c16 gen <nfiles> <nmut> <nsoup> <nshort> [maxbuild] | run [file]"),
        }
    });
    worker.unwrap().join().unwrap();
}
