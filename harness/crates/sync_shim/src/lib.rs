//! verif_sync_shim — a deterministic scheduler plus drop-in sync primitives, for running REAL
//! concurrent Rust code of /repo one interleaving at a time (used by C12; meant for C04 and C09 too).
//!
//! # What it is
//! Code under test uses this crate's `Mutex`, `Condvar` and atomics instead of parking_lot's / std's.
//! Threads are real OS threads, but only the holder of the scheduler's token runs.  EVERY shim operation
//! is a scheduling point: the thread announces the operation, hands the token back, the scheduler picks
//! the next runnable thread (asking a `Chooser` when there is more than one candidate), and the chosen
//! thread performs its operation atomically and logs an `Event`.  A thread blocked on a shim mutex or
//! waiting on a shim condvar is not runnable.  No runnable thread while some thread is unfinished =
//! deadlock (`Status::Deadlock`, with who waits for what).  Everything is deterministic given the
//! choice list, so a schedule is replayed from `RunResult::choice_list()`.
//!
//! # How to get the code under test onto the shim (no edit of /repo needed)
//! * `use parking_lot::{Mutex, Condvar}`: rename the dependency in the harness crate's Cargo.toml:
//!   `parking_lot = { package = "verif_sync_shim", path = "../sync_shim" }`.
//! * `use std::sync::atomic::{AtomicUsize, Ordering}`: compile the file in a small `#![no_std]` crate
//!   whose root says `extern crate verif_sync_shim as std;` — the file's `std::sync::atomic::…` paths
//!   then resolve to `verif_sync_shim::sync::atomic::…` (see harness/crates/c12/realterm).  Works for
//!   files that use nothing else from std (core's prelude and macros stay available).
//! * or a cfg hook `use crate::verif_sync::{…}` with `pub use verif_sync_shim as verif_sync`.
//!
//! # API
//! Sync objects (must be created and used inside `run`; ids are given in construction order per kind):
//! * `Mutex<T>`: `new`, `lock() -> MutexGuard<T>` (Deref/DerefMut; drop = `unlock`), `try_lock`, `id()`.
//! * `Condvar`: `new`, `wait(&mut guard)`, `notify_one() -> bool`, `notify_all() -> usize`, `id()`.
//!   `wait` = one event `wait` (release + join the wait set, atomically) and later one event `relock`.
//!   `notify_one` with several waiters is a choice point (`Kind::Waiter`).  Spurious wake-ups are
//!   choice points too when `Config::spurious_budget > 0` (event `spur` by the woken thread).
//!   Timed waits (`wait_for`/`wait_until`) are not provided.
//! * `sync::atomic::{AtomicUsize, AtomicU8, AtomicU32, AtomicU64, AtomicI32, AtomicBool, Ordering}`
//!   (also re-exported at the root): `new, load, store, swap, compare_exchange, compare_exchange_weak
//!   (never fails spuriously), fetch_add, fetch_sub, fetch_or, fetch_and, fetch_update, into_inner, id`
//!   and `peek()` — read without event or scheduling point, for oracles only.  Orderings are accepted
//!   and ignored: the semantics is sequential consistency (interleaving), see DESIGN §5.
//! * `spawn(f) -> JoinHandle<T>` (`join()`; `'static` closures, so share through `Arc`), `yield_now()`
//!   (a scheduling point after which switching away is not counted as a preemption), `current_tid()`,
//!   `mark(op, obj, rd, wr)` (append an annotation event; not a scheduling point),
//!   `pin_to_current_cpu()` (call once in `main`: token hand-over is much cheaper on one CPU).
//!
//! Running:
//! * `run(&Config, Box<dyn Chooser>, body) -> RunResult { status, events, trail, atomics, steps }`.
//!   `body` runs as thread 0.  `status`: `Completed | Deadlock | Panic | StepLimit`.
//! * `Event { tid, op, obj, rd, wr }`; ops: `load store swap cas fadd fsub for fand fupd lock trylock unlock
//!   wait relock spur n1 na spawn start exit join yield` + user marks.  `cas`/`fupd`: `wr = None` on failure.
//!   `n1`: `rd` = tid woken (None = nobody waiting).  `na`: `rd` = number woken.
//! * Choice points: the candidates are ordered — the thread that ran last first (continuing costs no
//!   preemption), then the others by tid, then spurious wake-ups — so "always choose 0" is the
//!   non-preemptive round-robin schedule.  Only points with ≥ 2 candidates are recorded in `trail`.
//!
//! Exploring (`explore` module):
//! * `Dfs::new(preemption_bound)`: `while let Some(ch) = dfs.next() { let r = run(.., ch, ..); dfs.record(&r); }`
//!   — stateless depth-first enumeration of all choice lists whose number of preemptions is ≤ bound
//!   (exhaustive for that bound when the loop ends by itself; `dfs.exhausted()`).
//! * `Pct::new(seed, depth, expected_len)`: randomized priorities with `depth-1` priority change points.
//! * `Replay::new(choice_list)`: follow a recorded choice list, then always choose 0.
//!
//! # Panics / aborts
//! A panic in the code under test (e.g. a failing `assert!`) ends the run with `Status::Panic { tid, msg }`;
//! all other threads are unwound.  Shim operations executed while unwinding take effect silently.
//! Code under test that sits below an `extern "C"` frame must not be unwound (the process would abort):
//! bracket the call with `set_no_unwind(true/false)` — such a thread is parked for ever and its OS thread
//! leaked when the run is aborted — and call `fail_current_thread(msg)` from the panic hook for a panic
//! raised inside the bracket (added for C04: `safepoint_slow` is `extern "C"`).

use std::cell::{RefCell, UnsafeCell};
use std::ops::{Deref, DerefMut};
use std::sync::atomic as sa;
use std::sync::{Arc, Condvar as StdCondvar, Mutex as StdMutex, MutexGuard as StdGuard};

pub mod explore;

pub type Tid = usize;

#[derive(Clone, Copy, Debug, PartialEq, Eq, Hash)]
pub enum Obj {
    None,
    Atomic(u32),
    Mutex(u32),
    Condvar(u32),
    Thread(u32),
    User(u32),
}

impl std::fmt::Display for Obj {
    fn fmt(&self, f: &mut std::fmt::Formatter<'_>) -> std::fmt::Result {
        match self {
            Obj::None => write!(f, "-"),
            Obj::Atomic(i) => write!(f, "a{}", i),
            Obj::Mutex(i) => write!(f, "m{}", i),
            Obj::Condvar(i) => write!(f, "c{}", i),
            Obj::Thread(i) => write!(f, "t{}", i),
            Obj::User(i) => write!(f, "u{}", i),
        }
    }
}

#[derive(Clone, Debug)]
pub struct Event {
    pub tid: Tid,
    pub op: &'static str,
    pub obj: Obj,
    pub rd: Option<u64>,
    pub wr: Option<u64>,
}

#[derive(Clone, Debug)]
pub struct Config {
    /// abort the run with `Status::StepLimit` after this many scheduling steps
    pub max_steps: usize,
    /// how many spurious condvar wake-ups the scheduler may inject in one run
    pub spurious_budget: usize,
}

impl Default for Config {
    fn default() -> Config {
        Config { max_steps: 20_000, spurious_budget: 0 }
    }
}

#[derive(Clone, Copy, Debug, PartialEq, Eq)]
pub enum Kind {
    /// which thread runs next
    Sched,
    /// which waiter a `notify_one` wakes
    Waiter,
}

/// One candidate at a choice point.
#[derive(Clone, Copy, Debug)]
pub struct Opt {
    pub tid: Tid,
    /// choosing it injects a spurious wake-up of `tid`
    pub spurious: bool,
    /// 1 if choosing it preempts a thread that could have continued
    pub cost: u8,
}

pub trait Chooser: Send {
    /// index into `opts` (len ≥ 2); `step` = scheduling steps so far, `last` = thread that ran last
    fn choose(&mut self, kind: Kind, opts: &[Opt], step: usize, last: Option<Tid>) -> usize;
}

/// A recorded choice (only points with ≥ 2 candidates).
#[derive(Clone, Debug)]
pub struct Choice {
    pub kind: Kind,
    pub chosen: usize,
    pub opts: Vec<Opt>,
}

#[derive(Clone, Debug, PartialEq, Eq)]
pub enum Status {
    Completed,
    /// unfinished threads and what each is blocked on
    Deadlock(Vec<(Tid, String)>),
    Panic { tid: Tid, msg: String },
    StepLimit,
}

pub struct RunResult {
    pub status: Status,
    pub events: Vec<Event>,
    pub trail: Vec<Choice>,
    /// last value of every shim atomic, by id
    pub atomics: Vec<u64>,
    pub steps: usize,
    pub preemptions: usize,
}

impl RunResult {
    pub fn choice_list(&self) -> Vec<usize> {
        self.trail.iter().map(|c| c.chosen).collect()
    }
}

// ------------------------------------------------------------------------------------------------
// scheduler

#[derive(Clone, Copy, Debug, PartialEq, Eq)]
enum Pend {
    Start,
    Op,
    Yield,
    Lock(u32),
    CvWait(u32, u32),
    Relock(u32),
    Join(Tid),
}

#[derive(Clone, Copy, Debug, PartialEq, Eq)]
enum St {
    Running,
    Ready(Pend),
    Finished,
}

struct Th {
    st: St,
    cv: Arc<StdCondvar>,
    /// see `set_no_unwind`
    no_unwind: bool,
}

struct Inner {
    cfg: Config,
    threads: Vec<Th>,
    current: Option<Tid>,
    last: Option<Tid>,
    last_yielded: bool,
    mutex_owner: Vec<Option<Tid>>,
    cv_wait: Vec<Vec<Tid>>,
    atomics: Vec<u64>,
    events: Vec<Event>,
    trail: Vec<Choice>,
    steps: usize,
    preemptions: usize,
    spur_used: usize,
    abort: Option<Status>,
    all_finished: bool,
    chooser: Box<dyn Chooser>,
    os: Vec<std::thread::JoinHandle<()>>,
}

struct Sched {
    inner: StdMutex<Inner>,
    done_cv: StdCondvar,
}

/// payload used to unwind the threads of an aborted run
struct SchedAbort;

thread_local! {
    static CTX: RefCell<Option<(Arc<Sched>, Tid)>> = const { RefCell::new(None) };
}

fn ctx() -> (Arc<Sched>, Tid) {
    CTX.with(|c| c.borrow().clone()).expect("verif_sync_shim: sync object used outside of `run`")
}

fn have_ctx() -> bool {
    CTX.with(|c| c.borrow().is_some())
}

pub fn current_tid() -> Tid {
    ctx().1
}

impl Inner {
    fn log(&mut self, tid: Tid, op: &'static str, obj: Obj, rd: Option<u64>, wr: Option<u64>) {
        self.events.push(Event { tid, op, obj, rd, wr });
    }

    fn wake_everyone(&self, sched: &Sched) {
        for t in &self.threads {
            t.cv.notify_all();
        }
        sched.done_cv.notify_all();
    }

    fn enabled(&self, p: Pend) -> bool {
        match p {
            Pend::Start | Pend::Op | Pend::Yield => true,
            Pend::Lock(m) | Pend::Relock(m) => self.mutex_owner[m as usize].is_none(),
            Pend::Join(u) => self.threads[u].st == St::Finished,
            Pend::CvWait(..) => false,
        }
    }

    fn describe(&self, p: Pend) -> String {
        match p {
            Pend::Lock(m) => format!("lock m{} (held by {:?})", m, self.mutex_owner[m as usize]),
            Pend::Relock(m) => format!("relock m{} after wait (held by {:?})", m, self.mutex_owner[m as usize]),
            Pend::CvWait(c, _) => format!("wait c{}", c),
            Pend::Join(u) => format!("join t{}", u),
            other => format!("{:?}", other),
        }
    }

    /// Hand the token to the next thread. Called by the thread that just gave it up.
    fn pick_next(&mut self, sched: &Sched) {
        loop {
            if self.abort.is_some() {
                self.wake_everyone(sched);
                return;
            }
            // candidates
            let mut normal: Vec<Tid> = Vec::new();
            let mut spur: Vec<Tid> = Vec::new();
            for (tid, th) in self.threads.iter().enumerate() {
                if let St::Ready(p) = th.st {
                    if self.enabled(p) {
                        normal.push(tid);
                    } else if let Pend::CvWait(..) = p {
                        if self.spur_used < self.cfg.spurious_budget {
                            spur.push(tid);
                        }
                    }
                }
            }
            if normal.is_empty() {
                // (a spurious wake-up alone never rescues a run: a deadlock that needs one is a deadlock)
                let unfinished: Vec<(Tid, String)> = self
                    .threads
                    .iter()
                    .enumerate()
                    .filter_map(|(tid, th)| match th.st {
                        St::Ready(p) => Some((tid, self.describe(p))),
                        St::Running => Some((tid, "running".to_string())),
                        St::Finished => None,
                    })
                    .collect();
                self.current = None;
                if unfinished.is_empty() {
                    self.all_finished = true;
                } else {
                    self.abort = Some(Status::Deadlock(unfinished));
                }
                self.wake_everyone(sched);
                return;
            }
            if self.steps >= self.cfg.max_steps {
                self.abort = Some(Status::StepLimit);
                self.current = None;
                self.wake_everyone(sched);
                return;
            }
            // order: the thread that ran last first (unless it yielded), others by tid, a yielding last thread
            // after them, spurious wake-ups at the end
            let last_can_continue = match self.last {
                Some(l) => normal.contains(&l) && !self.last_yielded,
                None => false,
            };
            let mut opts: Vec<Opt> = Vec::with_capacity(normal.len() + spur.len());
            if last_can_continue {
                opts.push(Opt { tid: self.last.unwrap(), spurious: false, cost: 0 });
            }
            let other_cost = if last_can_continue { 1 } else { 0 };
            for &t in &normal {
                if Some(t) != self.last {
                    opts.push(Opt { tid: t, spurious: false, cost: other_cost });
                }
            }
            if !last_can_continue {
                if let Some(l) = self.last {
                    if normal.contains(&l) {
                        opts.push(Opt { tid: l, spurious: false, cost: 0 });
                    }
                }
            }
            for &t in &spur {
                opts.push(Opt { tid: t, spurious: true, cost: 0 });
            }
            let idx = if opts.len() == 1 {
                0
            } else {
                let i = self.chooser.choose(Kind::Sched, &opts, self.steps, self.last);
                let i = if i < opts.len() { i } else { 0 };
                self.trail.push(Choice { kind: Kind::Sched, chosen: i, opts: opts.clone() });
                i
            };
            let o = opts[idx];
            self.steps += 1;
            self.preemptions += o.cost as usize;
            if o.spurious {
                if let St::Ready(Pend::CvWait(c, m)) = self.threads[o.tid].st {
                    self.cv_wait[c as usize].retain(|&w| w != o.tid);
                    self.threads[o.tid].st = St::Ready(Pend::Relock(m));
                    self.spur_used += 1;
                    self.log(o.tid, "spur", Obj::Condvar(c), None, None);
                }
                continue;
            }
            self.current = Some(o.tid);
            self.last = Some(o.tid);
            self.last_yielded = false;
            self.threads[o.tid].cv.notify_all();
            return;
        }
    }
}

impl Sched {
    /// Give up the token with `pend` as the announced operation, wait until chosen again.
    /// Returns with the token and the scheduler state locked; the caller performs its effect.
    fn block<'a>(&'a self, mut g: StdGuard<'a, Inner>, tid: Tid, pend: Pend) -> StdGuard<'a, Inner> {
        g.threads[tid].st = St::Ready(pend);
        if pend == Pend::Yield {
            g.last_yielded = true;
        }
        g.pick_next(self);
        let cv = g.threads[tid].cv.clone();
        while g.current != Some(tid) && g.abort.is_none() {
            g = cv.wait(g).unwrap();
        }
        if g.abort.is_some() {
            let leak = g.threads[tid].no_unwind;
            drop(g);
            if leak {
                park_for_ever();
            }
            std::panic::resume_unwind(Box::new(SchedAbort));
        }
        g.threads[tid].st = St::Running;
        g
    }

    fn enter(&self, tid: Tid, pend: Pend) -> StdGuard<'_, Inner> {
        let g = self.inner.lock().unwrap();
        self.block(g, tid, pend)
    }
}

/// Inside an unwinding thread (user panic or aborted run) shim operations must not block or panic.
fn unwinding() -> bool {
    std::thread::panicking()
}

/// Run `body` as thread 0 under a fresh scheduler.
pub fn run<F>(cfg: &Config, chooser: Box<dyn Chooser>, body: F) -> RunResult
where
    F: FnOnce() + Send + 'static,
{
    let sched = Arc::new(Sched {
        inner: StdMutex::new(Inner {
            cfg: cfg.clone(),
            threads: Vec::new(),
            current: None,
            last: None,
            last_yielded: false,
            mutex_owner: Vec::new(),
            cv_wait: Vec::new(),
            atomics: Vec::new(),
            events: Vec::new(),
            trail: Vec::new(),
            steps: 0,
            preemptions: 0,
            spur_used: 0,
            abort: None,
            all_finished: false,
            chooser,
            os: Vec::new(),
        }),
        done_cv: StdCondvar::new(),
    });
    {
        let mut g = sched.inner.lock().unwrap();
        let h = start_thread(&sched, &mut g, body, None::<Arc<StdMutex<Option<()>>>>);
        g.os.push(h);
        g.pick_next(&sched);
    }
    // wait for the end of the run, then for every OS thread
    {
        let mut g = sched.inner.lock().unwrap();
        while !(g.all_finished || g.abort.is_some()) {
            g = sched.done_cv.wait(g).unwrap();
        }
    }
    loop {
        let h = {
            let mut g = sched.inner.lock().unwrap();
            // `os[i]` is the OS thread of shim thread i; a thread marked no-unwind is never joined
            // (it is parked for ever if the run was aborted while it was inside the bracket)
            let tid = g.os.len().wrapping_sub(1);
            match g.os.pop() {
                Some(h) if g.threads[tid].no_unwind => {
                    drop(h);
                    continue;
                }
                other => other,
            }
        };
        match h {
            Some(h) => {
                let _ = h.join();
            }
            None => break,
        }
    }
    let mut g = sched.inner.lock().unwrap();
    let status = match g.abort.take() {
        Some(s) => s,
        None => Status::Completed,
    };
    RunResult {
        status,
        events: std::mem::take(&mut g.events),
        trail: std::mem::take(&mut g.trail),
        atomics: std::mem::take(&mut g.atomics),
        steps: g.steps,
        preemptions: g.preemptions,
    }
}

fn start_thread<F, T>(
    sched: &Arc<Sched>,
    g: &mut Inner,
    f: F,
    slot: Option<Arc<StdMutex<Option<T>>>>,
) -> std::thread::JoinHandle<()>
where
    F: FnOnce() -> T + Send + 'static,
    T: Send + 'static,
{
    let tid = g.threads.len();
    g.threads.push(Th { st: St::Ready(Pend::Start), cv: Arc::new(StdCondvar::new()), no_unwind: false });
    let sched2 = sched.clone();
    std::thread::Builder::new()
        .stack_size(256 * 1024)
        .spawn(move || {
            CTX.with(|c| *c.borrow_mut() = Some((sched2.clone(), tid)));
            let res = std::panic::catch_unwind(std::panic::AssertUnwindSafe(|| {
                // wait for the first turn
                {
                    let mut g = sched2.inner.lock().unwrap();
                    let cv = g.threads[tid].cv.clone();
                    while g.current != Some(tid) && g.abort.is_none() {
                        g = cv.wait(g).unwrap();
                    }
                    if g.abort.is_some() {
                        drop(g);
                        std::panic::resume_unwind(Box::new(SchedAbort));
                    }
                    g.threads[tid].st = St::Running;
                    g.log(tid, "start", Obj::Thread(tid as u32), None, None);
                }
                f()
            }));
            let mut g = sched2.inner.lock().unwrap();
            match res {
                Ok(v) => {
                    if let Some(s) = slot {
                        *s.lock().unwrap() = Some(v);
                    }
                }
                Err(e) => {
                    if !e.is::<SchedAbort>() && g.abort.is_none() {
                        let msg = if let Some(s) = e.downcast_ref::<String>() {
                            s.clone()
                        } else if let Some(s) = e.downcast_ref::<&str>() {
                            s.to_string()
                        } else {
                            "?".to_string()
                        };
                        g.abort = Some(Status::Panic { tid, msg });
                    }
                }
            }
            g.threads[tid].st = St::Finished;
            if g.abort.is_none() {
                g.log(tid, "exit", Obj::Thread(tid as u32), None, None);
                g.current = None;
                g.pick_next(&sched2);
            } else {
                g.wake_everyone(&sched2);
            }
            drop(g);
            CTX.with(|c| *c.borrow_mut() = None);
        })
        .expect("spawn OS thread")
}

pub struct JoinHandle<T> {
    tid: Tid,
    slot: Arc<StdMutex<Option<T>>>,
}

impl<T> JoinHandle<T> {
    pub fn tid(&self) -> Tid {
        self.tid
    }
    /// Blocks (scheduling point) until the thread has finished. `Err(())` if it produced no value.
    pub fn join(self) -> Result<T, ()> {
        let (s, me) = ctx();
        if !unwinding() {
            let mut g = s.enter(me, Pend::Join(self.tid));
            g.log(me, "join", Obj::Thread(self.tid as u32), None, None);
        }
        self.slot.lock().unwrap().take().ok_or(())
    }
}

/// Spawn a thread under the scheduler (event `spawn`; the child's first step is `start`).
pub fn spawn<F, T>(f: F) -> JoinHandle<T>
where
    F: FnOnce() -> T + Send + 'static,
    T: Send + 'static,
{
    let (s, me) = ctx();
    let slot = Arc::new(StdMutex::new(None));
    let mut g = s.inner.lock().unwrap();
    let tid = g.threads.len();
    let h = start_thread(&s, &mut g, f, Some(slot.clone()));
    g.os.push(h);
    g.log(me, "spawn", Obj::Thread(tid as u32), None, None);
    JoinHandle { tid, slot }
}

/// A scheduling point; switching away from the yielding thread is not a preemption.
pub fn yield_now() {
    if unwinding() {
        return;
    }
    let (s, me) = ctx();
    let mut g = s.enter(me, Pend::Yield);
    g.log(me, "yield", Obj::None, None, None);
}

fn park_for_ever() -> ! {
    loop {
        std::thread::park();
    }
}

/// Mark / unmark the calling thread as "must not be unwound" (it is about to run code under test below
/// an `extern "C"` frame, through which unwinding aborts the process).  While marked, an aborted run
/// (deadlock, step limit, panic of another thread) parks this thread for ever instead of unwinding it, and
/// `run` does not join its OS thread (it is leaked).  Not a scheduling point, no event.
pub fn set_no_unwind(on: bool) {
    if !have_ctx() {
        return;
    }
    let (s, me) = ctx();
    s.inner.lock().unwrap().threads[me].no_unwind = on;
}

/// For a panic hook: the calling thread panicked inside a `set_no_unwind(true)` bracket.  Ends the run
/// with `Status::Panic { tid, msg }` like an ordinary panic would, then parks the thread for ever (never
/// returns, so the unwinding that would abort the process never starts).
pub fn fail_current_thread(msg: String) -> ! {
    if have_ctx() {
        let (s, me) = ctx();
        let mut g = s.inner.lock().unwrap();
        if g.abort.is_none() {
            g.abort = Some(Status::Panic { tid: me, msg });
        }
        g.threads[me].st = St::Finished;
        g.threads[me].no_unwind = true;
        g.wake_everyone(&s);
    }
    park_for_ever()
}

/// Restrict the calling thread (and every thread it spawns later) to the CPU it is running on.
/// Only one scheduled thread runs at a time anyway; on one CPU the token hand-over (futex wake + wait)
/// is 2–3× cheaper than across CPUs. Call once at the start of `main`. Linux only; returns false if
/// the system call is refused. Has no influence on which schedules are explored.
pub fn pin_to_current_cpu() -> bool {
    #[cfg(target_os = "linux")]
    {
        extern "C" {
            fn sched_getcpu() -> i32;
            fn sched_setaffinity(pid: i32, cpusetsize: usize, mask: *const u8) -> i32;
        }
        unsafe {
            let cpu = sched_getcpu();
            if cpu < 0 || cpu >= 1024 {
                return false;
            }
            let mut mask = [0u8; 128];
            mask[(cpu / 8) as usize] |= 1 << (cpu % 8);
            sched_setaffinity(0, mask.len(), mask.as_ptr()) == 0
        }
    }
    #[cfg(not(target_os = "linux"))]
    {
        false
    }
}

/// Append an annotation event of the current thread (no scheduling point).
pub fn mark(op: &'static str, obj: Obj, rd: Option<u64>, wr: Option<u64>) {
    if unwinding() || !have_ctx() {
        return;
    }
    let (s, me) = ctx();
    s.inner.lock().unwrap().log(me, op, obj, rd, wr);
}

// ------------------------------------------------------------------------------------------------
// Mutex

pub struct Mutex<T> {
    id: u32,
    data: UnsafeCell<T>,
}

unsafe impl<T: Send> Send for Mutex<T> {}
unsafe impl<T: Send> Sync for Mutex<T> {}

pub struct MutexGuard<'a, T> {
    m: &'a Mutex<T>,
}

impl<T> Mutex<T> {
    pub fn new(v: T) -> Mutex<T> {
        let (s, _) = ctx();
        let mut g = s.inner.lock().unwrap();
        g.mutex_owner.push(None);
        Mutex { id: (g.mutex_owner.len() - 1) as u32, data: UnsafeCell::new(v) }
    }

    pub fn id(&self) -> u32 {
        self.id
    }

    pub fn lock(&self) -> MutexGuard<'_, T> {
        let (s, me) = ctx();
        if unwinding() {
            let mut g = s.inner.lock().unwrap();
            g.mutex_owner[self.id as usize] = Some(me);
            return MutexGuard { m: self };
        }
        let mut g = s.enter(me, Pend::Lock(self.id));
        debug_assert!(g.mutex_owner[self.id as usize].is_none());
        g.mutex_owner[self.id as usize] = Some(me);
        g.log(me, "lock", Obj::Mutex(self.id), None, None);
        MutexGuard { m: self }
    }

    pub fn try_lock(&self) -> Option<MutexGuard<'_, T>> {
        let (s, me) = ctx();
        if unwinding() {
            return None;
        }
        let mut g = s.enter(me, Pend::Op);
        if g.mutex_owner[self.id as usize].is_none() {
            g.mutex_owner[self.id as usize] = Some(me);
            g.log(me, "trylock", Obj::Mutex(self.id), Some(1), None);
            Some(MutexGuard { m: self })
        } else {
            g.log(me, "trylock", Obj::Mutex(self.id), Some(0), None);
            None
        }
    }

    pub fn into_inner(self) -> T {
        self.data.into_inner()
    }

    pub fn get_mut(&mut self) -> &mut T {
        self.data.get_mut()
    }
}

impl<'a, T> Deref for MutexGuard<'a, T> {
    type Target = T;
    fn deref(&self) -> &T {
        unsafe { &*self.m.data.get() }
    }
}

impl<'a, T> DerefMut for MutexGuard<'a, T> {
    fn deref_mut(&mut self) -> &mut T {
        unsafe { &mut *self.m.data.get() }
    }
}

impl<'a, T> Drop for MutexGuard<'a, T> {
    fn drop(&mut self) {
        if !have_ctx() {
            return;
        }
        let (s, me) = ctx();
        if unwinding() {
            let mut g = s.inner.lock().unwrap();
            if g.mutex_owner[self.m.id as usize] == Some(me) {
                g.mutex_owner[self.m.id as usize] = None;
            }
            return;
        }
        let mut g = s.enter(me, Pend::Op);
        g.mutex_owner[self.m.id as usize] = None;
        g.log(me, "unlock", Obj::Mutex(self.m.id), None, None);
    }
}

// ------------------------------------------------------------------------------------------------
// Condvar

pub struct Condvar {
    id: u32,
}

impl Condvar {
    pub fn new() -> Condvar {
        let (s, _) = ctx();
        let mut g = s.inner.lock().unwrap();
        g.cv_wait.push(Vec::new());
        Condvar { id: (g.cv_wait.len() - 1) as u32 }
    }

    pub fn id(&self) -> u32 {
        self.id
    }

    pub fn wait<T>(&self, guard: &mut MutexGuard<'_, T>) {
        if unwinding() {
            return;
        }
        let (s, me) = ctx();
        let m = guard.m.id;
        // the `wait` step: release the mutex and join the wait set, atomically
        let mut g = s.enter(me, Pend::Op);
        g.mutex_owner[m as usize] = None;
        g.cv_wait[self.id as usize].push(me);
        g.log(me, "wait", Obj::Condvar(self.id), None, None);
        // blocked until notified (or woken spuriously), then until the mutex is free
        let mut g = s.block(g, me, Pend::CvWait(self.id, m));
        g.mutex_owner[m as usize] = Some(me);
        g.log(me, "relock", Obj::Mutex(m), None, None);
    }

    pub fn notify_one(&self) -> bool {
        if unwinding() {
            return false;
        }
        let (s, me) = ctx();
        let mut g = s.enter(me, Pend::Op);
        let waiters = g.cv_wait[self.id as usize].clone();
        if waiters.is_empty() {
            g.log(me, "n1", Obj::Condvar(self.id), None, None);
            return false;
        }
        let idx = if waiters.len() == 1 {
            0
        } else {
            let opts: Vec<Opt> = waiters.iter().map(|&t| Opt { tid: t, spurious: false, cost: 0 }).collect();
            let (step, last) = (g.steps, g.last);
            let i = g.chooser.choose(Kind::Waiter, &opts, step, last);
            let i = if i < opts.len() { i } else { 0 };
            g.trail.push(Choice { kind: Kind::Waiter, chosen: i, opts });
            i
        };
        let w = waiters[idx];
        g.cv_wait[self.id as usize].retain(|&x| x != w);
        if let St::Ready(Pend::CvWait(_, m)) = g.threads[w].st {
            g.threads[w].st = St::Ready(Pend::Relock(m));
        }
        g.log(me, "n1", Obj::Condvar(self.id), Some(w as u64), None);
        true
    }

    pub fn notify_all(&self) -> usize {
        if unwinding() {
            return 0;
        }
        let (s, me) = ctx();
        let mut g = s.enter(me, Pend::Op);
        let waiters = std::mem::take(&mut g.cv_wait[self.id as usize]);
        for &w in &waiters {
            if let St::Ready(Pend::CvWait(_, m)) = g.threads[w].st {
                g.threads[w].st = St::Ready(Pend::Relock(m));
            }
        }
        g.log(me, "na", Obj::Condvar(self.id), Some(waiters.len() as u64), None);
        waiters.len()
    }
}

impl Default for Condvar {
    fn default() -> Condvar {
        Condvar::new()
    }
}

// ------------------------------------------------------------------------------------------------
// atomics

pub use std::sync::atomic::Ordering;

macro_rules! shim_atomic {
    ($name:ident, $ty:ty, $inner:ty, $to:expr, $int:tt) => {
        pub struct $name {
            id: u32,
            v: $inner,
        }

        impl $name {
            pub fn new(v: $ty) -> $name {
                let (s, _) = ctx();
                let mut g = s.inner.lock().unwrap();
                g.atomics.push(($to)(v));
                $name { id: (g.atomics.len() - 1) as u32, v: <$inner>::new(v) }
            }

            pub fn id(&self) -> u32 {
                self.id
            }

            /// read without event or scheduling point — for oracles only
            pub fn peek(&self) -> $ty {
                self.v.load(sa::Ordering::SeqCst)
            }

            pub fn into_inner(self) -> $ty {
                self.v.into_inner()
            }

            fn op<R>(&self, op: &'static str, f: impl FnOnce(&$inner) -> (R, Option<$ty>, Option<$ty>)) -> R {
                if unwinding() || !have_ctx() {
                    return f(&self.v).0;
                }
                let (s, me) = ctx();
                let mut g = s.enter(me, Pend::Op);
                let (r, rd, wr) = f(&self.v);
                if let Some(w) = wr {
                    g.atomics[self.id as usize] = ($to)(w);
                }
                g.log(me, op, Obj::Atomic(self.id), rd.map($to), wr.map($to));
                r
            }

            pub fn load(&self, _o: Ordering) -> $ty {
                self.op("load", |v| {
                    let x = v.load(sa::Ordering::SeqCst);
                    (x, Some(x), None)
                })
            }

            pub fn store(&self, val: $ty, _o: Ordering) {
                self.op("store", |v| {
                    v.store(val, sa::Ordering::SeqCst);
                    ((), None, Some(val))
                })
            }

            pub fn swap(&self, val: $ty, _o: Ordering) -> $ty {
                self.op("swap", |v| {
                    let x = v.swap(val, sa::Ordering::SeqCst);
                    (x, Some(x), Some(val))
                })
            }

            pub fn compare_exchange(&self, cur: $ty, new: $ty, _s: Ordering, _f: Ordering) -> Result<$ty, $ty> {
                self.op("cas", |v| {
                    let r = v.compare_exchange(cur, new, sa::Ordering::SeqCst, sa::Ordering::SeqCst);
                    match r {
                        Ok(x) => (r, Some(x), Some(new)),
                        Err(x) => (r, Some(x), None),
                    }
                })
            }

            /// never fails spuriously
            pub fn compare_exchange_weak(&self, cur: $ty, new: $ty, s: Ordering, f: Ordering) -> Result<$ty, $ty> {
                self.compare_exchange(cur, new, s, f)
            }

            pub fn fetch_update<F>(&self, _s: Ordering, _f: Ordering, mut f: F) -> Result<$ty, $ty>
            where
                F: FnMut($ty) -> Option<$ty>,
            {
                self.op("fupd", |v| {
                    let x = v.load(sa::Ordering::SeqCst);
                    match f(x) {
                        Some(n) => {
                            v.store(n, sa::Ordering::SeqCst);
                            (Ok(x), Some(x), Some(n))
                        }
                        None => (Err(x), Some(x), None),
                    }
                })
            }

            shim_atomic!(@bits $ty, $int);
        }
    };
    (@bits $ty:ty, int) => {
        pub fn fetch_add(&self, val: $ty, _o: Ordering) -> $ty {
            self.op("fadd", |v| {
                let x = v.fetch_add(val, sa::Ordering::SeqCst);
                (x, Some(x), Some(x.wrapping_add(val)))
            })
        }
        pub fn fetch_sub(&self, val: $ty, _o: Ordering) -> $ty {
            self.op("fsub", |v| {
                let x = v.fetch_sub(val, sa::Ordering::SeqCst);
                (x, Some(x), Some(x.wrapping_sub(val)))
            })
        }
        pub fn fetch_or(&self, val: $ty, _o: Ordering) -> $ty {
            self.op("for", |v| {
                let x = v.fetch_or(val, sa::Ordering::SeqCst);
                (x, Some(x), Some(x | val))
            })
        }
        pub fn fetch_and(&self, val: $ty, _o: Ordering) -> $ty {
            self.op("fand", |v| {
                let x = v.fetch_and(val, sa::Ordering::SeqCst);
                (x, Some(x), Some(x & val))
            })
        }
    };
    (@bits $ty:ty, bool) => {
        pub fn fetch_or(&self, val: $ty, _o: Ordering) -> $ty {
            self.op("for", |v| {
                let x = v.fetch_or(val, sa::Ordering::SeqCst);
                (x, Some(x), Some(x | val))
            })
        }
        pub fn fetch_and(&self, val: $ty, _o: Ordering) -> $ty {
            self.op("fand", |v| {
                let x = v.fetch_and(val, sa::Ordering::SeqCst);
                (x, Some(x), Some(x & val))
            })
        }
    };
}

shim_atomic!(AtomicUsize, usize, sa::AtomicUsize, |x: usize| x as u64, int);
shim_atomic!(AtomicU8, u8, sa::AtomicU8, |x: u8| x as u64, int);
shim_atomic!(AtomicU32, u32, sa::AtomicU32, |x: u32| x as u64, int);
shim_atomic!(AtomicU64, u64, sa::AtomicU64, |x: u64| x, int);
shim_atomic!(AtomicI32, i32, sa::AtomicI32, |x: i32| x as i64 as u64, int);
shim_atomic!(AtomicBool, bool, sa::AtomicBool, |x: bool| x as u64, bool);

/// `std::sync::atomic`-shaped path, so that `extern crate verif_sync_shim as std;` in a `#![no_std]`
/// crate redirects `use std::sync::atomic::{AtomicUsize, Ordering}` of an unmodified source file.
pub mod sync {
    pub mod atomic {
        pub use crate::{AtomicBool, AtomicI32, AtomicU32, AtomicU64, AtomicU8, AtomicUsize, Ordering};
    }
}
