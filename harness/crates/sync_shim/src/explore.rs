//! Schedule exploration: replay, bounded depth-first enumeration, randomized (PCT-style and uniform).
use crate::{Chooser, Kind, Opt, RunResult, Tid};

/// Follow a recorded choice list; after its end always take candidate 0 (= do not preempt).
pub struct Replay {
    list: Vec<usize>,
    pos: usize,
}

impl Replay {
    pub fn new(list: Vec<usize>) -> Replay {
        Replay { list, pos: 0 }
    }
}

impl Chooser for Replay {
    fn choose(&mut self, _kind: Kind, opts: &[Opt], _step: usize, _last: Option<Tid>) -> usize {
        let c = if self.pos < self.list.len() { self.list[self.pos] } else { 0 };
        self.pos += 1;
        if c < opts.len() {
            c
        } else {
            0
        }
    }
}

/// Stateless depth-first enumeration of all choice lists with at most `bound` preemptions.
/// ```ignore
/// let mut dfs = Dfs::new(2);
/// while let Some(ch) = dfs.next() { let r = run(&cfg, ch, body()); dfs.record(&r); }
/// assert!(dfs.exhausted());
/// ```
pub struct Dfs {
    bound: usize,
    next_prefix: Option<Vec<usize>>,
    last_prefix: Vec<usize>,
    pub runs: usize,
    /// replayed prefix was not reproduced by the run (non-determinism in the code under test): should stay 0
    pub divergences: usize,
    done: bool,
}

impl Dfs {
    pub fn new(bound: usize) -> Dfs {
        Dfs { bound, next_prefix: Some(Vec::new()), last_prefix: Vec::new(), runs: 0, divergences: 0, done: false }
    }

    pub fn next(&mut self) -> Option<Box<dyn Chooser>> {
        let p = self.next_prefix.take()?;
        self.last_prefix = p.clone();
        Some(Box::new(Replay::new(p)))
    }

    /// true once every schedule within the bound has been produced
    pub fn exhausted(&self) -> bool {
        self.done
    }

    pub fn record(&mut self, r: &RunResult) {
        self.runs += 1;
        let trail = &r.trail;
        for (i, &c) in self.last_prefix.iter().enumerate() {
            if i >= trail.len() || trail[i].chosen != c {
                self.divergences += 1;
                break;
            }
        }
        let mut pre = Vec::with_capacity(trail.len() + 1);
        let mut acc = 0usize;
        for c in trail {
            pre.push(acc);
            acc += c.opts[c.chosen].cost as usize;
        }
        for i in (0..trail.len()).rev() {
            let c = &trail[i];
            for alt in (c.chosen + 1)..c.opts.len() {
                if pre[i] + c.opts[alt].cost as usize <= self.bound {
                    let mut p: Vec<usize> = trail[..i].iter().map(|x| x.chosen).collect();
                    p.push(alt);
                    self.next_prefix = Some(p);
                    return;
                }
            }
        }
        self.next_prefix = None;
        self.done = true;
    }
}

fn splitmix(s: &mut u64) -> u64 {
    *s = s.wrapping_add(0x9E3779B97F4A7C15);
    let mut z = *s;
    z = (z ^ (z >> 30)).wrapping_mul(0xBF58476D1CE4E5B9);
    z = (z ^ (z >> 27)).wrapping_mul(0x94D049BB133111EB);
    z ^ (z >> 31)
}

/// PCT-style: random thread priorities, the highest-priority runnable thread runs; at `depth - 1` random
/// steps (among the first `expected_len`) the running thread's priority drops below all others.
pub struct Pct {
    rng: u64,
    prio: Vec<i64>,
    change: Vec<usize>,
    low: i64,
}

impl Pct {
    pub fn new(seed: u64, depth: usize, expected_len: usize) -> Pct {
        let mut rng = seed ^ 0xA076_1D64_78BD_642F;
        let mut change = Vec::new();
        for _ in 1..depth.max(1) {
            change.push((splitmix(&mut rng) % expected_len.max(1) as u64) as usize);
        }
        Pct { rng, prio: Vec::new(), change, low: -1 }
    }
}

impl Chooser for Pct {
    fn choose(&mut self, kind: Kind, opts: &[Opt], step: usize, last: Option<Tid>) -> usize {
        if kind == Kind::Waiter {
            return (splitmix(&mut self.rng) % opts.len() as u64) as usize;
        }
        for o in opts {
            while self.prio.len() <= o.tid {
                let p = 1000 + (splitmix(&mut self.rng) % 1_000_000) as i64;
                self.prio.push(p);
            }
        }
        if let Some(pos) = self.change.iter().position(|&c| c <= step) {
            self.change.swap_remove(pos);
            if let Some(l) = last {
                if l < self.prio.len() {
                    self.prio[l] = self.low;
                    self.low -= 1;
                }
            }
        }
        let spur: Vec<usize> = (0..opts.len()).filter(|&i| opts[i].spurious).collect();
        if !spur.is_empty() && splitmix(&mut self.rng) % 6 == 0 {
            return spur[(splitmix(&mut self.rng) % spur.len() as u64) as usize];
        }
        let mut best = 0;
        let mut bestp = i64::MIN;
        for (i, o) in opts.iter().enumerate() {
            if !o.spurious && self.prio[o.tid] > bestp {
                bestp = self.prio[o.tid];
                best = i;
            }
        }
        best
    }
}

/// Uniformly random candidate at every choice point.
pub struct Uniform {
    rng: u64,
}

impl Uniform {
    pub fn new(seed: u64) -> Uniform {
        Uniform { rng: seed ^ 0x5851_F42D_4C95_7F2D }
    }
}

impl Chooser for Uniform {
    fn choose(&mut self, _kind: Kind, opts: &[Opt], _step: usize, _last: Option<Tid>) -> usize {
        (splitmix(&mut self.rng) % opts.len() as u64) as usize
    }
}
