//! Subcommand group 1: the wait table's `ObjectHashMap` (the REAL one of waitlists.rs, `c09_realwait`)
//! against the abstract map Addr -> Option Val.
//!
//!   h_c09 hmap-gen <n>            n request lines derived only from VERIF_SEED
//!   h_c09 hmap-run [file]         two lines (`real …`, `abs …`) per request line; the real map lives in a
//!                                 child process (`hmap-worker`) so that a probe loop that never ends can be
//!                                 killed: an answer that takes longer than H_C09_HANG_MS (default 2000) = `!hang`
//!   h_c09 hmap-min <request line> delta debugging: drop ops while the failure class (hang / panic / real≠abs) stays
//!   h_c09 hmap-worker             (internal) one op per stdin line, one answer line per op
//!
//! request line:  `hmap <op> <op> …`   ops: `i<key>:<val>` `g<key>` `r<key>` `e` `R<a>:<b>`
//! keys are object addresses 16 + 8*x, x < 2^21.
use c09_realwait::gc::Address;
use c09_realwait::runtime::verif_install_runtime;
use c09_realwait::waitlists::VerifMap;
use hutil::Rng;
use std::collections::BTreeMap;
use std::io::{BufRead, BufReader, Write};
use std::process::{Child, ChildStdin, Command, Stdio};
use std::sync::mpsc::{channel, Receiver, RecvTimeoutError};
use std::sync::{Arc, Mutex};
use std::time::{Duration, Instant};

pub const XMOD: u64 = 1 << 21;

#[derive(Clone, Debug, PartialEq)]
pub enum Op {
    Ins(u64, u64),
    Get(u64),
    Rem(u64),
    Epoch,
    Reloc(u64, u64),
}

fn key_ok(k: u64) -> bool {
    k >= 16 && k % 8 == 0 && (k - 16) / 8 < XMOD
}

/// f(k) = 16 + 8*((((k-16)/8)*a + b) mod 2^21)
pub fn reloc_key(k: u64, a: u64, b: u64) -> u64 {
    let x = ((k - 16) / 8) as u128;
    16 + 8 * (((x * a as u128 + b as u128) % XMOD as u128) as u64)
}

impl Op {
    pub fn parse(s: &str) -> Option<Op> {
        if s == "e" {
            return Some(Op::Epoch);
        }
        if s.is_empty() || !s.is_char_boundary(1) {
            return None;
        }
        let (h, rest) = s.split_at(1);
        match h {
            "i" => {
                let (k, v) = rest.split_once(':')?;
                let k: u64 = k.parse().ok()?;
                if !key_ok(k) {
                    return None;
                }
                Some(Op::Ins(k, v.parse().ok()?))
            }
            "g" | "r" => {
                let k: u64 = rest.parse().ok()?;
                if !key_ok(k) {
                    return None;
                }
                Some(if h == "g" { Op::Get(k) } else { Op::Rem(k) })
            }
            "R" => {
                let (a, b) = rest.split_once(':')?;
                let a: u64 = a.parse().ok()?;
                if a % 2 == 0 {
                    return None;
                }
                Some(Op::Reloc(a, b.parse().ok()?))
            }
            _ => None,
        }
    }

    pub fn show(&self) -> String {
        match self {
            Op::Ins(k, v) => format!("i{}:{}", k, v),
            Op::Get(k) => format!("g{}", k),
            Op::Rem(k) => format!("r{}", k),
            Op::Epoch => "e".to_string(),
            Op::Reloc(a, b) => format!("R{}:{}", a, b),
        }
    }
}

pub fn parse_line(line: &str) -> Option<Vec<String>> {
    let mut it = line.split_whitespace();
    if it.next() != Some("hmap") {
        return None;
    }
    Some(it.map(|s| s.to_string()).collect())
}

// ------------------------------------------------------------------------------------------------
// worker: the real map

pub fn worker() {
    std::panic::set_hook(Box::new(|_| {}));
    let stdin = std::io::stdin();
    let stdout = std::io::stdout();
    let mut out = stdout.lock();
    let mut rt = verif_install_runtime(true);
    let mut map = VerifMap::new();
    let mut dead = false;
    for line in stdin.lock().lines() {
        let line = match line {
            Ok(l) => l,
            Err(_) => break,
        };
        let l = line.trim();
        if l == "reset" {
            // the old map is forgotten, not dropped, after a panic (it may be half-updated)
            let old = std::mem::replace(&mut map, VerifMap::new());
            if dead {
                std::mem::forget(old);
            }
            rt = verif_install_runtime(true);
            dead = false;
            writeln!(out, "ready").unwrap();
            out.flush().unwrap();
            continue;
        }
        if dead {
            continue;
        }
        if l == "sync" {
            writeln!(out, "end").unwrap();
            out.flush().unwrap();
            continue;
        }
        let ans = match Op::parse(l) {
            None => {
                dead = true;
                "!bad".to_string()
            }
            Some(op) => {
                let r = std::panic::catch_unwind(std::panic::AssertUnwindSafe(|| match &op {
                    Op::Ins(k, v) => {
                        map.insert(*k as usize, *v);
                        "ok".to_string()
                    }
                    Op::Get(k) => match map.get(*k as usize) {
                        Some(v) => format!("v{}", v),
                        None => "none".to_string(),
                    },
                    Op::Rem(k) => match map.remove(*k as usize) {
                        Some(v) => format!("v{}", v),
                        None => "none".to_string(),
                    },
                    Op::Epoch => {
                        rt.verif_bump_epoch();
                        "ok".to_string()
                    }
                    Op::Reloc(a, b) => {
                        // what a moving collector does with the wait table: every root slot (= key field of a
                        // live entry) is read and overwritten in place with the object's new address
                        map.visit_roots(|slot| {
                            let old = slot.get().to_usize() as u64;
                            slot.relocate(Address::from(reloc_key(old, *a, *b) as usize));
                        });
                        rt.verif_bump_epoch();
                        "ok".to_string()
                    }
                }));
                match r {
                    Ok(res) => {
                        let (c, e, t, d) = map.summary();
                        format!("{}/{},{},{},{}", res, c, e, t, d)
                    }
                    Err(_) => {
                        dead = true;
                        "!panic".to_string()
                    }
                }
            }
        };
        writeln!(out, "{}", ans).unwrap();
        out.flush().unwrap();
    }
}

// ------------------------------------------------------------------------------------------------
// parent side: worker process with a watchdog

/// lines the worker has answered so far + when the last one arrived (filled by the reader thread)
struct Inbox {
    lines: Vec<String>,
    last: Instant,
}

struct Proc {
    child: Child,
    stdin: ChildStdin,
    inbox: Arc<Mutex<Inbox>>,
    /// the reader thread signals `ready`, `end`, `!…` lines and the end of the stream
    rx: Receiver<()>,
}

pub struct Real {
    proc_: Option<Proc>,
    pub timeout: Duration,
    pub respawns: usize,
}

fn hang_ms() -> u64 {
    std::env::var("H_C09_HANG_MS").ok().and_then(|v| v.parse().ok()).unwrap_or(2000)
}

enum Got {
    /// the marker line (`ready` / `end`) arrived; answers before it
    Done(Vec<String>),
    /// an answer starting with `!` arrived (it is the last element)
    Stopped(Vec<String>),
    /// nothing new for `timeout`; answers so far
    Silent(Vec<String>),
    /// worker gone; answers so far
    Gone(Vec<String>),
}

impl Proc {
    /// Wait until the worker has said `marker`, or stopped, or has been silent for `timeout`.
    /// The worker flushes every answer, the reader thread collects them; this thread only wakes up for
    /// markers and every 50 ms (cheap when the machine is busy: no per-op hand-over between three threads).
    fn collect(&mut self, marker: &str, timeout: Duration) -> Got {
        let mut gone = false;
        loop {
            let sig = self.rx.recv_timeout(Duration::from_millis(50));
            let mut ib = self.inbox.lock().unwrap();
            if let Some(pos) = ib.lines.iter().position(|l| l == marker || l.starts_with('!')) {
                let rest = ib.lines.split_off(pos + 1);
                let mut got = std::mem::replace(&mut ib.lines, rest);
                if got[pos] == marker {
                    got.pop();
                    return Got::Done(got);
                }
                return Got::Stopped(got);
            }
            if gone {
                return Got::Gone(std::mem::take(&mut ib.lines));
            }
            match sig {
                Err(RecvTimeoutError::Disconnected) => gone = true, // look once more at what arrived
                _ => {
                    if ib.last.elapsed() >= timeout {
                        return Got::Silent(std::mem::take(&mut ib.lines));
                    }
                }
            }
        }
    }

    fn send(&mut self, txt: &str) -> bool {
        self.inbox.lock().unwrap().last = Instant::now();
        self.stdin.write_all(txt.as_bytes()).and_then(|_| self.stdin.flush()).is_ok()
    }
}

impl Real {
    pub fn new() -> Real {
        Real { proc_: None, timeout: Duration::from_millis(hang_ms()), respawns: 0 }
    }

    fn spawn() -> Proc {
        let exe = std::env::current_exe().expect("current_exe");
        let mut child = Command::new(exe)
            .arg("hmap-worker")
            .stdin(Stdio::piped())
            .stdout(Stdio::piped())
            .stderr(Stdio::null())
            .spawn()
            .expect("spawn hmap-worker");
        let stdin = child.stdin.take().unwrap();
        let stdout = child.stdout.take().unwrap();
        let inbox = Arc::new(Mutex::new(Inbox { lines: Vec::new(), last: Instant::now() }));
        let ib = inbox.clone();
        let (tx, rx) = channel();
        std::thread::spawn(move || {
            for l in BufReader::new(stdout).lines() {
                match l {
                    Ok(l) => {
                        let signal = l == "ready" || l == "end" || l.starts_with('!');
                        {
                            let mut g = ib.lock().unwrap();
                            g.lines.push(l);
                            g.last = Instant::now();
                        }
                        if signal && tx.send(()).is_err() {
                            break;
                        }
                    }
                    Err(_) => break,
                }
            }
        });
        Proc { child, stdin, inbox, rx }
    }

    fn kill(&mut self) {
        if let Some(mut p) = self.proc_.take() {
            let _ = p.child.kill();
            let _ = p.child.wait();
        }
    }

    fn fresh(&mut self) {
        for _ in 0..3 {
            if self.proc_.is_none() {
                self.proc_ = Some(Real::spawn());
                self.respawns += 1;
            }
            let p = self.proc_.as_mut().unwrap();
            // drop whatever an earlier, stopped sequence left behind, then reset
            p.inbox.lock().unwrap().lines.clear();
            if p.send("reset\n") {
                if let Got::Done(_) = p.collect("ready", Duration::from_secs(20)) {
                    return;
                }
            }
            self.kill();
        }
        panic!("hmap-worker does not start");
    }

    /// Answers of the real map, one per op executed; the last one may be `!panic`, `!hang`, `!bad`.
    pub fn run(&mut self, ops: &[String]) -> Vec<String> {
        let mut out = Vec::with_capacity(ops.len());
        self.fresh();
        for chunk in ops.chunks(512) {
            let mut buf = String::new();
            for o in chunk {
                buf.push_str(o);
                buf.push('\n');
            }
            buf.push_str("sync\n");
            let timeout = self.timeout;
            let p = self.proc_.as_mut().unwrap();
            if !p.send(&buf) {
                out.push("!panic".to_string());
                self.kill();
                return out;
            }
            match p.collect("end", timeout) {
                Got::Done(v) => out.extend(v),
                Got::Stopped(v) => {
                    out.extend(v);
                    return out;
                }
                Got::Silent(v) => {
                    // the op after the last answer has not returned for `timeout`
                    out.extend(v);
                    out.push("!hang".to_string());
                    self.kill();
                    return out;
                }
                Got::Gone(v) => {
                    // the worker died (abort, stack overflow, …): report like a panic
                    out.extend(v);
                    out.push("!panic".to_string());
                    self.kill();
                    return out;
                }
            }
        }
        out
    }
}

impl Drop for Real {
    fn drop(&mut self) {
        self.kill();
    }
}

/// The abstract map: Addr -> Option Val.
pub fn run_abs(ops: &[String]) -> Vec<String> {
    let mut m: BTreeMap<u64, u64> = BTreeMap::new();
    let mut out = Vec::with_capacity(ops.len());
    for o in ops {
        match Op::parse(o) {
            None => {
                out.push("!bad".to_string());
                break;
            }
            Some(Op::Ins(k, v)) => {
                m.insert(k, v);
                out.push("ok".to_string());
            }
            Some(Op::Get(k)) => out.push(match m.get(&k) {
                Some(v) => format!("v{}", v),
                None => "none".to_string(),
            }),
            Some(Op::Rem(k)) => out.push(match m.remove(&k) {
                Some(v) => format!("v{}", v),
                None => "none".to_string(),
            }),
            Some(Op::Epoch) => out.push("ok".to_string()),
            Some(Op::Reloc(a, b)) => {
                m = m.iter().map(|(k, v)| (reloc_key(*k, a, b), *v)).collect();
                out.push("ok".to_string());
            }
        }
    }
    out
}

pub fn run_file(path: Option<&str>) {
    let input: Box<dyn BufRead> = match path {
        Some(p) => Box::new(BufReader::new(std::fs::File::open(p).expect("open request file"))),
        None => Box::new(BufReader::new(std::io::stdin())),
    };
    let stdout = std::io::stdout();
    let mut out = std::io::BufWriter::new(stdout.lock());
    let mut real = Real::new();
    for line in input.lines() {
        let line = line.expect("read line");
        let l = line.trim();
        if l.is_empty() || l.starts_with('#') {
            continue;
        }
        match parse_line(l) {
            None => {
                writeln!(out, "real !bad").unwrap();
                writeln!(out, "abs !bad").unwrap();
            }
            Some(ops) => {
                let r = real.run(&ops);
                let a = run_abs(&ops);
                writeln!(out, "real {}", r.join(" ")).unwrap();
                writeln!(out, "abs {}", a.join(" ")).unwrap();
            }
        }
    }
    out.flush().unwrap();
}

// ------------------------------------------------------------------------------------------------
// minimiser

#[derive(Clone, Copy, Debug, PartialEq)]
enum Class {
    Ok,
    Hang,
    Panic,
    Mismatch,
}

fn classify(real: &mut Real, ops: &[String]) -> (Class, usize) {
    let r = real.run(ops);
    let a = run_abs(ops);
    for (i, e) in r.iter().enumerate() {
        match e.as_str() {
            "!hang" => return (Class::Hang, i),
            "!panic" => return (Class::Panic, i),
            "!bad" => return (Class::Ok, i),
            _ => {}
        }
        let res = e.split('/').next().unwrap_or("");
        if a.get(i).map(|x| x.as_str()) != Some(res) {
            return (Class::Mismatch, i);
        }
    }
    (Class::Ok, r.len())
}

pub fn minimise(line: &str) {
    let ops = match parse_line(line) {
        Some(o) => o,
        None => {
            println!("{}", line);
            return;
        }
    };
    let mut real = Real::new();
    let full_timeout = real.timeout;
    // shrinking steps use a short watchdog (a normal op takes microseconds); the result is confirmed with the full one
    real.timeout = Duration::from_millis(hang_ms().min(300));
    let (class, at) = classify(&mut real, &ops);
    if class == Class::Ok {
        eprintln!("hmap-min: the request does not fail");
        println!("hmap {}", ops.join(" "));
        return;
    }
    // nothing after the failing op matters
    let mut cur: Vec<String> = ops[..=at.min(ops.len() - 1)].to_vec();
    let mut tests = 0usize;
    let mut fails = |real: &mut Real, cand: &[String]| -> bool {
        tests += 1;
        !cand.is_empty() && classify(real, cand).0 == class
    };
    // ddmin over complements
    let mut n = 2usize;
    while cur.len() >= 2 {
        let len = cur.len();
        let chunk = (len + n - 1) / n;
        let mut reduced = false;
        let mut start = 0;
        while start < len {
            let end = (start + chunk).min(len);
            let cand: Vec<String> = cur[..start].iter().chain(cur[end..].iter()).cloned().collect();
            if fails(&mut real, &cand) {
                cur = cand;
                n = (n - 1).max(2);
                reduced = true;
                break;
            }
            start = end;
        }
        if !reduced {
            if n >= len {
                break;
            }
            n = (n * 2).min(len);
        }
    }
    // single-op removal until a fixed point
    loop {
        let mut changed = false;
        let mut i = 0;
        while i < cur.len() && cur.len() > 1 {
            let mut cand = cur.clone();
            cand.remove(i);
            if fails(&mut real, &cand) {
                cur = cand;
                changed = true;
            } else {
                i += 1;
            }
        }
        if !changed {
            break;
        }
    }
    real.timeout = full_timeout;
    let (c2, _) = classify(&mut real, &cur);
    eprintln!("hmap-min: class {:?}, {} -> {} ops, {} tests, confirmed with the full watchdog: {}", class, ops.len(), cur.len(), tests, c2 == class);
    if c2 != class {
        // do not hand out something that does not fail under the real watchdog
        println!("hmap {}", ops.join(" "));
    } else {
        println!("hmap {}", cur.join(" "));
    }
}

// ------------------------------------------------------------------------------------------------
// generator

/// What the generator believes the table looks like (keys only).  Used ONLY to steer generation — to keep
/// the number of request lines that run into the tombstone hang (2 s each) small — never for a verdict.
struct Shadow {
    slots: Vec<u64>,
    entries: usize,
    cap: usize,
    epoch: usize,
    rt_epoch: usize,
}

#[derive(PartialEq, Debug)]
enum Pred {
    Fine,
    Hang,
    Panic,
}

fn cap_for(entries: usize) -> usize {
    let mut c = 8;
    while entries > c - c / 4 {
        c *= 2;
    }
    c
}

impl Shadow {
    fn new() -> Shadow {
        Shadow { slots: Vec::new(), entries: 0, cap: 0, epoch: 0, rt_epoch: 0 }
    }
    fn rehash(&mut self, newcap: usize) {
        let live: Vec<u64> = self.slots.iter().copied().filter(|&k| k > 1).collect();
        self.slots = vec![0; newcap];
        self.cap = newcap;
        self.entries = 0;
        self.epoch = self.rt_epoch;
        for k in live {
            let mut idx = (k as usize) & (newcap - 1);
            while self.slots[idx] != 0 {
                idx = (idx + 1) & (newcap - 1);
            }
            self.slots[idx] = k;
            self.entries += 1;
        }
    }
    fn probe(&self, k: u64) -> Result<Option<usize>, Pred> {
        // Ok(Some(idx)) found, Ok(None) hit an empty slot, Err(Hang) went round
        let mut idx = (k as usize) & (self.cap - 1);
        for _ in 0..self.cap {
            let s = self.slots[idx];
            if s == k {
                return Ok(Some(idx));
            }
            if s == 0 {
                return Ok(None);
            }
            idx = (idx + 1) & (self.cap - 1);
        }
        Err(Pred::Hang)
    }
    fn predict(&self, op: &Op) -> Pred {
        let mut s = Shadow { slots: self.slots.clone(), entries: self.entries, cap: self.cap, epoch: self.epoch, rt_epoch: self.rt_epoch };
        s.apply(op)
    }
    fn apply(&mut self, op: &Op) -> Pred {
        match op {
            Op::Epoch => {
                self.rt_epoch += 1;
                Pred::Fine
            }
            Op::Reloc(a, b) => {
                for k in self.slots.iter_mut() {
                    if *k > 1 {
                        *k = reloc_key(*k, *a, *b);
                    }
                }
                self.rt_epoch += 1;
                Pred::Fine
            }
            Op::Get(k) => {
                if self.entries == 0 {
                    return Pred::Fine;
                }
                if self.epoch != self.rt_epoch {
                    self.rehash(self.cap);
                }
                match self.probe(*k) {
                    Ok(_) => Pred::Fine,
                    Err(p) => p,
                }
            }
            Op::Ins(k, _) => {
                if self.epoch != self.rt_epoch || self.cap == 0 || self.entries + 1 > self.cap - self.cap / 4 {
                    self.rehash(cap_for(self.entries + 1));
                }
                match self.probe(*k) {
                    Ok(Some(_)) => Pred::Fine,
                    Ok(None) => {
                        // first tombstone on the probe path, else the empty slot
                        let mut idx = (*k as usize) & (self.cap - 1);
                        let mut ins = None;
                        loop {
                            let s = self.slots[idx];
                            if s == 1 && ins.is_none() {
                                ins = Some(idx);
                            }
                            if s == 0 {
                                break;
                            }
                            idx = (idx + 1) & (self.cap - 1);
                        }
                        let at = ins.unwrap_or(idx);
                        self.slots[at] = *k;
                        self.entries += 1;
                        Pred::Fine
                    }
                    Err(p) => p,
                }
            }
            Op::Rem(k) => {
                if self.epoch != self.rt_epoch || self.entries < self.cap / 4 {
                    self.rehash(cap_for(self.entries));
                }
                if self.cap == 0 {
                    return Pred::Panic;
                }
                match self.probe(*k) {
                    Ok(Some(idx)) => {
                        self.slots[idx] = 1;
                        self.entries -= 1;
                        Pred::Fine
                    }
                    Ok(None) => Pred::Fine,
                    Err(p) => p,
                }
            }
        }
    }
    fn live(&self) -> Vec<u64> {
        self.slots.iter().copied().filter(|&k| k > 1).collect()
    }
}

fn make_pool(r: &mut Rng) -> Vec<u64> {
    let size = r.range(8, 40) as usize;
    let mut pool: Vec<u64> = Vec::new();
    // residue structure: keys congruent modulo 16 << sh, so that they collide in small tables
    let sh = r.below(4); // spacing 16, 32, 64, 128
    let base = if r.chance(1, 3) { 16 + 16 * r.below(1 << 12) } else { 16 };
    let mut j = 0u64;
    while pool.len() < size {
        let mut k = if r.chance(1, 12) {
            16 + 8 * r.below(XMOD) // anywhere in the domain
        } else {
            base + ((16 * j) << sh)
        };
        j += 1;
        if r.chance(1, 6) && k % 16 == 0 {
            k += 8; // some keys ≡ 8 mod 16
        }
        if key_ok(k) && !pool.contains(&k) {
            pool.push(k);
        }
    }
    pool
}

/// the family: N keys of one residue class, remove some, keys of another class (as many as fit without
/// triggering a rebuild, or fewer), then an absent key
fn family_line(r: &mut Rng, n: usize) -> Vec<Op> {
    let mut ops = Vec::new();
    let mut sh = Shadow::new();
    let s1 = 1u64 << r.below(3);
    let s2 = 1u64 << r.below(3);
    let a: Vec<u64> = (0..n as u64).map(|i| 16 + 16 * s1 * i).collect();
    for (i, k) in a.iter().enumerate() {
        ops.push(Op::Ins(*k, i as u64 + 1));
    }
    let quarter = cap_for(n) / 4; // that many tombstones and the table can fill up without a rebuild
    let nrem = if r.chance(1, 2) && n >= quarter { quarter + r.below((n - quarter) as u64 + 1) as usize } else { 1 + r.below((n as u64 * 2 / 3).max(1)) as usize };
    let mut removed = Vec::new();
    let start = r.below(n as u64) as usize;
    let step = if r.chance(1, 2) { 1 } else { 2 };
    for i in 0..nrem {
        let k = a[(start + i * step) % n];
        if !removed.contains(&k) {
            removed.push(k);
            ops.push(Op::Rem(k));
        }
    }
    for o in &ops {
        sh.apply(o);
    }
    // second class: up to the point where one more insertion would rebuild the table
    let room = (sh.cap - sh.cap / 4).saturating_sub(sh.entries) as u64;
    let m = if r.chance(2, 3) { room } else { r.below(room + 3) };
    let tomb = |sh: &Shadow| sh.slots.iter().filter(|&&k| k == 1).count();
    let avoid_reuse = r.chance(3, 4);
    let mut i = 0u64;
    let mut done = 0u64;
    while done < m && i < 400 {
        let op = Op::Ins(24 + 16 * s2 * i, 100 + i);
        i += 1;
        if sh.predict(&op) != Pred::Fine {
            // even an insertion can spin (no empty slot left and the key is new): end the line with it
            ops.push(op);
            return ops;
        }
        if avoid_reuse && i < 300 {
            // prefer keys that land in an empty slot, so that the tombstones stay
            let mut t = Shadow { slots: sh.slots.clone(), entries: sh.entries, cap: sh.cap, epoch: sh.epoch, rt_epoch: sh.rt_epoch };
            t.apply(&op);
            if tomb(&t) < tomb(&sh) {
                continue;
            }
        }
        sh.apply(&op);
        ops.push(op);
        done += 1;
    }
    let absent = 16 + 16 * (4 * n as u64 + 200 + r.below(50)) + if r.chance(1, 2) { 8 } else { 0 };
    ops.push(if r.chance(2, 3) { Op::Get(absent) } else { Op::Rem(absent) });
    ops
}

/// Probe-chain family: L keys with the same home slot (for every capacity up to 64) form one probe chain;
/// a MIDDLE entry is removed, then the entry BEFORE it (so that a tombstone is followed by a tombstone, and
/// the slot behind both is still live), then every key behind both is looked up, an absent key of the same
/// class is looked up / removed, a new key of the class is inserted (it must reuse the first tombstone) and
/// everything is looked up again.  Variants: removal order, optional fillers of another residue class (table at
/// capacity 16), re-insertion of the removed middle key, an epoch bump / moving collection at the end.
/// Generated in every run (see `gen`), so that a change of the tombstone discipline of `remove`/`insert`
/// is seen by the per-operation comparison, not only by luck.
fn chain_line(r: &mut Rng, variant: usize) -> Vec<Op> {
    let mut ops = Vec::new();
    let l = 4 + (variant % 3);                       // chain length 4..6
    let with_fillers = (variant / 3) % 2 == 1;
    let order = (variant / 6) % 3;                   // 0: middle then before, 1: middle then after, 2: before then middle
    let tail = (variant / 18) % 4;                   // 0: nothing, 1: epoch, 2: moving collection, 3: re-insert middle
    let base = 16 + 64 * r.below(8);
    let mut used: Vec<u64> = Vec::new();
    let mut chain: Vec<u64> = Vec::new();
    while chain.len() < l {
        let k = base + 64 * r.below(200);             // all ≡ base (mod 64): same home for capacity ≤ 64
        if !used.contains(&k) {
            used.push(k);
            chain.push(k);
        }
    }
    let fillers: Vec<u64> = if with_fillers { (0..(3 + r.below(3))).map(|i| 24 + 16 * (i * 4 + 1)).collect() } else { Vec::new() };
    let mut val = 1u64;
    let fill_first = r.chance(1, 2);
    if fill_first {
        for &k in &fillers {
            ops.push(Op::Ins(k, val));
            val += 1;
        }
    }
    for &k in &chain {
        ops.push(Op::Ins(k, val));
        val += 1;
    }
    if !fill_first {
        for &k in &fillers {
            ops.push(Op::Ins(k, val));
            val += 1;
        }
    }
    let mid = 1 + r.below((l - 2) as u64) as usize;   // 1 ..= l-2
    let (first, second) = match order {
        0 => (mid, mid - 1),
        1 => (mid, mid + 1),
        _ => (mid - 1, mid),
    };
    ops.push(Op::Rem(chain[first]));
    ops.push(Op::Get(chain[l - 1]));
    ops.push(Op::Rem(chain[second]));
    // everything that is still there, behind and before the two holes
    for (i, &k) in chain.iter().enumerate() {
        if i != first && i != second {
            ops.push(Op::Get(k));
        }
    }
    ops.push(Op::Get(chain[first]));
    let mut absent = base + 64 * (300 + r.below(50));
    ops.push(if r.chance(1, 2) { Op::Get(absent) } else { Op::Rem(absent) });
    absent += 64;
    // a new key of the class reuses the first tombstone; the chain must stay intact
    ops.push(Op::Ins(absent, val));
    val += 1;
    for &k in &chain {
        ops.push(Op::Get(k));
    }
    ops.push(Op::Get(absent));
    // remove the last of the chain (nothing live behind it), look up the rest
    ops.push(Op::Rem(chain[l - 1]));
    for &k in chain.iter().take(l - 1) {
        ops.push(Op::Get(k));
    }
    match tail {
        1 => ops.push(Op::Epoch),
        2 => ops.push(Op::Reloc(2 * r.below(1000) + 1, r.below(100000))),
        3 => {
            ops.push(Op::Ins(chain[first], val));
        }
        _ => {}
    }
    if tail == 1 || tail == 3 {
        for &k in &chain {
            ops.push(Op::Get(k));
        }
    }
    ops.push(Op::Get(base + 64 * 400));
    ops
}

fn random_line(r: &mut Rng, may_hang: bool, may_panic: bool) -> Vec<Op> {
    let mut pool = make_pool(r);
    let mut sh = Shadow::new();
    let mut ops: Vec<Op> = Vec::new();
    let target_len = match r.below(4) {
        0 => r.range(5, 20),
        1 => r.range(20, 60),
        _ => r.range(50, 120),
    } as usize;
    let mut val = 1u64;
    if may_panic {
        // `remove` on the never-used table (capacity 0): `hash & (0 - 1)`
        if r.chance(1, 2) {
            ops.push(Op::Get(pool[0]));
            sh.apply(&Op::Get(pool[0]));
        }
        ops.push(Op::Rem(pool[0]));
        return ops;
    }
    // phases: 0 grow, 1 shrink, 2 churn
    let mut phase = 0u64;
    let mut goal = r.range(3, pool.len() as i64) as usize;
    while ops.len() < target_len {
        let live = sh.live();
        let absent: Vec<u64> = pool.iter().copied().filter(|k| !live.contains(k)).collect();
        // phase switches
        match phase {
            0 if live.len() >= goal || absent.is_empty() => {
                phase = 1 + r.below(2);
                goal = r.below(live.len() as u64 / 2 + 1) as usize;
            }
            1 if live.len() <= goal => {
                phase = if r.chance(1, 2) { 0 } else { 2 };
                goal = r.range(live.len() as i64, pool.len() as i64) as usize;
            }
            2 if r.chance(1, 12) => {
                phase = r.below(2);
                goal = if phase == 0 { r.range(live.len() as i64, pool.len() as i64) as usize } else { r.below(live.len() as u64 + 1) as usize };
            }
            _ => {}
        }
        let mut roll = r.below(100);
        if may_hang && ops.len() > target_len / 4 {
            // no rebuilds any more, stay at a stable size: tombstones pile up
            if roll < 8 {
                roll += 40;
            }
            phase = 2;
        }
        let pick = |r: &mut Rng, v: &[u64]| v[r.below(v.len() as u64) as usize];
        let mut op = if roll < 4 {
            Op::Epoch
        } else if roll < 8 {
            Op::Reloc(2 * r.below(XMOD / 2) + 1, r.below(XMOD))
        } else {
            let mut want_insert = match phase {
                0 => roll < 75,
                1 => roll < 20,
                _ => roll < 48,
            };
            let mut want_remove = match phase {
                0 => roll >= 75 && roll < 82,
                1 => roll >= 20 && roll < 80,
                _ => roll >= 48 && roll < 82,
            };
            if may_hang && sh.cap > 0 && ops.len() > target_len / 4 {
                // stay inside the band in which neither insert nor remove rebuilds the table
                if sh.entries + 2 > sh.cap - sh.cap / 4 {
                    want_insert = false;
                    want_remove = roll < 90;
                } else if sh.entries <= sh.cap / 4 + 1 {
                    want_insert = roll < 90;
                    want_remove = false;
                }
            }
            if want_insert {
                if !absent.is_empty() && !r.chance(1, 6) {
                    let mut k = pick(r, &absent);
                    if may_hang {
                        // prefer a key that lands in an empty slot (tombstones stay, empty slots get used up)
                        let tomb = |sh: &Shadow| sh.slots.iter().filter(|&&k| k == 1).count();
                        for _ in 0..8 {
                            let mut t = Shadow { slots: sh.slots.clone(), entries: sh.entries, cap: sh.cap, epoch: sh.epoch, rt_epoch: sh.rt_epoch };
                            if t.apply(&Op::Ins(k, val)) != Pred::Fine || tomb(&t) >= tomb(&sh) {
                                break;
                            }
                            k = pick(r, &absent);
                        }
                    }
                    Op::Ins(k, val)
                } else if !live.is_empty() {
                    Op::Ins(pick(r, &live), val) // value update of a present key
                } else {
                    Op::Ins(pick(r, &pool), val)
                }
            } else if want_remove {
                if !live.is_empty() && !r.chance(1, 10) {
                    Op::Rem(pick(r, &live))
                } else if !absent.is_empty() {
                    Op::Rem(pick(r, &absent)) // absent key
                } else {
                    Op::Rem(pick(r, &pool))
                }
            } else if !live.is_empty() && !r.chance(1, 8) {
                Op::Get(pick(r, &live))
            } else if !absent.is_empty() {
                Op::Get(pick(r, &absent)) // absent key
            } else {
                Op::Get(pick(r, &pool))
            }
        };
        val += 1;
        match sh.predict(&op) {
            Pred::Fine => {}
            Pred::Panic => {
                // only on purpose (may_panic lines)
                op = Op::Ins(pick(r, &pool), val);
                if sh.predict(&op) != Pred::Fine {
                    op = Op::Epoch;
                }
            }
            Pred::Hang => {
                if may_hang && ops.len() + 1 >= target_len / 2 {
                    ops.push(op);
                    return ops;
                }
                // steer away: an epoch bump makes the next operation rebuild the table
                op = if !live.is_empty() && r.chance(1, 2) { Op::Get(pick(r, &live)) } else { Op::Epoch };
                if sh.predict(&op) != Pred::Fine {
                    op = Op::Epoch;
                }
            }
        }
        if let Op::Reloc(a, b) = &op {
            for k in pool.iter_mut() {
                *k = reloc_key(*k, *a, *b);
            }
        }
        sh.apply(&op);
        ops.push(op);
    }
    ops
}

pub fn gen(n: usize) {
    let mut r = Rng::from_env();
    let stdout = std::io::stdout();
    let mut out = std::io::BufWriter::new(stdout.lock());
    for i in 0..n {
        // a few lines may run into the known tombstone hang (each costs one watchdog period in hmap-run)
        let ops = if i % 25 == 3 {
            chain_line(&mut r, i / 25)
        } else if i % 100 == 7 {
            family_line(&mut r, 4 + (i / 100) % 21)
        } else if i % 200 == 31 {
            random_line(&mut r, true, false)
        } else if i % 211 == 101 {
            random_line(&mut r, false, true)
        } else {
            random_line(&mut r, false, false)
        };
        let txt: Vec<String> = ops.iter().map(|o| o.show()).collect();
        writeln!(out, "hmap {}", txt.join(" ")).unwrap();
    }
    out.flush().unwrap();
}
