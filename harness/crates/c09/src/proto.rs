//! Subcommand group 2: mutex / condition / join protocol, one interleaving at a time.
//!
//! A Rust TRANSLITERATION of pkgs/std/thread.dora (`Mutex::{lock_op, lock_slow, transition_to_locked_contended,
//! unlock_op, unlock_slow}`, `Condition::{wait, notify_one, notify_all}`; every line carries the thread.dora
//! line it stands for) drives the REAL `WaitLists::{block, enqueue, wakeup, wakeup_all, visit_roots}` and the
//! REAL `DoraThread::{block, join, stop}` (c09_realwait = waitlists.rs + threads.rs of /repo, unmodified)
//! exactly the way the natives in dora-runtime/src/stdlib.rs do, under the scheduler of verif_sync_shim.
//!
//!   h_c09 run <quick|thorough> <outdir> [corpus-file]
//!   h_c09 replay <scenario> <spurious budget> <choice list|->
//!
//! scenario:  [reloc:]<n>/<script0>/…/<script n-1>     script = ops separated by `.` (`-` = empty)
//!   k      lock_op; cs-enter; yield; cs-exit; unlock_op
//!   w<f>   lock_op; while flag[f] == 0 { Condition::wait(mtx) }; unlock_op
//!   s<f>   lock_op; flag[f] = 1; notify_all; unlock_op          S<f>  lock_op; flag[f] = 1; unlock_op; notify_all
//!   o<f>   lock_op; flag[f] = 1; notify_one; unlock_op
//!   n / N  bare notify_one / notify_all                          j<u>  join worker u
//!   L / U  lock_op only / unlock_op only                         g     (reloc only) moving collection, see `collect`
//!   every worker ends with `stop` (DoraThread::stop, as at the end of `thread_main`).
use c09_realwait::gc::Address;
use c09_realwait::handle::Handle;
use c09_realwait::mirror::Ref;
use c09_realwait::runtime::{get_runtime, verif_install_runtime, Runtime};
use c09_realwait::threads::{current_thread, deinit_current_thread, init_current_thread, DoraThread};
use c09_realwait::waitlists::{ManagedCondition, ManagedMutex};
use c09_realwait::ThreadState;
use hutil::Rng;
use std::collections::{BTreeMap, HashMap, HashSet};
use std::io::Write;
use std::sync::atomic::{AtomicBool, AtomicI64, AtomicU8, AtomicUsize, Ordering as O};
use std::sync::{Arc, Mutex as StdMutex};
use verif_sync_shim as shim;
use verif_sync_shim::explore::{Pct, Replay, Uniform};
use verif_sync_shim::Ordering::SeqCst;
use verif_sync_shim::{Chooser, Config, Event, Obj, RunResult, Status};

// ------------------------------------------------------------------------------------------------
// scenarios

#[derive(Clone, Debug, PartialEq)]
pub enum Act {
    Crit,
    WaitFlag(usize),
    SetAll(usize),
    SetAllAfter(usize),
    SetOne(usize),
    BareOne,
    BareAll,
    Join(usize),
    Gc,
    LockOnly,
    UnlockOnly,
}

#[derive(Clone, Debug)]
pub struct Scenario {
    pub reloc: bool,
    pub n: usize,
    pub scripts: Vec<Vec<Act>>,
}

impl Scenario {
    pub fn parse(s: &str) -> Result<Scenario, String> {
        let (reloc, body) = match s.strip_prefix("reloc:") {
            Some(b) => (true, b),
            None => (false, s),
        };
        let p: Vec<&str> = body.split('/').collect();
        let n: usize = p[0].parse().map_err(|_| "scenario: [reloc:]n/script/…".to_string())?;
        if n < 1 || n > 6 || p.len() != n + 1 {
            return Err(format!("scenario: {} scripts expected", n));
        }
        let mut scripts = Vec::new();
        for t in 0..n {
            let mut sc = Vec::new();
            for a in p[1 + t].split('.') {
                if a.is_empty() || a == "-" {
                    continue;
                }
                let arg = || -> Result<usize, String> { a[1..].parse().map_err(|_| format!("op {}", a)) };
                sc.push(match &a[..1] {
                    "k" if a.len() == 1 => Act::Crit,
                    "n" if a.len() == 1 => Act::BareOne,
                    "N" if a.len() == 1 => Act::BareAll,
                    "g" if a.len() == 1 && reloc => Act::Gc,
                    "L" if a.len() == 1 => Act::LockOnly,
                    "U" if a.len() == 1 => Act::UnlockOnly,
                    "w" => Act::WaitFlag(arg()?),
                    "s" => Act::SetAll(arg()?),
                    "S" => Act::SetAllAfter(arg()?),
                    "o" => Act::SetOne(arg()?),
                    "j" => Act::Join(arg()?),
                    _ => return Err(format!("op {}", a)),
                });
            }
            for a in &sc {
                match a {
                    Act::WaitFlag(f) | Act::SetAll(f) | Act::SetAllAfter(f) | Act::SetOne(f) if *f > 3 => return Err("flag > 3".into()),
                    Act::Join(u) if *u >= n || *u == t => return Err("join target".into()),
                    _ => {}
                }
            }
            scripts.push(sc);
        }
        Ok(Scenario { reloc, n, scripts })
    }

    pub fn show(&self) -> String {
        let mut s = String::new();
        if self.reloc {
            s.push_str("reloc:");
        }
        s.push_str(&self.n.to_string());
        for sc in &self.scripts {
            s.push('/');
            if sc.is_empty() {
                s.push('-');
            }
            let v: Vec<String> = sc
                .iter()
                .map(|a| match a {
                    Act::Crit => "k".to_string(),
                    Act::WaitFlag(f) => format!("w{}", f),
                    Act::SetAll(f) => format!("s{}", f),
                    Act::SetAllAfter(f) => format!("S{}", f),
                    Act::SetOne(f) => format!("o{}", f),
                    Act::BareOne => "n".to_string(),
                    Act::BareAll => "N".to_string(),
                    Act::Join(u) => format!("j{}", u),
                    Act::Gc => "g".to_string(),
                    Act::LockOnly => "L".to_string(),
                    Act::UnlockOnly => "U".to_string(),
                })
                .collect();
            s.push_str(&v.join("."));
        }
        s
    }
}

// ------------------------------------------------------------------------------------------------
// the world of one run

const UNLOCKED: i32 = 0; // thread.dora:71
const LOCKED: i32 = 1; // thread.dora:72
const LOCKED_CONTENDED: i32 = 2; // thread.dora:73

// names of marks (`shim::mark` takes `Obj::User(k)`)
const M_LOCK: u32 = 0;
const M_UNLOCK: u32 = 1;
const M_CWAIT: u32 = 2;
const M_N1: u32 = 3;
const M_NALL: u32 = 4;
const M_JOIN: u32 = 5;
const M_STOP: u32 = 6;
const M_GC: u32 = 7;
const M_IN: u32 = 8;
const M_OUT: u32 = 9;
const MARK_NAMES: [&str; 10] = ["lock", "unlock", "cwait", "n1", "nall", "join", "stop", "gc", "in", "out"];

fn call(name: u32, arg: Option<u64>) {
    shim::mark("call", Obj::User(name), arg, None);
}
fn ret(name: u32) {
    shim::mark("ret", Obj::User(name), None, None);
}

/// H_C09_MUTATE: deliberately wrong harness behaviour, to see the oracle fire (never set by the check).
fn mutation() -> &'static str {
    static M: std::sync::OnceLock<String> = std::sync::OnceLock::new();
    M.get_or_init(|| std::env::var("H_C09_MUTATE").unwrap_or_default()).as_str()
}

/// One page, page-aligned, reused by every run: the "heap" in which the mutex and the condition object
/// live (fixed offsets, so that the low address bits — the table's hash — are the same in every run).
fn arena() -> usize {
    static A: std::sync::OnceLock<usize> = std::sync::OnceLock::new();
    *A.get_or_init(|| unsafe { std::alloc::alloc_zeroed(std::alloc::Layout::from_size_align(8192, 4096).unwrap()) as usize })
}

/// Oracle state and Dora-level plain fields: std atomics, invisible to the scheduler.
pub struct Shared {
    n: usize,
    violations: StdMutex<Vec<(String, String)>>,
    holders: AtomicUsize,
    owner_thread_id: AtomicI64, // Mutex.owner_thread_id (thread.dora:77) — a plain field
    flags: [AtomicU8; 4],
    stop_begun: Vec<AtomicBool>,
    stop_done: Vec<AtomicBool>,
    gcs: AtomicUsize,
    gcs_skipped: AtomicUsize,
    /// collections that found at least one key in the wait table (somebody was queued)
    gcs_with_roots: AtomicUsize,
    roles: StdMutex<HashMap<Obj, String>>,
    ids_w_cw: StdMutex<(u32, u32)>,
    final_queue: StdMutex<Option<(usize, Vec<(bool, bool)>)>>,
}

impl Shared {
    fn violation(&self, key: &str, text: String) {
        self.violations.lock().unwrap().push((key.to_string(), text));
    }
}

struct World {
    rt: &'static Runtime,
    mtx: Handle<ManagedMutex>,
    cond: Handle<ManagedCondition>,
    /// the two handle slots (what `Handle` points to)
    _slots: Box<(Ref<ManagedMutex>, Ref<ManagedCondition>)>,
    threads: Vec<Arc<DoraThread>>,
    sh: Arc<Shared>,
}

unsafe impl Send for World {}
unsafe impl Sync for World {}

/// Dora's `AtomicInt32::compare_exchange(expected, value)` returns the PREVIOUS value.
fn cmpxchg(a: &shim::AtomicI32, expected: i32, value: i32) -> i32 {
    match a.compare_exchange(expected, value, SeqCst, SeqCst) {
        Ok(x) | Err(x) => x,
    }
}

thread_local! {
    /// `Thread::current().id()` of the Dora level: the id field of the managed Thread object (worker index + 1).
    /// (Not `DoraThread::id()`: under the shim that would be an extra atomic load the Dora code does not do.)
    static ME: std::cell::Cell<i64> = const { std::cell::Cell::new(0) };
}

impl World {
    fn me(&self) -> i64 {
        ME.with(|m| m.get())
    }

    fn dora_assert(&self, cond: bool, key: &str, text: &str) {
        if !cond {
            self.sh.violation(key, format!("worker {}: Dora assert failed: {}", self.me() - 1, text));
        }
    }

    // ---- class Mutex (thread.dora:75-144) ----

    fn lock_op(&self, marked: bool) {
        if marked {
            call(M_LOCK, None);
        }
        let previous = cmpxchg(self.mtx.verif_state(), UNLOCKED, LOCKED); // :93
        if previous != UNLOCKED {
            // :95
            self.dora_assert(previous == LOCKED || previous == LOCKED_CONTENDED, "oracle:dora-assert-L96", "previous == LOCKED || previous == LOCKED_CONTENDED"); // :96
            self.lock_slow(); // :97
        }
        // oracle: mutual exclusion of everything between lock_op and unlock_op
        if self.sh.holders.fetch_add(1, O::SeqCst) != 0 {
            self.sh.violation("oracle:mutual-exclusion", format!("worker {} acquired the mutex while another worker holds it", self.me() - 1));
        }
        self.dora_assert(self.sh.owner_thread_id.load(O::SeqCst) == 0, "oracle:owner-assert", "lock_op: self.owner_thread_id == 0"); // :100
        self.sh.owner_thread_id.store(self.me(), O::SeqCst); // :101
        if marked {
            ret(M_LOCK);
        }
    }

    fn lock_slow(&self) {
        let mut locked = false; // :105
        while !locked {
            // :107
            if self.transition_to_locked_contended() {
                // :108
                // :109 self.wait(LOCKED_CONTENDED) = native mutex_wait: `rt.wait_lists.block(mutex, value)`
                let rt = get_runtime();
                rt.wait_lists.block(self.mtx, LOCKED_CONTENDED);
            }
            let previous = cmpxchg(self.mtx.verif_state(), UNLOCKED, LOCKED_CONTENDED); // :114
            locked = previous == UNLOCKED; // :115
        }
    }

    fn transition_to_locked_contended(&self) -> bool {
        cmpxchg(self.mtx.verif_state(), LOCKED, LOCKED_CONTENDED) != UNLOCKED // :120
    }

    fn unlock_op(&self, marked: bool) {
        if marked {
            call(M_UNLOCK, None);
        }
        self.dora_assert(self.sh.owner_thread_id.load(O::SeqCst) == self.me(), "oracle:owner-assert", "unlock_op: self.owner_thread_id == Thread::current().id()"); // :124
        self.sh.owner_thread_id.store(0, O::SeqCst); // :125
        self.sh.holders.fetch_sub(1, O::SeqCst); // oracle
        let previous = self.mtx.verif_state().swap(UNLOCKED, SeqCst); // :127
        if previous != LOCKED {
            // :129
            self.unlock_slow(previous); // :130
        }
        if marked {
            ret(M_UNLOCK);
        }
    }

    fn unlock_slow(&self, previous: i32) {
        self.dora_assert(previous == LOCKED_CONTENDED, "oracle:dora-assert-L135", "unlock_slow: previous == LOCKED_CONTENDED"); // :135
        // :136 self.notify() = native mutex_notify: `rt.wait_lists.wakeup(mutex.direct_ptr())`
        let rt = get_runtime();
        rt.wait_lists.wakeup(self.mtx.direct_ptr());
    }

    // ---- class Condition (thread.dora:146-190) ----

    fn cond_wait(&self) {
        call(M_CWAIT, None);
        {
            // :156 self.enqueue() = native condition_enqueue: `rt.wait_lists.enqueue(cond)`
            let rt = get_runtime();
            rt.wait_lists.enqueue(self.cond);
        }
        self.unlock_op(false); // :157
        {
            // :158 self.block() = native condition_block_after_enqueue: `current_thread().block()`
            let thread = current_thread();
            thread.block();
        }
        self.lock_op(false); // :159
        ret(M_CWAIT);
    }

    fn notify_one(&self) {
        call(M_N1, None);
        if self.cond.verif_state().load(SeqCst) == 0 {
            // :163
            ret(M_N1);
            return; // :164
        }
        {
            // :167 self.wakeup_one() = native condition_wakeup_one: `rt.wait_lists.wakeup(cond.direct_ptr())`
            let rt = get_runtime();
            rt.wait_lists.wakeup(self.cond.direct_ptr());
        }
        ret(M_N1);
    }

    fn notify_all(&self) {
        call(M_NALL, None);
        if self.cond.verif_state().load(SeqCst) == 0 {
            // :171
            ret(M_NALL);
            return; // :172
        }
        self.cond.verif_state().store(0, SeqCst); // :175
        {
            // :176 self.wakeup_all() = native condition_wakeup_all: `rt.wait_lists.wakeup_all(cond.direct_ptr())`
            let rt = get_runtime();
            rt.wait_lists.wakeup_all(self.cond.direct_ptr());
        }
        ret(M_NALL);
    }

    // ---- Thread#join / end of thread_main ----

    fn join(&self, u: usize) {
        call(M_JOIN, Some(u as u64));
        // native join_thread: `managed_thread.native_thread().join()`
        let native_thread: &DoraThread = &self.threads[u];
        native_thread.join();
        if !self.sh.stop_begun[u].load(O::SeqCst) {
            self.sh.violation("oracle:join-before-stop", format!("worker {}: join({}) returned before worker {} began to stop", self.me() - 1, u, u));
        }
        ret(M_JOIN);
    }

    fn stop(&self, t: usize) {
        call(M_STOP, None);
        self.sh.stop_begun[t].store(true, O::SeqCst);
        // end of thread_main: `thread.stop()`
        let thread = current_thread();
        thread.stop();
        self.sh.stop_done[t].store(true, O::SeqCst);
        ret(M_STOP);
    }

    // ---- simulated moving collection ----

    /// Wait (bounded) until every other unfinished worker is parked (`tld.state == Parked`: it sits in
    /// `DoraThread::block()` or `join()`), then do what a stop-the-world moving collection does with the two
    /// objects: copy them to fresh 16-aligned addresses, update every root (the two handle slots and — through
    /// the REAL `WaitLists::visit_roots` — the key fields of the wait table), bump the epoch.
    fn collect(&self, t: usize) {
        let mut spins = 0;
        loop {
            let all_parked = (0..self.sh.n)
                .filter(|&u| u != t && !self.sh.stop_done[u].load(O::SeqCst))
                .all(|u| self.threads[u].verif_state_peek() == ThreadState::Parked as u8);
            if all_parked {
                break;
            }
            spins += 1;
            if spins > 24 {
                self.sh.gcs_skipped.fetch_add(1, O::SeqCst);
                return;
            }
            // while the collector waits for the others to park, the explorers do not hand it the token as long
            // as another thread can run (see `SpinAware`): resuming it would only make it look and yield again
            COLLECTOR_WAITS.store(t + 1, O::SeqCst);
            shim::yield_now();
            COLLECTOR_WAITS.store(0, O::SeqCst);
        }
        call(M_GC, None);
        let k = self.sh.gcs.fetch_add(1, O::SeqCst) + 1;
        let old_m = self.mtx.direct_ptr();
        let old_c = self.cond.direct_ptr();
        let new_m = Address::from(arena() + 0x400 + 0x40 * k);
        let new_c = Address::from(arena() + 0x410 + 0x40 * k);
        unsafe {
            // copy the objects (header + word), poison the old copies
            std::ptr::copy_nonoverlapping(old_m.to_ptr::<u8>(), new_m.to_mut_ptr::<u8>(), std::mem::size_of::<ManagedMutex>());
            std::ptr::copy_nonoverlapping(old_c.to_ptr::<u8>(), new_c.to_mut_ptr::<u8>(), std::mem::size_of::<ManagedCondition>());
            std::ptr::write_bytes(old_m.to_mut_ptr::<u8>(), 0xDD, std::mem::size_of::<ManagedMutex>());
            std::ptr::write_bytes(old_c.to_mut_ptr::<u8>(), 0xDD, std::mem::size_of::<ManagedCondition>());
            // roots 1: the handles
            *self.mtx.location().to_mut_ptr::<Address>() = new_m;
            *self.cond.location().to_mut_ptr::<Address>() = new_c;
        }
        // roots 2: the wait table (gc/root.rs: iterate_roots_from_wait_list)
        let sh = self.sh.clone();
        let mut roots = 0usize;
        if mutation() == "skip-roots" {
            // self-test of the oracle only (H_C09_MUTATE=skip-roots): a collector that forgets the wait table
            self.rt.verif_bump_epoch();
            ret(M_GC);
            return;
        }
        self.rt.wait_lists.visit_roots(|slot| {
            roots += 1;
            let old = slot.get();
            if old == old_m {
                slot.relocate(new_m);
            } else if old == old_c {
                slot.relocate(new_c);
            } else {
                sh.violation("oracle:unknown-root", "the wait table handed out a root that is neither the mutex nor the condition".to_string());
            }
        });
        if roots > 0 {
            self.sh.gcs_with_roots.fetch_add(1, O::SeqCst);
        }
        self.rt.verif_bump_epoch();
        ret(M_GC);
    }

    fn run_script(&self, t: usize, script: &[Act]) {
        let flag = |f: usize| &self.sh.flags[f];
        for a in script {
            match a {
                Act::Crit => {
                    self.lock_op(true);
                    shim::mark("cs", Obj::User(M_IN), None, None);
                    shim::yield_now();
                    shim::mark("cs", Obj::User(M_OUT), None, None);
                    self.unlock_op(true);
                }
                Act::WaitFlag(f) => {
                    self.lock_op(true);
                    while flag(*f).load(O::SeqCst) == 0 {
                        self.cond_wait();
                    }
                    self.unlock_op(true);
                }
                Act::SetAll(f) => {
                    self.lock_op(true);
                    flag(*f).store(1, O::SeqCst);
                    self.notify_all();
                    self.unlock_op(true);
                }
                Act::SetAllAfter(f) => {
                    self.lock_op(true);
                    flag(*f).store(1, O::SeqCst);
                    self.unlock_op(true);
                    self.notify_all();
                }
                Act::SetOne(f) => {
                    self.lock_op(true);
                    flag(*f).store(1, O::SeqCst);
                    self.notify_one();
                    self.unlock_op(true);
                }
                Act::BareOne => self.notify_one(),
                Act::BareAll => self.notify_all(),
                Act::Join(u) => self.join(*u),
                Act::Gc => self.collect(t),
                Act::LockOnly => self.lock_op(true),
                Act::UnlockOnly => self.unlock_op(true),
            }
        }
        self.stop(t);
    }
}

// ------------------------------------------------------------------------------------------------
// exploration helpers

/// shim tid of the collector while it waits (in `yield_now`) for the other workers to park; 0 = not waiting
static COLLECTOR_WAITS: AtomicUsize = AtomicUsize::new(0);

/// Wraps a chooser.  At a choice point that occurs while the collector waits for the others to park and at
/// least one other thread can run, handing the token to the collector is pointless (it looks, sees a worker
/// that is not parked, yields again): such points are recorded (for `SpinDfs`, which then does not enumerate
/// that alternative) and, with `filter`, the collector is taken out of the candidates (random explorers).
/// Consequence: in explored schedules a collection starts only when no other thread is runnable — the world
/// is stopped, as in the real runtime.
struct SpinAware {
    inner: Box<dyn Chooser>,
    calls: usize,
    points: Arc<StdMutex<Vec<(usize, usize)>>>,
    filter: bool,
}

impl Chooser for SpinAware {
    fn choose(&mut self, kind: shim::Kind, opts: &[shim::Opt], step: usize, last: Option<usize>) -> usize {
        let idx = self.calls;
        self.calls += 1;
        let coll = COLLECTOR_WAITS.load(O::SeqCst);
        if coll != 0 && kind == shim::Kind::Sched && opts.iter().any(|o| !o.spurious && o.tid != coll) && opts.iter().any(|o| !o.spurious && o.tid == coll) {
            self.points.lock().unwrap().push((idx, coll));
            if self.filter {
                let keep: Vec<usize> = (0..opts.len()).filter(|&i| opts[i].spurious || opts[i].tid != coll).collect();
                let sub: Vec<shim::Opt> = keep.iter().map(|&i| opts[i]).collect();
                if sub.len() == 1 {
                    return keep[0];
                }
                let j = self.inner.choose(kind, &sub, step, last);
                return keep[if j < keep.len() { j } else { 0 }];
            }
        }
        self.inner.choose(kind, opts, step, last)
    }
}

/// `explore::Dfs` (stateless depth-first enumeration of all choice lists with at most `bound` preemptions)
/// minus the alternatives that resume a waiting collector while another thread can run.
struct SpinDfs {
    bound: usize,
    next_prefix: Option<Vec<usize>>,
    last_prefix: Vec<usize>,
    points: Arc<StdMutex<Vec<(usize, usize)>>>,
    /// the first `pinned` choices are given and never varied (explore only below that prefix)
    pinned: usize,
    divergences: usize,
    done: bool,
}

impl SpinDfs {
    fn new(bound: usize, prefix: Vec<usize>) -> SpinDfs {
        SpinDfs { bound, pinned: prefix.len(), next_prefix: Some(prefix), last_prefix: Vec::new(), points: Arc::new(StdMutex::new(Vec::new())), divergences: 0, done: false }
    }

    fn next(&mut self) -> Option<Box<dyn Chooser>> {
        let p = self.next_prefix.take()?;
        self.last_prefix = p.clone();
        self.points.lock().unwrap().clear();
        Some(Box::new(SpinAware { inner: Box::new(Replay::new(p)), calls: 0, points: self.points.clone(), filter: false }))
    }

    fn exhausted(&self) -> bool {
        self.done
    }

    fn record(&mut self, r: &RunResult) {
        let trail = &r.trail;
        for (i, &c) in self.last_prefix.iter().enumerate() {
            if i >= trail.len() || trail[i].chosen != c {
                self.divergences += 1;
                break;
            }
        }
        let excluded: HashMap<usize, usize> = self.points.lock().unwrap().iter().cloned().collect();
        let mut pre = Vec::with_capacity(trail.len() + 1);
        let mut acc = 0usize;
        for c in trail {
            pre.push(acc);
            acc += c.opts[c.chosen].cost as usize;
        }
        for i in (self.pinned.min(trail.len())..trail.len()).rev() {
            let c = &trail[i];
            for alt in (c.chosen + 1)..c.opts.len() {
                if let Some(&coll) = excluded.get(&i) {
                    if !c.opts[alt].spurious && c.opts[alt].tid == coll {
                        continue;
                    }
                }
                if pre[i] + c.opts[alt].cost as usize <= self.bound {
                    let mut p: Vec<usize> = trail[..i].iter().map(|x| x.chosen).collect();
                    p.push(alt);
                    self.next_prefix = Some(p);
                    return;
                }
            }
        }
        self.next_prefix = None;
        self.done = true;
    }
}

// ------------------------------------------------------------------------------------------------
// one schedule

#[derive(Default, Clone)]
pub struct Feats {
    events: usize,
    cb_waits: usize,
    cb_wakes: usize,
    contention: bool,
    cond_wait: bool,
    notify_all: bool,
    notify_no_waiter: bool,
    join_wait: bool,
    spurious: bool,
    reloc: bool,
    reloc_queued: bool,
    unknown_objs: usize,
}

pub struct Outcome {
    pub res: RunResult,
    pub request: String,
    pub expected: String,
    pub violations: Vec<(String, String)>,
    pub feats: Feats,
    /// reloc only: another worker took a step inside the collection (it was parked but still runnable); such a
    /// schedule cannot happen in the real runtime (the world is stopped) and is not evaluated
    pub discarded: bool,
}

pub fn run_one(sc: &Arc<Scenario>, spur: usize, chooser: Box<dyn Chooser>) -> Outcome {
    let cfg = Config { max_steps: 6000, spurious_budget: spur };
    let n = sc.n;
    let sh = Arc::new(Shared {
        n,
        violations: StdMutex::new(Vec::new()),
        holders: AtomicUsize::new(0),
        owner_thread_id: AtomicI64::new(0),
        flags: [AtomicU8::new(0), AtomicU8::new(0), AtomicU8::new(0), AtomicU8::new(0)],
        stop_begun: (0..n).map(|_| AtomicBool::new(false)).collect(),
        stop_done: (0..n).map(|_| AtomicBool::new(false)).collect(),
        gcs: AtomicUsize::new(0),
        gcs_skipped: AtomicUsize::new(0),
        gcs_with_roots: AtomicUsize::new(0),
        roles: StdMutex::new(HashMap::new()),
        ids_w_cw: StdMutex::new((0, 0)),
        final_queue: StdMutex::new(None),
    });
    let (sc2, sh2) = (sc.clone(), sh.clone());
    COLLECTOR_WAITS.store(0, O::SeqCst);
    let res = shim::run(&cfg, chooser, move || {
        // fixed construction order: runtime (Threads, WaitLists), mutex object, condition object, one DoraThread per worker
        let rt = verif_install_runtime(true);
        let _ = &*rt.threads;
        let _ = &*rt.wait_lists;
        let base = arena();
        unsafe { std::ptr::write_bytes(base as *mut u8, 0, 8192) };
        let m_addr = Address::from(base + 0x40);
        let c_addr = Address::from(base + 0x50);
        unsafe {
            std::ptr::write(m_addr.to_mut_ptr::<ManagedMutex>(), ManagedMutex::verif_new());
            std::ptr::write(c_addr.to_mut_ptr::<ManagedCondition>(), ManagedCondition::verif_new());
        }
        let mut slots: Box<(Ref<ManagedMutex>, Ref<ManagedCondition>)> = Box::new((m_addr.into(), c_addr.into()));
        let mtx: Handle<ManagedMutex> = Handle::from_address(Address::from_ptr(&mut slots.0 as *mut Ref<ManagedMutex>));
        let cond: Handle<ManagedCondition> = Handle::from_address(Address::from_ptr(&mut slots.1 as *mut Ref<ManagedCondition>));
        let threads: Vec<Arc<DoraThread>> = (0..sc2.n).map(|u| DoraThread::with_id(u + 1, ThreadState::Running, Address::null())).collect();
        {
            let mut roles = sh2.roles.lock().unwrap();
            roles.insert(Obj::Atomic(mtx.verif_state().id()), "W".to_string());
            roles.insert(Obj::Atomic(cond.verif_state().id()), "CW".to_string());
            roles.insert(Obj::Mutex(rt.wait_lists.verif_data_id()), "WL".to_string());
            for (u, th) in threads.iter().enumerate() {
                let ids = th.verif_ids();
                roles.insert(Obj::Atomic(ids.state), format!("S{}", u));
                roles.insert(Obj::Mutex(ids.blocking), format!("B{}", u));
                roles.insert(Obj::Condvar(ids.cv_blocking), format!("CB{}", u));
                roles.insert(Obj::Mutex(ids.running), format!("J{}", u));
                roles.insert(Obj::Condvar(ids.cv_stopped), format!("CJ{}", u));
            }
            *sh2.ids_w_cw.lock().unwrap() = (mtx.verif_state().id(), cond.verif_state().id());
        }
        let world = Arc::new(World { rt, mtx, cond, _slots: slots, threads, sh: sh2.clone() });
        let mut hs = Vec::new();
        for t in 0..sc2.n {
            let (w, s) = (world.clone(), sc2.clone());
            hs.push(shim::spawn(move || {
                init_current_thread(w.threads[t].clone());
                ME.with(|m| m.set(t as i64 + 1));
                w.run_script(t, &s.scripts[t]);
                deinit_current_thread();
            }));
        }
        for h in hs {
            let _ = h.join();
        }
        // final state of the queues (shim operations of thread 0; its events are not part of the trace)
        let entries = world.rt.wait_lists.verif_entries();
        let blocking: Vec<(bool, bool)> = world.threads.iter().map(|t| t.verif_blocking()).collect();
        *sh2.final_queue.lock().unwrap() = Some((entries, blocking));
    });

    let roles = sh.roles.lock().unwrap().clone();
    let role = |o: Obj| -> String {
        match o {
            Obj::User(k) => MARK_NAMES.get(k as usize).map(|s| s.to_string()).unwrap_or_else(|| format!("?u{}", k)),
            Obj::None => "-".to_string(),
            other => roles.get(&other).cloned().unwrap_or_else(|| format!("X{}", other)),
        }
    };
    let num = |x: Option<u64>| x.map(|v| (v as i64).to_string()).unwrap_or_else(|| "-".to_string());
    let mut feats = Feats::default();
    let mut toks: Vec<String> = Vec::new();
    let mut steps = 0usize;
    let mut in_gc: Option<usize> = None;
    let mut discarded = false;
    for e in &res.events {
        let Event { tid, op, obj, rd, wr } = e;
        if *tid == 0 || matches!(*op, "start" | "exit" | "spawn" | "join" | "yield") {
            continue;
        }
        let w = tid - 1;
        let r = role(*obj);
        let is_mark = matches!(*op, "call" | "ret" | "cs");
        let mut rds = num(*rd);
        match *op {
            "n1" => {
                rds = rd.map(|v| (v as i64 - 1).to_string()).unwrap_or_else(|| "-".to_string());
                if r.starts_with("CB") && rd.is_some() {
                    feats.cb_wakes += 1;
                }
            }
            "wait" => {
                if r.starts_with("CB") {
                    feats.cb_waits += 1;
                }
                if r.starts_with("CJ") {
                    feats.join_wait = true;
                }
            }
            "spur" => feats.spurious = true,
            "cas" if r == "W" && *rd == Some(1) && *wr == Some(2) => feats.contention = true,
            "load" if r == "CW" && *rd == Some(0) => feats.notify_no_waiter = true,
            "call" => match r.as_str() {
                "cwait" => feats.cond_wait = true,
                "nall" => feats.notify_all = true,
                "gc" => {
                    feats.reloc = true;
                    in_gc = Some(w);
                }
                _ => {}
            },
            "ret" if r == "gc" => in_gc = None,
            _ => {}
        }
        if let Some(c) = in_gc {
            if c != w {
                discarded = true;
            }
        }
        if r.starts_with('X') {
            feats.unknown_objs += 1;
        }
        if !is_mark {
            steps += 1;
        }
        toks.push(format!("{},{},{},{},{}", w, op, r, rds, num(*wr)));
    }
    feats.events = steps;
    feats.reloc_queued = sh.gcs_with_roots.load(O::SeqCst) > 0;
    let request = format!("mtx {} | {}", n, toks.join(" "));
    let (id_w, id_cw) = *sh.ids_w_cw.lock().unwrap();
    let at = |i: u32| res.atomics.get(i as usize).map(|&v| v as i64).unwrap_or(-1);
    let (fw, fcw) = if feats.reloc {
        // after a collection the words live in the copies (same shim ids: the id is part of the copied bytes)
        (at(id_w), at(id_cw))
    } else {
        (at(id_w), at(id_cw))
    };
    let fin = sh.stop_done.iter().filter(|b| b.load(O::SeqCst)).count();
    let expected = format!("accept {} W={} CW={} fin={}", steps, fw, fcw, fin);

    let mut violations = sh.violations.lock().unwrap().clone();
    let who = |tid: usize| if tid == 0 { "main".to_string() } else { format!("worker {}", tid - 1) };
    let rename = |txt: &str| -> String {
        // "wait c5", "lock m3 (held by Some(2))", "join t3" -> role names
        txt.split(' ')
            .map(|w| {
                let core = w.trim_matches(|c| c == '(' || c == ')');
                let mut ch = core.chars();
                let obj = match (ch.next(), ch.as_str().parse::<u32>()) {
                    (Some('c'), Ok(i)) => Some(Obj::Condvar(i)),
                    (Some('m'), Ok(i)) => Some(Obj::Mutex(i)),
                    (Some('a'), Ok(i)) => Some(Obj::Atomic(i)),
                    (Some('t'), Ok(i)) => return w.replace(core, &format!("thread-of-{}", who(i as usize).replace(' ', "-"))),
                    _ => None,
                };
                match obj {
                    Some(o) => w.replace(core, &role(o)),
                    None => w.to_string(),
                }
            })
            .collect::<Vec<_>>()
            .join(" ")
    };
    match &res.status {
        Status::Completed => {
            let fq = sh.final_queue.lock().unwrap().clone();
            let mut bad = Vec::new();
            if fw != 0 {
                bad.push(format!("lock word = {}", fw));
            }
            if sh.holders.load(O::SeqCst) != 0 {
                bad.push("a worker still holds the mutex".to_string());
            }
            if let Some((entries, blocking)) = fq {
                if entries != 0 {
                    bad.push(format!("{} object(s) still have a wait queue", entries));
                }
                for (u, (b, nx)) in blocking.iter().enumerate() {
                    if *b || *nx {
                        bad.push(format!("worker {} still queued (blocking={}, has successor={})", u, b, nx));
                    }
                }
            }
            if fin != n {
                bad.push(format!("only {} of {} workers stopped", fin, n));
            }
            if !bad.is_empty() {
                violations.push(("oracle:final-state".into(), bad.join("; ")));
            }
        }
        Status::Deadlock(list) => {
            let txt: Vec<String> = list.iter().map(|(tid, d)| format!("{}: {}", who(*tid), rename(d))).collect();
            violations.push(("oracle:deadlock".into(), format!("no runnable thread (lost wake-up?): {}; lock word W={} waiters word CW={}", txt.join(", "), fw, fcw)));
        }
        Status::Panic { tid, msg } => {
            let first = msg.lines().next().unwrap_or("");
            let short: String = first.chars().take(40).collect::<String>().replace(' ', "_");
            violations.push((format!("oracle:panic:{}", short), format!("{} panicked: {}", who(*tid), first)));
        }
        Status::StepLimit => violations.push(("oracle:step-limit".into(), "run exceeded the step limit (spinning?)".into())),
    }
    if discarded {
        violations.clear();
    }
    Outcome { res, request, expected, violations, feats, discarded }
}

// ------------------------------------------------------------------------------------------------
// output

fn jstr(s: &str) -> String {
    let mut o = String::from("\"");
    for c in s.chars() {
        match c {
            '"' => o.push_str("\\\""),
            '\\' => o.push_str("\\\\"),
            '\n' => o.push_str("\\n"),
            c if (c as u32) < 0x20 => o.push_str(&format!("\\u{:04x}", c as u32)),
            c => o.push(c),
        }
    }
    o.push('"');
    o
}

fn choices_str(c: &[usize]) -> String {
    if c.is_empty() {
        "-".to_string()
    } else {
        c.iter().map(|x| x.to_string()).collect::<Vec<_>>().join(",")
    }
}

fn parse_choices(s: &str) -> Vec<usize> {
    if s == "-" {
        Vec::new()
    } else {
        s.split(',').filter_map(|x| x.parse().ok()).collect()
    }
}

fn fnv(s: &str) -> u64 {
    let mut h: u64 = 0xcbf29ce484222325;
    for b in s.bytes() {
        h ^= b as u64;
        h = h.wrapping_mul(0x100000001b3);
    }
    h
}

struct Sink {
    req: std::io::BufWriter<std::fs::File>,
    exp: std::io::BufWriter<std::fs::File>,
    sch: std::io::BufWriter<std::fs::File>,
    vio: std::io::BufWriter<std::fs::File>,
    seen: HashSet<u64>,
    schedules: usize,
    distinct: usize,
    nontrivial: usize,
    violations: usize,
    hist: BTreeMap<String, usize>,
    samples: Vec<String>,
    max_events: usize,
}

impl Sink {
    fn bump(&mut self, k: &str, by: usize) {
        *self.hist.entry(k.to_string()).or_insert(0) += by;
    }

    fn take(&mut self, sc: &Scenario, spur: usize, mode: &str, o: &Outcome) {
        self.schedules += 1;
        self.bump(&format!("schedules_{}", mode), 1);
        if o.discarded {
            self.bump("reloc_schedules_discarded_interleaved", 1);
            return;
        }
        let sched = format!("{} {} {}", sc.show(), spur, choices_str(&o.res.choice_list()));
        for (key, text) in &o.violations {
            self.violations += 1;
            writeln!(
                self.vio,
                "{{\"key\":{},\"text\":{},\"scenario\":{},\"spurious_budget\":{},\"choices\":{},\"mode\":{},\"trace\":{}}}",
                jstr(key),
                jstr(text),
                jstr(&sc.show()),
                spur,
                jstr(&choices_str(&o.res.choice_list())),
                jstr(mode),
                jstr(&o.request)
            )
            .unwrap();
            self.vio.flush().unwrap();
        }
        if !self.seen.insert(fnv(&o.request)) {
            return;
        }
        self.distinct += 1;
        let f = &o.feats;
        let nontrivial = f.cb_waits > 0 && f.cb_wakes > 0;
        if nontrivial {
            self.nontrivial += 1;
        }
        self.bump(&format!("traces_n{}", sc.n), 1);
        for (flag, name) in [
            (f.contention, "traces_with_mutex_contention"),
            (f.cond_wait, "traces_with_cond_wait"),
            (f.notify_all, "traces_with_notify_all"),
            (f.notify_no_waiter, "traces_with_notify_no_waiter"),
            (f.join_wait, "traces_with_join_wait"),
            (f.spurious, "traces_with_spurious"),
            (f.reloc, "traces_reloc"),
            (f.reloc_queued, "traces_reloc_with_nonempty_wait_table"),
            (f.cb_waits > 0, "traces_with_sleep_in_block"),
            (f.unknown_objs > 0, "traces_with_unknown_objects"),
            (o.res.status != Status::Completed, "traces_not_completed"),
        ] {
            if flag {
                self.bump(name, 1);
            }
        }
        self.bump("events", f.events);
        self.max_events = self.max_events.max(f.events);
        if nontrivial && self.samples.len() < 3 && f.contention && (f.cond_wait || self.samples.len() < 1) {
            self.samples.push(format!("{{\"schedule\":{},\"trace\":{},\"expected\":{}}}", jstr(&sched), jstr(&o.request), jstr(&o.expected)));
        }
        writeln!(self.req, "{}", o.request).unwrap();
        writeln!(self.exp, "{}", o.expected).unwrap();
        writeln!(self.sch, "{}", sched).unwrap();
    }
}

/// (scenario, preemption bound, spurious budget, cap on DFS runs, pinned choice prefix or "-")
/// A pinned prefix `2` in a 3-worker scenario = the collector (worker 2) runs first; the DFS explores below it.
fn scenarios(tier: &str) -> Vec<(&'static str, usize, usize, usize, &'static str)> {
    let quick: Vec<(&'static str, usize, usize, usize, &'static str)> = vec![
        ("2/k/k", 2, 0, 2500, "-"),
        ("2/k.k/k", 2, 0, 1500, "-"),
        ("2/w0/s0", 2, 0, 2500, "-"),
        ("2/w0/s0", 2, 1, 1500, "-"),
        ("2/w0/S0", 2, 0, 2500, "-"),
        ("2/w0/o0", 2, 0, 2500, "-"),
        ("2/j1/k", 2, 0, 2000, "-"),
        ("2/j1/k", 2, 1, 2000, "-"),
        ("2/w0.j1/n.s0", 2, 0, 2500, "-"),
        ("3/k/k/k", 2, 0, 1500, "-"),
        ("3/w0/w0/s0", 1, 0, 2500, "-"),
        ("3/w0/w0/S0", 2, 0, 1500, "-"),
        ("3/w0/k/o0", 1, 0, 2500, "-"),
        ("3/j1.j2/s0/w0", 1, 0, 2000, "-"),
        ("3/w0/N.k/S0", 1, 1, 1500, "-"),
        ("reloc:2/w0/g.s0", 2, 0, 1500, "-"),
        ("reloc:3/w0/w0/g.s0", 1, 0, 2000, "-"),
        ("reloc:2/k/L.g.U", 2, 0, 1500, "1"),
        ("reloc:3/k/k/L.g.U", 1, 0, 2000, "2"),
        ("reloc:3/w0/k/L.g.U.S0", 1, 0, 2000, "2"),
    ];
    if tier == "quick" {
        return quick;
    }
    let mut v: Vec<(&'static str, usize, usize, usize, &'static str)> = quick.iter().map(|&(s, b, sp, c, p)| (s, b, sp, c * 10, p)).collect();
    v.extend(vec![
        ("2/k.k/k.k", 3, 0, 15000, "-"),
        ("2/w0/s0", 4, 1, 15000, "-"),
        ("2/w0.w1/s0.S1", 3, 0, 15000, "-"),
        ("2/s1.w0/s0.w1", 3, 0, 15000, "-"),
        ("3/k/k/k", 3, 0, 15000, "-"),
        ("3/w0/w0/s0", 2, 1, 15000, "-"),
        ("3/w0/w1/s0.S1", 2, 0, 15000, "-"),
        ("3/w0.j2/n.k.j2/s0", 2, 0, 15000, "-"),
        ("4/w0/w0/w0/s0", 1, 0, 15000, "-"),
        ("4/k/k/k/k", 2, 0, 15000, "-"),
        ("4/j1/j2/j3/k", 2, 1, 15000, "-"),
        ("reloc:3/w0/w0/g.s0.g", 2, 0, 15000, "-"),
        ("reloc:4/k/k/k/L.g.U.g", 2, 0, 15000, "3"),
        ("reloc:4/w0/w0/k/g.S0", 1, 1, 15000, "-"),
        ("reloc:3/k.k/k/L.g.U.g.k", 2, 0, 15000, "2"),
    ]);
    v
}

/// Random scenario, deadlock-free by construction: in every script all flag setters (`s/S/o`) come before
/// the first blocking op (`w`, `j`); every flag that is waited for is set by another worker; joins only go to
/// higher worker indices; `o` (notify_one) only if a single worker ever waits on the (one) condition.
fn random_scenario(r: &mut Rng) -> Scenario {
    if r.chance(1, 6) {
        return random_reloc(r);
    }
    let n = r.range(2, 4) as usize;
    let nflags = r.range(0, 2) as usize;
    let mut sets: Vec<Vec<Act>> = vec![Vec::new(); n];
    let mut waits: Vec<Vec<Act>> = vec![Vec::new(); n];
    let mut waiters_total: HashSet<usize> = HashSet::new();
    let mut setter_of = Vec::new();
    for f in 0..nflags {
        let setter = r.below(n as u64) as usize;
        setter_of.push(setter);
        let mut any = false;
        for u in 0..n {
            if u != setter && r.chance(1, 2) {
                waits[u].push(Act::WaitFlag(f));
                waiters_total.insert(u);
                any = true;
            }
        }
        if !any {
            let u = (setter + 1) % n;
            waits[u].push(Act::WaitFlag(f));
            waiters_total.insert(u);
        }
    }
    for f in 0..nflags {
        let one_ok = waiters_total.len() <= 1;
        let a = match r.below(if one_ok { 3 } else { 2 }) {
            0 => Act::SetAll(f),
            1 => Act::SetAllAfter(f),
            _ => Act::SetOne(f),
        };
        sets[setter_of[f]].push(a);
    }
    let mut scripts = Vec::new();
    for u in 0..n {
        let mut sc: Vec<Act> = Vec::new();
        let filler = |r: &mut Rng, sc: &mut Vec<Act>| {
            if r.chance(1, 3) {
                sc.push(match r.below(5) {
                    0 | 1 | 2 => Act::Crit,
                    3 => Act::BareOne,
                    _ => Act::BareAll,
                });
            }
        };
        filler(r, &mut sc);
        for a in sets[u].drain(..) {
            sc.push(a);
            filler(r, &mut sc);
        }
        for a in waits[u].drain(..) {
            sc.push(a);
            filler(r, &mut sc);
        }
        for v in (u + 1)..n {
            if r.chance(1, 4) {
                sc.push(Act::Join(v));
            }
        }
        if sc.is_empty() && r.chance(1, 2) {
            sc.push(Act::Crit);
        }
        scripts.push(sc);
    }
    Scenario { reloc: false, n, scripts }
}

fn random_reloc(r: &mut Rng) -> Scenario {
    let n = r.range(2, 4) as usize;
    let mut scripts: Vec<Vec<Act>> = Vec::new();
    if r.chance(1, 2) {
        // the others queue on the condition (and on the mutex when woken together)
        for _ in 0..n - 1 {
            let mut sc = Vec::new();
            if r.chance(1, 4) {
                sc.push(Act::Crit);
            }
            sc.push(Act::WaitFlag(0));
            if r.chance(1, 4) {
                sc.push(Act::Crit);
            }
            scripts.push(sc);
        }
        let mut c = Vec::new();
        if r.chance(1, 3) {
            c.push(Act::Crit);
        }
        c.push(Act::Gc);
        c.push(if r.chance(1, 2) { Act::SetAll(0) } else { Act::SetAllAfter(0) });
        if r.chance(1, 3) {
            c.push(Act::Gc);
        }
        scripts.push(c);
    } else {
        // the others queue on the mutex, which the collector holds
        for _ in 0..n - 1 {
            let mut sc = vec![Act::Crit];
            if r.chance(1, 4) {
                sc.push(Act::Crit);
            }
            scripts.push(sc);
        }
        let mut c = vec![Act::LockOnly, Act::Gc, Act::UnlockOnly];
        if r.chance(1, 3) {
            c.push(Act::Gc);
        }
        if r.chance(1, 3) {
            c.push(Act::Crit);
        }
        scripts.push(c);
    }
    Scenario { reloc: true, n, scripts }
}

pub fn replay(args: &[String]) {
    let sc = Arc::new(Scenario::parse(&args[0]).expect("scenario"));
    let spur: usize = args[1].parse().expect("spurious budget");
    let ch = parse_choices(&args[2]);
    let o = run_one(&sc, spur, Box::new(Replay::new(ch)));
    println!("{}", o.request);
    println!("{}", o.expected);
    println!(
        "status {:?} steps={} preemptions={} choices={}{}",
        o.res.status,
        o.res.steps,
        o.res.preemptions,
        choices_str(&o.res.choice_list()),
        if o.discarded { " discarded(another worker stepped inside the collection)" } else { "" }
    );
    for (k, t) in &o.violations {
        println!("violation {} {}", k, t);
    }
}

pub fn run(args: &[String]) {
    let tier = args[0].clone();
    let out = args[1].clone();
    std::fs::create_dir_all(&out).unwrap();
    let f = |n: &str| std::io::BufWriter::new(std::fs::File::create(format!("{}/{}", out, n)).unwrap());
    let mut sink = Sink {
        req: f("traces.req"),
        exp: f("expected.resp"),
        sch: f("sched.txt"),
        vio: f("violations.jsonl"),
        seen: HashSet::new(),
        schedules: 0,
        distinct: 0,
        nontrivial: 0,
        violations: 0,
        hist: BTreeMap::new(),
        samples: Vec::new(),
        max_events: 0,
    };
    // 1. corpus: schedules worth re-running first
    if let Some(cf) = args.get(2) {
        if let Ok(txt) = std::fs::read_to_string(cf) {
            for line in txt.lines() {
                let line = line.trim();
                if line.is_empty() || line.starts_with('#') {
                    continue;
                }
                let p: Vec<&str> = line.split_whitespace().collect();
                if p.len() != 3 {
                    continue;
                }
                if let Ok(sc) = Scenario::parse(p[0]) {
                    let sc = Arc::new(sc);
                    let spur = p[1].parse().unwrap_or(0);
                    let o = run_one(&sc, spur, Box::new(Replay::new(parse_choices(p[2]))));
                    sink.take(&sc, spur, "corpus", &o);
                }
            }
        }
    }
    // 2. bounded DFS per built-in scenario
    let mut dfs_info = Vec::new();
    for (txt, bound, spur, cap, prefix) in scenarios(&tier) {
        let sc = Arc::new(Scenario::parse(txt).expect("built-in scenario"));
        let mut dfs = SpinDfs::new(bound, parse_choices(prefix));
        let mut runs = 0usize;
        while let Some(ch) = dfs.next() {
            let o = run_one(&sc, spur, ch);
            dfs.record(&o.res);
            sink.take(&sc, spur, "dfs", &o);
            runs += 1;
            if runs >= cap {
                break;
            }
        }
        if dfs.divergences > 0 {
            sink.bump("dfs_replay_divergences", dfs.divergences);
        }
        dfs_info.push(format!(
            "{{\"scenario\":{},\"preemption_bound\":{},\"spurious_budget\":{},\"pinned_prefix\":{},\"schedules\":{},\"exhaustive\":{}}}",
            jstr(txt),
            bound,
            spur,
            jstr(prefix),
            runs,
            dfs.exhausted()
        ));
    }
    // 3. seeded random scenarios with PCT-style and uniform schedules
    let mut rng = Rng::from_env();
    let nrand = if tier == "quick" { 1500 } else { 20000 };
    for i in 0..nrand {
        let sc = Arc::new(random_scenario(&mut rng));
        let spur = if rng.chance(1, 3) { rng.range(1, 2) as usize } else { 0 };
        let seed = rng.next();
        let inner: Box<dyn Chooser> = if i % 2 == 0 { Box::new(Pct::new(seed, 2 + (seed % 4) as usize, 80 + 40 * sc.n)) } else { Box::new(Uniform::new(seed)) };
        let ch: Box<dyn Chooser> = Box::new(SpinAware { inner, calls: 0, points: Arc::new(StdMutex::new(Vec::new())), filter: true });
        let o = run_one(&sc, spur, ch);
        sink.take(&sc, spur, if i % 2 == 0 { "pct" } else { "uniform" }, &o);
    }
    sink.req.flush().unwrap();
    sink.exp.flush().unwrap();
    sink.sch.flush().unwrap();
    sink.vio.flush().unwrap();
    let hist: Vec<String> = sink.hist.iter().map(|(k, v)| format!("{}:{}", jstr(k), v)).collect();
    println!(
        "{{\"schedules\":{},\"distinct_traces\":{},\"nontrivial\":{},\"violations\":{},\"max_events\":{},\"histogram\":{{{}}},\"dfs\":[{}],\"samples\":[{}]}}",
        sink.schedules,
        sink.distinct,
        sink.nontrivial,
        sink.violations,
        sink.max_events,
        hist.join(","),
        dfs_info.join(","),
        sink.samples.join(",")
    );
}
