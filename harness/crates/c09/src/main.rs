//! C09 harness.  Group 1 (`hmap-*`): see hmap.rs.  Group 2 (`run`, `replay`): see proto.rs.
mod hmap;

fn main() {
    let args: Vec<String> = std::env::args().collect();
    match args.get(1).map(|s| s.as_str()) {
        Some("hmap-gen") => hmap::gen(args.get(2).and_then(|s| s.parse().ok()).unwrap_or(100)),
        Some("hmap-run") => hmap::run_file(args.get(2).map(|s| s.as_str())),
        Some("hmap-worker") => hmap::worker(),
        Some("hmap-min") => hmap::minimise(&args[2..].join(" ")),
        _ => {
            eprintln!("usage: h_c09 hmap-gen <n> | hmap-run [file] | hmap-min <request line> | run <quick|thorough> <outdir> [corpus] | replay <scenario> <spur> <choices|->");
            std::process::exit(2);
        }
    }
}
