//! C09 harness.  Group 1 (`hmap-*`): the wait table's hash map, see hmap.rs.
//! Group 2 (`run`, `replay`): mutex / condition / join protocol on the scheduler, see proto.rs.
//! Every random choice derives from VERIF_SEED.
mod hmap;
mod proto;

fn main() {
    let args: Vec<String> = std::env::args().collect();
    match args.get(1).map(|s| s.as_str()) {
        Some("hmap-gen") => hmap::gen(args.get(2).and_then(|s| s.parse().ok()).unwrap_or(100)),
        Some("hmap-run") => hmap::run_file(args.get(2).map(|s| s.as_str())),
        Some("hmap-worker") => hmap::worker(),
        Some("hmap-min") if args.len() > 2 => hmap::minimise(&args[2..].join(" ")),
        Some("run") if args.len() >= 4 => {
            std::panic::set_hook(Box::new(|_| {}));
            if std::env::var("VERIF_NO_PIN").is_err() {
                verif_sync_shim::pin_to_current_cpu();
            }
            proto::run(&args[2..]);
        }
        Some("replay") if args.len() >= 5 => {
            std::panic::set_hook(Box::new(|_| {}));
            if std::env::var("VERIF_NO_PIN").is_err() {
                verif_sync_shim::pin_to_current_cpu();
            }
            proto::replay(&args[2..]);
        }
        _ => {
            eprintln!("usage: h_c09 hmap-gen <n> | hmap-run [file] | hmap-min <request line> | run <quick|thorough> <outdir> [corpus] | replay <scenario> <spur> <choices|->");
            std::process::exit(2);
        }
    }
}
