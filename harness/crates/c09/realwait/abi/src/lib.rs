//! `dora_compiler::ThreadState` for c09_realwait: the REAL enum (with `From<u8>`, `is_running`,
//! `is_parked`) out of /repo/dora-compiler/src/abi.rs, compiled byte-for-byte.  abi.rs imports two
//! `const fn`s from `crate::layout`; the real layout.rs drags in dora-bytecode, so these two one-liners
//! are COPIES (they only feed `Header::size()` / `Header::array_size()`, which C09 never calls).
#![allow(dead_code)]

#[path = "/repo/dora-compiler/src/abi.rs"]
mod abi;

mod layout {
    // copy of /repo/dora-compiler/src/layout.rs: ptr_width, object_header_size, array_header_size
    #[inline(always)]
    pub const fn ptr_width() -> i32 {
        std::mem::size_of::<*const u8>() as i32
    }

    #[inline(always)]
    pub const fn object_header_size() -> i32 {
        std::mem::size_of::<usize>() as i32
    }

    #[inline(always)]
    pub const fn array_header_size() -> i32 {
        object_header_size() + ptr_width()
    }
}

pub use abi::{DoraToNativeInfo, ThreadState};
