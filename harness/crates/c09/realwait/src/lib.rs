//! The real wait table (`waitlists.rs`) and the real thread bookkeeping (`threads.rs`) of dora-runtime,
//! compiled byte-for-byte from /repo against the sync shim.  No hook in /repo, no textual rewrite.
//!
//! How each import of the two files is resolved:
//! * `use parking_lot::{Condvar, Mutex}`            -> the dependency named `parking_lot` IS the shim.
//! * `use std::sync::atomic::{…}`                   -> each file is `include!`d into a module that declares
//!   a local module `std`; a local item shadows the extern-prelude crate, so `std::sync::atomic::*` is
//!   the shim's while every other `std::…` path is re-exported from the real std.
//!   (`::std::…` paths of macro expansions — `vec!`, `thread_local!`, `dora_object` — stay the real std.)
//! * `use dora_runtime_macros::dora_object`         -> the REAL proc-macro crate of /repo; its expansion
//!   names `::dora_runtime::{Header, Address, Ref, gc::write_barrier}` = this crate (`extern crate self`).
//! * `use dora_compiler::ThreadState`               -> crate `c09_abi` = the real abi.rs of dora-compiler.
//! * `offset_of!` (threads.rs; `#[macro_use] extern crate memoffset` in the real lib.rs) -> `std::mem::offset_of`.
//! * `crate::gc::{Address, K, Region, WorklistSegment, root::Slot, tlab, swiper::get_swiper}`,
//!   `crate::handle::{Handle, HandleMemory}`, `crate::mirror::{Ref, alloc}`, `crate::stack::DoraToNativeInfo`,
//!   `crate::runtime::{Runtime, get_runtime}`      -> the stand-ins below (COPIES of the few real methods
//!   that are executed: `Address`, `Slot`, `Ref`, `Handle`, `Header::address`; never-executed stubs for the rest).
//! * `crate::threads::{DoraThreadPtr, current_thread}` (waitlists.rs) -> module `threads` = the real threads.rs.
//!
//! `include!` (not `#[path] mod`) puts the `verif_*` accessors at the end of each module into the same
//! module as the file's private items (`ObjectHashMap::{new,get,insert,remove,visit_roots}`, the fields of
//! `ManagedMutex`, `DoraThread`, …).  If one of the two files changes so that this crate no longer
//! compiles, the check reports `corr:build` — the tie breaks loudly, never silently.
#![allow(dead_code, unused_imports, unused_variables, unused_unsafe)]
#![allow(invalid_value)]

extern crate self as dora_runtime;

pub use dora_compiler::ThreadState;
pub use gc::Address;
pub use handle::Handle;
pub use mirror::{Header, Ref};
pub use runtime::Runtime;

/// The shim, under its own name (the dependency is called `parking_lot` for the sake of the real files).
pub use parking_lot as shim;

// ------------------------------------------------------------------------------------------------
// gc stand-in
pub mod gc {
    use crate::mirror::{Header, Ref};
    use std::cmp::Ordering;
    use std::fmt;

    pub const K: usize = 1024;

    /// COPY of `dora_runtime::gc::Address` (gc.rs) — the methods the two files and the stand-ins use.
    #[derive(Copy, Clone, PartialEq, Eq, Hash)]
    #[repr(C)]
    pub struct Address(usize);

    impl Address {
        #[inline(always)]
        pub fn from(val: usize) -> Address {
            Address(val)
        }

        #[inline(always)]
        pub fn offset_from(self, base: Address) -> usize {
            debug_assert!(self >= base);
            self.to_usize() - base.to_usize()
        }

        #[inline(always)]
        pub fn offset(self, offset: usize) -> Address {
            Address(self.0 + offset)
        }

        #[inline(always)]
        pub fn add_ptr(self, words: usize) -> Address {
            Address(self.0 + words * std::mem::size_of::<usize>())
        }

        #[inline(always)]
        pub fn to_usize(self) -> usize {
            self.0
        }

        #[inline(always)]
        pub fn from_ptr<T>(ptr: *const T) -> Address {
            Address(ptr as usize)
        }

        #[inline(always)]
        pub fn to_ptr<T>(&self) -> *const T {
            self.0 as *const T
        }

        #[inline(always)]
        pub fn to_mut_ptr<T>(&self) -> *mut T {
            self.0 as *const T as *mut T
        }

        #[inline(always)]
        pub fn null() -> Address {
            Address(0)
        }

        #[inline(always)]
        pub fn is_null(self) -> bool {
            self.0 == 0
        }

        #[inline(always)]
        pub fn is_non_null(self) -> bool {
            self.0 != 0
        }
    }

    impl fmt::Display for Address {
        fn fmt(&self, f: &mut fmt::Formatter) -> fmt::Result {
            write!(f, "0x{:x}", self.to_usize())
        }
    }

    impl fmt::Debug for Address {
        fn fmt(&self, f: &mut fmt::Formatter) -> fmt::Result {
            write!(f, "0x{:x}", self.to_usize())
        }
    }

    impl PartialOrd for Address {
        fn partial_cmp(&self, other: &Address) -> Option<Ordering> {
            Some(self.cmp(other))
        }
    }

    impl Ord for Address {
        fn cmp(&self, other: &Address) -> Ordering {
            self.to_usize().cmp(&other.to_usize())
        }
    }

    impl From<usize> for Address {
        fn from(val: usize) -> Address {
            Address(val)
        }
    }

    /// COPY of `dora_runtime::gc::Region` (constructor and accessors).
    #[derive(Copy, Clone, PartialEq, Eq, Debug)]
    pub struct Region {
        pub start: Address,
        pub end: Address,
    }

    impl Region {
        pub fn new(start: Address, end: Address) -> Region {
            debug_assert!(start <= end);
            Region { start, end }
        }
    }

    /// stub (only `DoraThread::add_to_remset` uses it; never executed here)
    pub struct WorklistSegment;

    impl WorklistSegment {
        pub fn new() -> WorklistSegment {
            WorklistSegment
        }
        pub fn push(&mut self, _address: Address) -> bool {
            unreachable!("c09_realwait: WorklistSegment is a stub")
        }
    }

    /// stub for the expansion of `#[dora_object]` (`write_barrier` of `#[dora_ref]` setters; none here)
    pub fn write_barrier<T>(_header: &Header, _value: Ref<T>) {
        unreachable!("c09_realwait: write_barrier is a stub")
    }

    pub mod root {
        use super::Address;

        /// COPY of `dora_runtime::gc::root::{Slot, RegularSlot}` (root.rs).  The wait table only hands out
        /// regular slots (`Slot::at`); interior slots are left out.
        #[derive(Copy, Clone)]
        pub enum Slot {
            Regular(RegularSlot),
        }

        #[derive(Copy, Clone)]
        pub struct RegularSlot(Address);

        impl RegularSlot {
            pub fn at(address: Address) -> RegularSlot {
                RegularSlot(address)
            }

            pub fn address(self) -> Address {
                self.0
            }

            pub fn get(self) -> Address {
                unsafe { *self.0.to_ptr::<Address>() }
            }

            pub fn set(self, object: Address) {
                unsafe {
                    *self.0.to_mut_ptr::<Address>() = object;
                }
            }
        }

        impl Slot {
            pub fn at(addr: Address) -> Slot {
                Slot::Regular(RegularSlot::at(addr))
            }

            pub fn address(self) -> Address {
                match self {
                    Slot::Regular(slot) => slot.address(),
                }
            }

            pub fn get(self) -> Address {
                match self {
                    Slot::Regular(slot) => slot.get(),
                }
            }

            pub fn relocate(self, object: Address) {
                match self {
                    Slot::Regular(slot) => slot.set(object),
                }
            }
        }
    }

    pub mod tlab {
        use crate::runtime::Runtime;
        /// stub (`Threads::remove_current_thread`; never executed here)
        pub fn make_iterable_current(_rt: &Runtime) {
            unreachable!("c09_realwait: tlab is a stub")
        }
    }

    pub mod swiper {
        use super::WorklistSegment;
        use crate::runtime::Runtime;
        pub struct Swiper;
        impl Swiper {
            pub fn add_remset_segment(&self, _segment: WorklistSegment) {
                unreachable!("c09_realwait: Swiper is a stub")
            }
        }
        /// stub (`DoraThread::add_to_remset`; never executed here)
        pub fn get_swiper(_rt: &Runtime) -> &Swiper {
            unreachable!("c09_realwait: Swiper is a stub")
        }
    }
}

// ------------------------------------------------------------------------------------------------
// mirror stand-in
pub mod mirror {
    use crate::gc::Address;
    use crate::runtime::Runtime;
    use std::ops::{Deref, DerefMut};

    /// Object header: one word, as in the real runtime; only `address()` is used (COPY of the real method:
    /// the address of an object is the address of its header).
    #[repr(C)]
    pub struct Header {
        word: usize,
    }

    impl Header {
        pub fn new() -> Header {
            Header { word: 0 }
        }

        #[inline(always)]
        pub fn address(&self) -> Address {
            Address::from_ptr(self)
        }
    }

    #[repr(C)]
    pub struct Object {
        header: Header,
    }

    /// COPY of `dora_runtime::mirror::Ref`.
    #[repr(C)]
    pub struct Ref<T> {
        ptr: *const T,
    }

    unsafe impl<T> Send for Ref<T> {}
    unsafe impl<T> Sync for Ref<T> {}

    impl<T> Ref<T> {
        pub fn null() -> Ref<T> {
            Ref { ptr: std::ptr::null() }
        }

        pub fn cast<R>(&self) -> Ref<R> {
            Ref { ptr: self.ptr as *const R }
        }

        pub fn raw(&self) -> *const T {
            self.ptr
        }

        pub fn address(&self) -> Address {
            Address::from_ptr(self.ptr)
        }
    }

    impl<T> Copy for Ref<T> {}
    impl<T> Clone for Ref<T> {
        fn clone(&self) -> Ref<T> {
            *self
        }
    }

    impl<T> Deref for Ref<T> {
        type Target = T;

        fn deref(&self) -> &T {
            unsafe { &*self.ptr }
        }
    }

    impl<T> DerefMut for Ref<T> {
        fn deref_mut(&mut self) -> &mut T {
            unsafe { &mut *(self.ptr as *mut T) }
        }
    }

    impl<T> From<Address> for Ref<T> {
        fn from(a: Address) -> Ref<T> {
            Ref { ptr: a.to_ptr() }
        }
    }

    /// stub (`ManagedThread::alloc`; never executed here)
    pub fn alloc<S>(_rt: &Runtime, _shape: S) -> Ref<Object> {
        unreachable!("c09_realwait: mirror::alloc is a stub")
    }
}

// ------------------------------------------------------------------------------------------------
// handle stand-in
pub mod handle {
    use crate::gc::Address;
    use crate::mirror::Ref;
    use std::ops::{Deref, DerefMut};

    /// COPY of `dora_runtime::handle::Handle`: a pointer to a slot that holds the CURRENT address of the
    /// object; a (simulated) moving collection updates the slot, so `direct_ptr()` and `deref()` follow the
    /// object.  The real methods additionally `debug_assert!(current_thread().is_running())`; that is left
    /// out (under the shim it would be one more `load` of the thread-state byte per access).
    pub struct Handle<T>(*mut Ref<T>);

    unsafe impl<T> Send for Handle<T> {}
    unsafe impl<T> Sync for Handle<T> {}

    impl<T> Handle<T> {
        pub fn direct(self) -> Ref<T> {
            unsafe { *self.0 }
        }

        pub fn direct_ptr(self) -> Address {
            unsafe { *self.0 }.address()
        }

        pub fn location(&self) -> Address {
            Address::from_ptr(self.0)
        }

        pub fn from_address(location: Address) -> Handle<T> {
            Handle(location.to_mut_ptr())
        }

        pub fn cast<R>(self) -> Handle<R> {
            Handle(self.0 as *mut Ref<R>)
        }
    }

    impl<T> Deref for Handle<T> {
        type Target = T;

        fn deref(&self) -> &T {
            unsafe { &*self.0 }.deref()
        }
    }

    impl<T> DerefMut for Handle<T> {
        fn deref_mut(&mut self) -> &mut T {
            unsafe { &mut *self.0 }.deref_mut()
        }
    }

    impl<T> Copy for Handle<T> {}
    impl<T> Clone for Handle<T> {
        fn clone(&self) -> Handle<T> {
            *self
        }
    }

    /// stub: a `DoraThread` owns one; nothing here allocates handles from it.
    pub struct HandleMemory;

    impl HandleMemory {
        pub fn new() -> HandleMemory {
            HandleMemory
        }
    }
}

// ------------------------------------------------------------------------------------------------
// stack stand-in
pub mod stack {
    /// the real struct (dora-runtime has an identical `#[repr(C)]` one in stack.rs); only used as a pointer type
    pub use dora_compiler::DoraToNativeInfo;
}

// ------------------------------------------------------------------------------------------------
// runtime stand-in
pub mod runtime {
    use crate::gc::Address;
    use crate::threads::Threads;
    use crate::waitlists::WaitLists;
    use std::sync::LazyLock;
    use std::sync::atomic::{AtomicPtr, AtomicUsize, Ordering};

    pub struct Shape;

    pub struct KnownElements;

    impl KnownElements {
        /// stub (`ManagedThread::alloc`; never executed here)
        pub fn thread_shape(&self) -> &Shape {
            unreachable!("c09_realwait: KnownElements is a stub")
        }
    }

    /// What the two files use of `Runtime`: `threads` (the REAL `Threads`, incl. the real `Barrier`),
    /// `wait_lists` (the REAL `WaitLists`), `gc_epoch()`, `shape_base()`, `known.thread_shape()`.
    /// `threads` / `wait_lists` are created on first use (they contain shim objects, which exist only
    /// inside a scheduler run; the hash-map subcommands never touch them).
    /// The epoch is a plain std atomic: reading it is no scheduling point.
    pub struct Runtime {
        pub threads: LazyLock<Threads>,
        pub wait_lists: LazyLock<WaitLists>,
        pub known: KnownElements,
        epoch: AtomicUsize,
    }

    impl Runtime {
        pub fn new() -> Runtime {
            Runtime {
                threads: LazyLock::new(Threads::new),
                wait_lists: LazyLock::new(WaitLists::new),
                known: KnownElements,
                epoch: AtomicUsize::new(0),
            }
        }

        pub fn gc_epoch(&self) -> usize {
            self.epoch.load(Ordering::Relaxed)
        }

        /// what a collection does at its end (`Gc::collect_garbage`: `epoch.fetch_add(1)`)
        pub fn verif_bump_epoch(&self) {
            self.epoch.fetch_add(1, Ordering::Relaxed);
        }

        pub fn shape_base(&self) -> Address {
            Address::null()
        }
    }

    static CURRENT: AtomicPtr<Runtime> = AtomicPtr::new(std::ptr::null_mut());

    pub fn get_runtime() -> &'static Runtime {
        let p = CURRENT.load(Ordering::SeqCst);
        debug_assert!(!p.is_null());
        unsafe { &*p }
    }

    /// Install a fresh `Runtime` as the one `get_runtime()` returns (runs are sequential).  The previous one
    /// is leaked on purpose if `free_old` is false (threads of an aborted run may still hold references).
    pub fn verif_install_runtime(free_old: bool) -> &'static Runtime {
        let new = Box::into_raw(Box::new(Runtime::new()));
        let old = CURRENT.swap(new, Ordering::SeqCst);
        if free_old && !old.is_null() {
            unsafe { drop(Box::from_raw(old)) };
        }
        unsafe { &*new }
    }
}

// ------------------------------------------------------------------------------------------------
// the real threads.rs
pub mod threads {
    mod std {
        pub use ::std::*;
        pub mod sync {
            pub use ::std::sync::*;
            pub mod atomic {
                pub use ::parking_lot::{AtomicBool, AtomicI32, AtomicU8, AtomicUsize, Ordering};
            }
        }
    }
    use ::std::mem::offset_of;

    include!("/repo/dora-runtime/src/threads.rs");

    // ---- accessors for the harness (same module as the file's private items) ----

    /// shim object ids of one `DoraThread`
    #[derive(Clone, Copy, Debug)]
    pub struct VerifThreadIds {
        pub state: u32,
        pub running: u32,
        pub cv_stopped: u32,
        pub blocking: u32,
        pub cv_blocking: u32,
    }

    impl DoraThread {
        pub fn verif_ids(&self) -> VerifThreadIds {
            VerifThreadIds {
                state: self.tld.state.id(),
                running: self.join_data.running.id(),
                cv_stopped: self.join_data.cv_stopped.id(),
                blocking: self.blocking_data.blocking.id(),
                cv_blocking: self.blocking_data.cv_blocking.id(),
            }
        }

        /// thread-state byte, read without event or scheduling point (oracle only)
        pub fn verif_state_peek(&self) -> u8 {
            self.tld.state.peek()
        }

        /// (blocking flag, has a successor) — takes the `blocking` mutex: a shim operation, so only the
        /// orchestrating thread calls it (at the end of a run)
        pub fn verif_blocking(&self) -> (bool, bool) {
            let data = self.blocking_data.blocking.lock();
            (data.0, !data.1.is_null())
        }

        /// `join_data.running` — a shim operation, see `verif_blocking`
        pub fn verif_running(&self) -> bool {
            *self.join_data.running.lock()
        }
    }
}

// ------------------------------------------------------------------------------------------------
// the real waitlists.rs
pub mod waitlists {
    mod std {
        pub use ::std::*;
        pub mod sync {
            pub use ::std::sync::*;
            pub mod atomic {
                pub use ::parking_lot::{AtomicBool, AtomicI32, AtomicU8, AtomicUsize, Ordering};
            }
        }
    }

    include!("/repo/dora-runtime/src/runtime/waitlists.rs");

    // ---- accessors for the harness (same module as the file's private items) ----

    impl ManagedMutex {
        /// a fresh object `Mutex(data = AtomicInt32::new(UNLOCKED), …)`: header + lock word 0
        pub fn verif_new() -> ManagedMutex {
            ManagedMutex { header: crate::mirror::Header::new(), state: AtomicI32::new(0) }
        }
        /// the lock word (`Mutex.data`)
        pub fn verif_state(&self) -> &AtomicI32 {
            &self.state
        }
    }

    impl ManagedCondition {
        /// a fresh object `Condition(waiters = AtomicInt32::new(0))`
        pub fn verif_new() -> ManagedCondition {
            ManagedCondition { header: crate::mirror::Header::new(), state: AtomicI32::new(0) }
        }
        /// the waiters word (`Condition.waiters`)
        pub fn verif_state(&self) -> &AtomicI32 {
            &self.state
        }
    }

    impl WaitLists {
        /// shim id of the table mutex
        pub fn verif_data_id(&self) -> u32 {
            self.data.id()
        }

        /// number of live keys in the table — a shim operation (locks the table)
        pub fn verif_entries(&self) -> usize {
            self.data.lock().entries
        }
    }

    /// value type of the hash-map correspondence
    #[derive(Clone, Default)]
    pub struct Val(pub u64);

    /// The real `ObjectHashMap<Val>` with its private operations made callable.
    pub struct VerifMap(ObjectHashMap<Val>);

    impl VerifMap {
        pub fn new() -> VerifMap {
            VerifMap(ObjectHashMap::new())
        }
        pub fn get(&mut self, key: usize) -> Option<u64> {
            self.0.get(Address::from(key)).map(|v| v.0)
        }
        pub fn insert(&mut self, key: usize, val: u64) {
            self.0.insert(Address::from(key), Val(val))
        }
        pub fn remove(&mut self, key: usize) -> Option<u64> {
            self.0.remove(Address::from(key)).map(|v| v.0)
        }
        pub fn visit_roots<F: FnMut(Slot)>(&mut self, fct: F) {
            self.0.visit_roots(fct)
        }
        /// (capacity, entries, tombstones = slots whose key == DELETED, the map's own `deleted` counter)
        pub fn summary(&self) -> (usize, usize, usize, usize) {
            let tomb = self.0.data.iter().filter(|e| e.key.to_usize() == DELETED).count();
            (self.0.capacity, self.0.entries, tomb, self.0.deleted)
        }
        /// the table's own idea of the epoch it was built in
        pub fn gc_epoch(&self) -> usize {
            self.0.gc_epoch
        }
    }
}
