//! Shared helpers for the correspondence harness: deterministic PRNG, hex, line protocol I/O.
use std::io::{BufRead, Write};

/// splitmix64 — every random choice of a harness derives from one of these, seeded by VERIF_SEED.
#[derive(Clone)]
pub struct Rng(pub u64);

impl Rng {
    pub fn from_env() -> Rng {
        let s = std::env::var("VERIF_SEED").ok().and_then(|v| v.parse::<u64>().ok()).unwrap_or(1);
        Rng(s.wrapping_mul(0x9E3779B97F4A7C15) ^ 0xD1B54A32D192ED03)
    }
    pub fn next(&mut self) -> u64 {
        self.0 = self.0.wrapping_add(0x9E3779B97F4A7C15);
        let mut z = self.0;
        z = (z ^ (z >> 30)).wrapping_mul(0xBF58476D1CE4E5B9);
        z = (z ^ (z >> 27)).wrapping_mul(0x94D049BB133111EB);
        z ^ (z >> 31)
    }
    pub fn below(&mut self, n: u64) -> u64 {
        if n == 0 { 0 } else { self.next() % n }
    }
    pub fn range(&mut self, lo: i64, hi: i64) -> i64 {
        lo + (self.below((hi - lo + 1) as u64) as i64)
    }
    pub fn chance(&mut self, num: u64, den: u64) -> bool {
        self.below(den) < num
    }
    pub fn pickv<'a, T>(&mut self, xs: &'a [T]) -> &'a T {
        &xs[self.below(xs.len() as u64) as usize]
    }
    pub fn pick<'a, T: ?Sized>(&mut self, xs: &'a [&'a T]) -> &'a T {
        xs[self.below(xs.len() as u64) as usize]
    }
}

pub fn hex(bytes: &[u8]) -> String {
    let mut s = String::with_capacity(bytes.len() * 2);
    for b in bytes {
        s.push_str(&format!("{:02x}", b));
    }
    if s.is_empty() { "-".to_string() } else { s }
}

pub fn unhex(s: &str) -> Vec<u8> {
    if s == "-" {
        return Vec::new();
    }
    let b = s.as_bytes();
    let mut out = Vec::with_capacity(b.len() / 2);
    let mut i = 0;
    while i + 1 < b.len() {
        let h = (b[i] as char).to_digit(16).unwrap() as u8;
        let l = (b[i + 1] as char).to_digit(16).unwrap() as u8;
        out.push((h << 4) | l);
        i += 2;
    }
    out
}

/// Run `f` on every request line of stdin (or of the file given), print one response line each.
/// A panic inside `f` becomes the response `!panic <first line of the message>`.
pub fn serve(path: Option<&str>, f: &mut dyn FnMut(&str) -> String) {
    std::panic::set_hook(Box::new(|_| {}));
    let input: Box<dyn BufRead> = match path {
        Some(p) => Box::new(std::io::BufReader::new(std::fs::File::open(p).expect("open request file"))),
        None => Box::new(std::io::BufReader::new(std::io::stdin())),
    };
    let stdout = std::io::stdout();
    let mut out = std::io::BufWriter::new(stdout.lock());
    for line in input.lines() {
        let line = line.expect("read line");
        let l = line.trim_end_matches(['\n', '\r']);
        if l.is_empty() {
            continue;
        }
        let resp = guarded(&mut || f(l));
        writeln!(out, "{}", resp).unwrap();
    }
    out.flush().unwrap();
}

/// Run a closure; a panic becomes `!panic <first line of the message>`.
pub fn guarded(f: &mut dyn FnMut() -> String) -> String {
    match std::panic::catch_unwind(std::panic::AssertUnwindSafe(|| f())) {
        Ok(s) => s,
        Err(e) => {
            let msg = if let Some(s) = e.downcast_ref::<String>() {
                s.clone()
            } else if let Some(s) = e.downcast_ref::<&str>() {
                s.to_string()
            } else {
                "?".to_string()
            };
            format!("!panic {}", msg.lines().next().unwrap_or(""))
        }
    }
}
