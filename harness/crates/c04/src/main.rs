fn main() { let _ = c04_realstw::runtime::get_runtime; }
