//! C04 harness: the REAL stop-the-world protocol (safepoint.rs + threads.rs of /repo, compiled unmodified
//! in `c04_realstw`) driven by managed-thread scripts under the deterministic scheduler of `verif_sync_shim`.
//!
//!   h_c04 run <quick|thorough> <outdir> [corpus-file]
//!        explores schedules (corpus first, then DFS with a preemption bound per built-in scenario, then
//!        seeded random ones over random scenarios); writes, line-aligned, one line per DISTINCT trace:
//!          <outdir>/traces.req     request for the Lean driver drv_c04 (the linearised event trace)
//!          <outdir>/expected.resp  what drv_c04 must answer (computed from the real objects' final values)
//!          <outdir>/sched.txt      `<scenario> <spurious budget> <choice list>`  = the replay of that trace
//!        and <outdir>/violations.jsonl (oracle failures on the real code); prints a JSON summary.
//!   h_c04 replay <scenario> <spurious budget> <choice list|->
//!        runs exactly one schedule; prints request line, expected response, status, oracle verdicts.
//!
//! scenario syntax:  script0/script1/…   script = ops separated by `.`, `-` = empty script
//!   shim thread 0 (the Dora main thread, registered like `execute_on_main`) runs script 0; `c<j>` spawns a
//!   child running script j (each j ≥ 1 at most once); 1-5 scripts (5 only in the thorough tier's built-in and
//!   random scenarios; `replay` / `dfs` / corpus lines accept them in any tier).  Every thread ends with the exit sequence
//!   (`remove_current_thread`).  ops (what a managed thread does between two safepoint polls):
//!     t      touch the managed heap (`fadd H`) — legal in the mutator region only
//!     p      safepoint poll: load the own state byte, `safepoint_slow()` if it is not Running
//!     n      native call: `parked_scope(|| yield)`
//!     s, s2  `stop_the_world(rt, op)`, the operation writes the heap once / twice (`store H`)
//!     c<j>   spawn: `DoraThread::new(rt, Parked)`, `add_thread`, OS spawn; child: `init_current_thread`, `unpark`
//!   h_c04 dfs <scenario> <preemption bound> <spurious budget> <cap>
//!        size / verdicts of one bounded DFS (for choosing the caps of the built-in scenarios)
//!
//! Trace: every shim event after `add_main_thread` (the model's initial state), object ids mapped to roles
//! (see lean/Drivers/C04.lean); `start` / `exit` / `join` of the scheduler are dropped, `spawn` is kept.
//! `safepoint_slow` is `extern "C"`, so a thread inside it must never be unwound (the process would abort):
//! the call is bracketed with `shim::set_no_unwind`, and a failing assert below it is turned into
//! `Status::Panic` by the panic hook (`shim::fail_current_thread`) — such threads are leaked, which is why
//! exploration stops after MAX_VIOLATING_SCHEDULES and the process leaves through `exit`.
//! Every random choice derives from VERIF_SEED.
use c04_realstw::runtime::{clear_runtime, get_runtime, set_runtime, Runtime};
use c04_realstw::safepoint::{safepoint_slow, stop_the_world};
use c04_realstw::threads::{current_thread, deinit_current_thread, init_current_thread, parked_scope, DoraThread};
use dora_compiler::ThreadState;
use hutil::Rng;
use std::cell::Cell;
use std::collections::{BTreeMap, BTreeSet, HashSet};
use std::io::Write;
use std::sync::atomic::{AtomicBool, AtomicUsize as StdAtomicUsize, Ordering as O};
use std::sync::{Arc, Mutex as StdMutex};
use verif_sync_shim as shim;
use verif_sync_shim::explore::{Dfs, Pct, Replay, Uniform};
use verif_sync_shim::{Chooser, Config, Event, Obj, RunResult, Status};

#[derive(Clone, Debug, PartialEq)]
enum Op {
    Touch,
    Poll,
    Native,
    Stw(usize),
    Spawn(usize),
}

#[derive(Clone, Debug)]
struct Scenario {
    scripts: Vec<Vec<Op>>,
}

impl Scenario {
    fn parse(s: &str) -> Result<Scenario, String> {
        let mut scripts = Vec::new();
        for txt in s.split('/') {
            let mut sc = Vec::new();
            for a in txt.split('.') {
                if a.is_empty() || a == "-" {
                    continue;
                }
                sc.push(match a {
                    "t" => Op::Touch,
                    "p" => Op::Poll,
                    "n" => Op::Native,
                    "s" | "s1" => Op::Stw(1),
                    "s2" => Op::Stw(2),
                    _ if a.starts_with('c') => Op::Spawn(a[1..].parse().map_err(|_| format!("op {}", a))?),
                    _ => return Err(format!("op {}", a)),
                });
            }
            if sc.len() > 4 {
                return Err("more than 4 ops in a script".into());
            }
            scripts.push(sc);
        }
        let n = scripts.len();
        if n == 0 || n > 5 {
            return Err("1-5 threads".into());
        }
        let mut seen = vec![false; n];
        for sc in &scripts {
            for op in sc {
                if let Op::Spawn(j) = op {
                    if *j == 0 || *j >= n || seen[*j] {
                        return Err(format!("c{}: no such script, or spawned twice", j));
                    }
                    seen[*j] = true;
                }
            }
        }
        Ok(Scenario { scripts })
    }

    fn show(&self) -> String {
        self.scripts
            .iter()
            .map(|sc| {
                if sc.is_empty() {
                    "-".to_string()
                } else {
                    sc.iter()
                        .map(|op| match op {
                            Op::Touch => "t".to_string(),
                            Op::Poll => "p".to_string(),
                            Op::Native => "n".to_string(),
                            Op::Stw(1) => "s".to_string(),
                            Op::Stw(k) => format!("s{}", k),
                            Op::Spawn(j) => format!("c{}", j),
                        })
                        .collect::<Vec<_>>()
                        .join(".")
                }
            })
            .collect::<Vec<_>>()
            .join("/")
    }

    /// scripts that some run can reach (0 and everything spawned transitively)
    fn reachable(&self) -> Vec<bool> {
        let mut r = vec![false; self.scripts.len()];
        let mut todo = vec![0usize];
        while let Some(k) = todo.pop() {
            if r[k] {
                continue;
            }
            r[k] = true;
            for op in &self.scripts[k] {
                if let Op::Spawn(j) = op {
                    todo.push(*j);
                }
            }
        }
        r
    }
}

/// One `DoraThread` created in this run.
#[derive(Clone, Debug)]
struct Reg {
    script: usize,
    ptr: usize,
    state_id: u32,
    shim_tid: Option<usize>,
}

#[derive(Default, Clone, Debug)]
struct Ids {
    h: u32,
    l: u32,
    j: u32,
    x: u32,
    rt: u32,
}

/// Oracle state and bookkeeping: plain std objects, invisible to the scheduler.
struct Shared {
    sc: Arc<Scenario>,
    /// by script index: the thread is in its mutator region (may touch the managed heap at any moment)
    mutating: Vec<AtomicBool>,
    finished: Vec<AtomicBool>,
    in_operation: AtomicBool,
    ops_done: StdAtomicUsize,
    dead: StdAtomicUsize,
    registry: StdMutex<Vec<Reg>>,
    ids: StdMutex<Ids>,
    violations: StdMutex<Vec<(String, String)>>,
}

impl Shared {
    fn violation(&self, key: &str, text: String) {
        let mut v = self.violations.lock().unwrap();
        if v.len() < 8 {
            v.push((key.to_string(), text));
        }
    }
    fn script_of(&self, p: *const DoraThread) -> Option<usize> {
        self.registry.lock().unwrap().iter().find(|r| r.ptr == p as usize).map(|r| r.script)
    }
    fn register(&self, script: usize, th: &Arc<DoraThread>, shim_tid: Option<usize>) {
        self.registry.lock().unwrap().push(Reg { script, ptr: Arc::as_ptr(th) as usize, state_id: th.tld.state.id(), shim_tid });
    }

    /// The property, checked on the real objects from inside the safepoint operation (no events: `peek`).
    fn check_world_stopped(&self, me: usize, threads: &[Arc<DoraThread>], whence: &str) {
        let cur = current_thread() as *const DoraThread;
        for t in threads {
            let p = Arc::as_ptr(t);
            if p == cur {
                continue;
            }
            let st = t.tld.state.peek();
            let who = self.script_of(p);
            if st != ThreadState::ParkedSafepointRequested as u8 && st != ThreadState::Safepoint as u8 {
                self.violation(
                    "oracle:state-during-operation",
                    format!("{} of the operation of thread(script {}): registered thread (script {:?}) has state byte {} (neither ParkedSafepointRequested nor Safepoint)", whence, me, who, st),
                );
            }
        }
        for (u, m) in self.mutating.iter().enumerate() {
            if u != me && m.load(O::SeqCst) {
                self.violation(
                    "oracle:mutating-during-operation",
                    format!("{} of the operation of thread(script {}): thread(script {}) is in its mutator region (running managed code)", whence, me, u),
                );
            }
        }
    }
}

thread_local! {
    /// the thread is inside `safepoint_slow` (an `extern "C"` frame: a panic must not unwind through it)
    static IN_EXTERN_C: Cell<bool> = const { Cell::new(false) };
}

/// `file:line` + message of the first panic of the current run (filled by the panic hook)
static LAST_PANIC: StdMutex<Option<(String, String)>> = StdMutex::new(None);

const K_POLL: Obj = Obj::User(0);
const K_NATIVE: Obj = Obj::User(1);
const K_STW: Obj = Obj::User(2);
const K_SPAWN: Obj = Obj::User(3);
const K_EXIT: Obj = Obj::User(4);
const K_INIT: Obj = Obj::User(99);

/// What one managed thread does. `k` = script index (oracle bookkeeping); the model's thread id is the shim tid.
fn run_script(k: usize, sh: &Arc<Shared>, h: &Arc<shim::AtomicUsize>) {
    let rt: &'static Runtime = get_runtime();
    let thread = current_thread();
    let me_tid = shim::current_tid();
    let mut children = Vec::new();
    for op in sh.sc.scripts[k].clone() {
        match op {
            Op::Touch => {
                h.fetch_add(1, shim::Ordering::SeqCst);
                // still the same scheduling step as the access itself
                if sh.in_operation.load(O::SeqCst) {
                    sh.violation(
                        "oracle:heap-touched-during-operation",
                        format!("thread {} (script {}) accessed the managed heap while a safepoint operation was running", me_tid, k),
                    );
                }
            }
            Op::Poll => {
                // the compiled poll: `cmp byte [tld+state], 0; jne slow`
                shim::mark("beg", K_POLL, None, None);
                let s = thread.tld.state.load(shim::Ordering::Relaxed);
                if s != 0 {
                    sh.mutating[k].store(false, O::SeqCst);
                    shim::set_no_unwind(true);
                    IN_EXTERN_C.with(|c| c.set(true));
                    safepoint_slow();
                    IN_EXTERN_C.with(|c| c.set(false));
                    shim::set_no_unwind(false);
                    sh.mutating[k].store(true, O::SeqCst);
                }
            }
            Op::Native => {
                shim::mark("beg", K_NATIVE, None, None);
                sh.mutating[k].store(false, O::SeqCst);
                parked_scope(|| shim::yield_now());
                sh.mutating[k].store(true, O::SeqCst);
            }
            Op::Stw(writes) => {
                shim::mark("beg", K_STW, None, None);
                sh.mutating[k].store(false, O::SeqCst);
                stop_the_world(rt, |threads| {
                    if sh.in_operation.swap(true, O::SeqCst) {
                        sh.violation("oracle:overlapping-operations", format!("thread {} (script {}) runs a safepoint operation while another one is running", me_tid, k));
                    }
                    sh.check_world_stopped(k, threads, "start");
                    for _ in 0..writes {
                        h.store(me_tid, shim::Ordering::SeqCst);
                        sh.check_world_stopped(k, threads, "inside");
                    }
                    sh.in_operation.store(false, O::SeqCst);
                    sh.ops_done.fetch_add(1, O::SeqCst);
                });
                sh.mutating[k].store(true, O::SeqCst);
            }
            Op::Spawn(j) => {
                // stdlib.rs `spawn_thread`
                shim::mark("beg", K_SPAWN, None, None);
                let th = DoraThread::new(rt, ThreadState::Parked);
                sh.register(j, &th, None);
                sh.mutating[k].store(false, O::SeqCst);
                rt.threads.add_thread(th.clone());
                sh.mutating[k].store(true, O::SeqCst);
                let (sh2, h2) = (sh.clone(), h.clone());
                let jh = shim::spawn(move || {
                    // the closure of `spawn_thread` + `thread_main`
                    let thread = init_current_thread(th);
                    thread.unpark(get_runtime());
                    sh2.mutating[j].store(true, O::SeqCst);
                    run_script(j, &sh2, &h2);
                });
                if let Some(r) = sh.registry.lock().unwrap().iter_mut().find(|r| r.script == j) {
                    r.shim_tid = Some(jh.tid());
                }
                children.push(jh);
            }
        }
    }
    // `thread_main` / `execute_on_main`: leave
    shim::mark("beg", K_EXIT, None, None);
    sh.mutating[k].store(false, O::SeqCst);
    rt.threads.remove_current_thread();
    sh.dead.fetch_add(1, O::SeqCst);
    deinit_current_thread();
    sh.finished[k].store(true, O::SeqCst);
    for c in children {
        let _ = c.join();
    }
}

struct Outcome {
    res: RunResult,
    request: String,
    expected: String,
    violations: Vec<(String, String)>,
    feats: Feats,
}

#[derive(Default, Clone)]
struct Feats {
    multi_op: bool,
    slow: bool,
    park_slow: usize,
    unpark_slow: usize,
    safepoint_slow: usize,
    wait_w: usize,
    wait_n: usize,
    requesters: usize,
    spawns: usize,
    swap_remove: usize,
    spurious: usize,
    single_shortcut: usize,
    ops: usize,
    events: usize,
}

fn run_one(sc: &Arc<Scenario>, spur: usize, chooser: Box<dyn Chooser>) -> Outcome {
    let cfg = Config { max_steps: 4000, spurious_budget: spur };
    let n = sc.scripts.len();
    let sh = Arc::new(Shared {
        sc: sc.clone(),
        mutating: (0..n).map(|_| AtomicBool::new(false)).collect(),
        finished: (0..n).map(|_| AtomicBool::new(false)).collect(),
        in_operation: AtomicBool::new(false),
        ops_done: StdAtomicUsize::new(0),
        dead: StdAtomicUsize::new(0),
        registry: StdMutex::new(Vec::new()),
        ids: StdMutex::new(Ids::default()),
        violations: StdMutex::new(Vec::new()),
    });
    *LAST_PANIC.lock().unwrap() = None;
    let sh2 = sh.clone();
    let res = shim::run(&cfg, chooser, move || {
        // construction order fixes the object ids: H, then Runtime::new (Threads::new: list mutex, cv_join,
        // next_thread_id, Barrier { data, cv_wakeup, cv_notify }; then Runtime::state)
        let h = Arc::new(shim::AtomicUsize::new(0));
        let _ = set_runtime(Runtime::new());
        let rt = get_runtime();
        *sh2.ids.lock().unwrap() = Ids { h: h.id(), l: rt.threads.threads.id(), j: rt.threads.cv_join.id(), x: rt.threads.next_thread_id.id(), rt: rt.state.id() };
        // runtime.rs `execute_on_main`
        let native_thread = DoraThread::new(rt, ThreadState::Running);
        sh2.register(0, &native_thread, Some(0));
        init_current_thread(native_thread.clone());
        rt.threads.add_main_thread(native_thread.clone());
        drop(native_thread);
        // the model's initial state is the state reached here
        shim::mark("init", K_INIT, None, None);
        sh2.mutating[0].store(true, O::SeqCst);
        run_script(0, &sh2, &h);
    });
    // no thread of this schedule is left (threads parked for ever inside `safepoint_slow` never wake up)
    drop(clear_runtime());

    let ids = sh.ids.lock().unwrap().clone();
    // model thread ids (= shim tids) of the DoraThreads; a thread created but not spawned before the run ended gets
    // a free slot (the Barrier's mutex / condvars are private fields: B = L + 1, W = J + 1, N = J + 2 by the
    // construction order in `Threads::new` / `Barrier::new`; `index_in_thread_list` = state id + 1 by the
    // construction order in `DoraThread::with_id`: … tld.concurrent_marking, tld.state, [join/blocking mutexes], index)
    let mut regs = sh.registry.lock().unwrap().clone();
    let mut used: BTreeSet<usize> = regs.iter().filter_map(|r| r.shim_tid).collect();
    for r in regs.iter_mut() {
        if r.shim_tid.is_none() {
            let free = (0..n).find(|u| !used.contains(u)).unwrap_or(n);
            used.insert(free);
            r.shim_tid = Some(free);
        }
    }
    let role = |o: Obj| -> String {
        match o {
            Obj::None => "-".to_string(),
            Obj::Atomic(i) if i == ids.h => "H".to_string(),
            Obj::Atomic(i) if i == ids.x => "X".to_string(),
            Obj::Atomic(i) if i == ids.rt => "RT".to_string(),
            Obj::Atomic(i) => {
                if let Some(r) = regs.iter().find(|r| r.state_id == i) {
                    format!("S{}", r.shim_tid.unwrap())
                } else if let Some(r) = regs.iter().find(|r| r.state_id + 1 == i) {
                    format!("I{}", r.shim_tid.unwrap())
                } else {
                    format!("?a{}", i)
                }
            }
            Obj::Mutex(i) if i == ids.l => "L".to_string(),
            Obj::Mutex(i) if i == ids.l + 1 => "B".to_string(),
            Obj::Mutex(i) => format!("?m{}", i),
            Obj::Condvar(i) if i == ids.j => "J".to_string(),
            Obj::Condvar(i) if i == ids.j + 1 => "W".to_string(),
            Obj::Condvar(i) if i == ids.j + 2 => "N".to_string(),
            Obj::Condvar(i) => format!("?c{}", i),
            Obj::Thread(u) => format!("T{}", u),
            Obj::User(k) => format!("K{}", k),
        }
    };
    // the events of `execute_on_main` up to `add_main_thread` precede the model's initial state; they must be
    // exactly: fadd X (DoraThread::new), load S0 (assert is_running), lock L, store I0, unlock L
    let init_pos = res.events.iter().position(|e| e.op == "init");
    let skip = match init_pos {
        Some(p) => {
            let pre: Vec<String> = res.events[..p].iter().filter(|e| e.op != "start").map(|e| format!("{},{},{}", e.tid, e.op, role(e.obj))).collect();
            if pre == ["0,fadd,X", "0,load,S0", "0,lock,L", "0,store,I0", "0,unlock,L"] { p + 1 } else { 0 }
        }
        None => 0,
    };
    let mut feats = Feats::default();
    let mut toks: Vec<String> = Vec::new();
    let num = |x: Option<u64>| x.map(|v| v.to_string()).unwrap_or_else(|| "-".to_string());
    let mut for_tids: BTreeSet<usize> = BTreeSet::new();
    let mut pending_multi = false;
    let mut last_op: BTreeMap<usize, String> = BTreeMap::new();
    let mut stw_completed = 0usize;
    for e in res.events.iter().skip(skip) {
        let Event { tid, op, obj, rd, wr } = e;
        if matches!(*op, "start" | "exit" | "join" | "init") {
            continue;
        }
        let r = role(*obj);
        match *op {
            "for" => {
                for_tids.insert(*tid);
                if r != format!("S{}", tid) {
                    pending_multi = true;
                }
            }
            "swap" if r == "RT" && *wr == Some(0) => {
                stw_completed += 1;
                if pending_multi {
                    feats.multi_op = true;
                } else {
                    feats.single_shortcut += 1;
                }
                pending_multi = false;
            }
            "cas" if wr.is_none() => {
                feats.slow = true;
                if *rd == Some(3) {
                    feats.unpark_slow += 1;
                }
            }
            "cas" if *rd == Some(2) && *wr == Some(3) => feats.park_slow += 1,
            "swap" if r.starts_with('S') && *wr == Some(4) => feats.safepoint_slow += 1,
            "wait" if r == "W" => {
                feats.slow = true;
                feats.wait_w += 1
            }
            "wait" if r == "N" => feats.wait_n += 1,
            "spawn" => feats.spawns += 1,
            "spur" => feats.spurious += 1,
            "store" if r.starts_with('I') && last_op.get(tid).map(|s| s.as_str()) == Some("load I") => feats.swap_remove += 1,
            _ => {}
        }
        last_op.insert(*tid, format!("{} {}", op, &r[..1.min(r.len())]));
        toks.push(format!("{},{},{},{},{}", tid, op, r, num(*rd), num(*wr)));
    }
    feats.requesters = for_tids.len();
    feats.ops = stw_completed;
    feats.events = toks.len();
    let request = format!("{} | {}", n, toks.join(" "));
    let at = |i: u32| res.atomics.get(i as usize).copied().unwrap_or(u64::MAX);
    let st: Vec<String> = (0..n)
        .map(|u| match regs.iter().find(|r| r.shim_tid == Some(u)) {
            Some(r) => at(r.state_id).to_string(),
            None => "1".to_string(),
        })
        .collect();
    let expected = format!("accept {} dead={} st={} stw={}", toks.len(), sh.dead.load(O::SeqCst), st.join(","), stw_completed);

    let mut violations = sh.violations.lock().unwrap().clone();
    match &res.status {
        Status::Completed => {
            let reach = sc.reachable();
            let want_ops: usize = sc.scripts.iter().enumerate().filter(|(k, _)| reach[*k]).map(|(_, s)| s.iter().filter(|o| matches!(o, Op::Stw(_))).count()).sum();
            let unfinished: Vec<usize> = (0..n).filter(|&k| reach[k] && !sh.finished[k].load(O::SeqCst)).collect();
            if !unfinished.is_empty() || sh.ops_done.load(O::SeqCst) != want_ops || stw_completed != want_ops {
                violations.push((
                    "oracle:lost-thread".into(),
                    format!("run completed but scripts {:?} did not finish / {} operations ran ({} completed) instead of {}", unfinished, sh.ops_done.load(O::SeqCst), stw_completed, want_ops),
                ));
            }
        }
        Status::Deadlock(who) => violations.push(("oracle:deadlock".into(), format!("deadlock: no runnable thread, unfinished: {:?}", who))),
        Status::Panic { tid, msg } => {
            let lp = LAST_PANIC.lock().unwrap().clone();
            let (site, m) = match lp {
                Some((site, m)) => (site, m),
                None => ("unknown".to_string(), msg.clone()),
            };
            violations.push((format!("oracle:assert-{}", site), format!("thread {} panicked at {}: {}", tid, site, m.lines().next().unwrap_or(""))))
        }
        Status::StepLimit => violations.push(("oracle:step-limit".into(), "run exceeded the step limit (a thread spins)".into())),
    }
    Outcome { res, request, expected, violations, feats }
}

fn jstr(s: &str) -> String {
    let mut o = String::from("\"");
    for c in s.chars() {
        match c {
            '"' => o.push_str("\\\""),
            '\\' => o.push_str("\\\\"),
            '\n' => o.push_str("\\n"),
            c if (c as u32) < 0x20 => o.push_str(&format!("\\u{:04x}", c as u32)),
            c => o.push(c),
        }
    }
    o.push('"');
    o
}

/// trailing zeros are dropped: a replay continues with "always choose 0" after the end of the list
fn choices_str(c: &[usize]) -> String {
    let c = &c[..c.iter().rposition(|&x| x != 0).map(|p| p + 1).unwrap_or(0)];
    if c.is_empty() {
        "-".to_string()
    } else {
        c.iter().map(|x| x.to_string()).collect::<Vec<_>>().join(",")
    }
}

fn parse_choices(s: &str) -> Vec<usize> {
    if s == "-" {
        Vec::new()
    } else {
        s.split(',').filter_map(|x| x.parse().ok()).collect()
    }
}

struct Sink {
    req: std::io::BufWriter<std::fs::File>,
    exp: std::io::BufWriter<std::fs::File>,
    sch: std::io::BufWriter<std::fs::File>,
    vio: std::io::BufWriter<std::fs::File>,
    seen: HashSet<u64>,
    schedules: usize,
    distinct: usize,
    nontrivial: usize,
    violations: usize,
    violating_schedules: usize,
    hist: BTreeMap<String, usize>,
    samples: Vec<String>,
    max_events: usize,
}

fn fnv(s: &str) -> u64 {
    let mut h: u64 = 0xcbf29ce484222325;
    for b in s.bytes() {
        h ^= b as u64;
        h = h.wrapping_mul(0x100000001b3);
    }
    h
}

/// An aborted run may leak OS threads (see `shim::set_no_unwind`), so exploration stops after this many
/// violating schedules — the check reports at most three per key anyway.
const MAX_VIOLATING_SCHEDULES: usize = 200;

impl Sink {
    fn bump(&mut self, k: &str, by: usize) {
        *self.hist.entry(k.to_string()).or_insert(0) += by;
    }
    fn full(&self) -> bool {
        self.violating_schedules >= MAX_VIOLATING_SCHEDULES
    }
    fn take(&mut self, sc: &Scenario, spur: usize, mode: &str, o: &Outcome) {
        self.schedules += 1;
        self.bump(&format!("schedules_{}", mode), 1);
        let sched = format!("{} {} {}", sc.show(), spur, choices_str(&o.res.choice_list()));
        if !o.violations.is_empty() {
            self.violating_schedules += 1;
        }
        for (key, text) in &o.violations {
            self.violations += 1;
            writeln!(
                self.vio,
                "{{\"key\":{},\"text\":{},\"scenario\":{},\"spurious_budget\":{},\"choices\":{},\"mode\":{},\"trace\":{}}}",
                jstr(key),
                jstr(text),
                jstr(&sc.show()),
                spur,
                jstr(&choices_str(&o.res.choice_list())),
                jstr(mode),
                jstr(&o.request)
            )
            .unwrap();
        }
        if !self.seen.insert(fnv(&o.request)) {
            return;
        }
        self.distinct += 1;
        let f = &o.feats;
        let nontrivial = f.multi_op && f.slow;
        if nontrivial {
            self.nontrivial += 1;
        }
        self.bump(&format!("traces_threads_{}", sc.scripts.len()), 1);
        let flags: [(&str, bool); 12] = [
            ("traces_with_multi_thread_operation", f.multi_op),
            ("traces_with_single_thread_shortcut", f.single_shortcut > 0),
            ("traces_with_park_slow", f.park_slow > 0),
            ("traces_with_unpark_slow_wait_in_unpark", f.unpark_slow > 0),
            ("traces_with_safepoint_slow", f.safepoint_slow > 0),
            ("traces_with_wait_on_cv_wakeup", f.wait_w > 0),
            ("traces_initiator_waited_on_cv_notify", f.wait_n > 0),
            ("traces_with_concurrent_requesters", f.requesters > 1),
            ("traces_with_spawn", f.spawns > 0),
            ("traces_with_swap_remove", f.swap_remove > 0),
            ("traces_with_spurious_wakeup", f.spurious > 0),
            ("traces_not_completed", o.res.status != Status::Completed),
        ];
        for (k, b) in flags {
            if b {
                self.bump(k, 1);
            }
        }
        self.bump("operations_completed", f.ops);
        self.bump("events", f.events);
        self.max_events = self.max_events.max(f.events);
        if nontrivial && self.samples.len() < 3 && f.park_slow + f.unpark_slow > 0 && f.events < 120 {
            self.samples.push(format!("{{\"schedule\":{},\"trace\":{},\"expected\":{}}}", jstr(&sched), jstr(&o.request), jstr(&o.expected)));
        }
        writeln!(self.req, "{}", o.request).unwrap();
        writeln!(self.exp, "{}", o.expected).unwrap();
        writeln!(self.sch, "{}", sched).unwrap();
    }
}

fn scenarios(tier: &str) -> Vec<(&'static str, usize, usize, usize)> {
    // (scenario, preemption bound, spurious budget, cap on DFS runs)
    let quick: Vec<(&'static str, usize, usize, usize)> = vec![
        // single-thread shortcut
        ("t.s.p.t", 2, 0, 100),
        // one requester + one poller
        ("c1.t.s.t/t.p.t.p", 2, 0, 6000),
        ("c1.s2/p.t.p", 2, 1, 6000),
        // requester vs. thread in a native call (park / unpark racing with fetch_or)
        ("c1.s.t/n.t.n", 2, 0, 6000),
        ("c1.s/n.p", 2, 1, 5000),
        // two concurrent requesters
        ("c1.s.t/s.t", 2, 0, 6000),
        ("c1.s.p/p.s.n", 1, 1, 4000),
        // stop-the-world racing with spawn (add_thread) and with exit (remove_current_thread)
        ("c1.c2.p/s.t/t", 2, 0, 6000),
        ("c1.p/c2.s/p.t", 1, 0, 4000),
        ("c1.c2/-/s.p", 2, 0, 6000),
        // a non-last thread leaves (swap-remove) while the third requests
        ("c1.c2.n/-/s", 1, 0, 6000),
        ("c1.c2.t/p/n.s", 1, 0, 4000),
        // 3-4 threads mixed
        ("c1.c2.s/p.n.t/t.p.s", 1, 0, 4000),
        ("c1.c2.c3/p/n/s", 1, 0, 8000),
        ("c1.s/c2.p/c3.n/s", 1, 0, 4000),
    ];
    if tier == "quick" {
        return quick;
    }
    let mut v = quick;
    v.extend(vec![
        ("c1.t.s.t/t.p.t.p", 3, 1, 25000),
        ("c1.s.t/n.t.n", 3, 1, 25000),
        ("c1.s.t/s.t", 3, 1, 25000),
        ("c1.c2.p/s.t/t", 3, 0, 25000),
        ("c1.c2/-/s.p", 3, 1, 25000),
        ("c1.c2.n/-/s", 2, 0, 25000),
        ("c1.c2.n/-/s", 3, 1, 25000),
        ("c1.c2.s/p.n.t/t.p.s", 2, 1, 25000),
        ("c1.c2.c3.s/p/n/s", 1, 0, 25000),
        ("c1.c2.c3/p/n/s", 2, 0, 25000),
        ("c1.s.n/c2.p.s/c3.n/s.p", 2, 0, 25000),
        ("c1.c2.c3.p/s.t.p/n.s/p.n.t", 2, 1, 25000),
        // 5 threads (main + 4 children), thorough tier only; sizes measured with `h_c04 dfs`
        // all five registered, then a non-last one leaves (swap-remove with 5 entries) while the last one requests
        // (136898 schedules: exhaustive within the bound)
        ("c1.c2.c3.c4/-/n.p/t.p/s", 1, 0, 140000),
        // spawn tree (main -> 1, 2; 1 -> 3; 3 -> 4), two concurrent requesters (main and the youngest thread)
        // (bound 1: 6969 schedules, exhaustive; bound 2 with a spurious wake-up: capped)
        ("c1.c2.s/c3.p/n.t/c4.p/s", 1, 0, 10000),
        ("c1.c2.s/c3.p/n.t/c4.p/s", 2, 1, 25000),
        // spawn chain main -> 1 -> 2 -> 3 -> 4: every add_thread / early exit races with the two requesters
        // (exhaustive would be 136885 schedules: capped)
        ("c1.p.s/c2.n/c3.p/c4.t/s2", 2, 0, 50000),
        // two requesters among the children (1 and 4), a child that leaves at once (3, a non-last entry), poll /
        // native call / heap access around them (59863 schedules: exhaustive within the bound)
        ("c1.c2.t/c3.p.s/c4.n/-/s.p", 1, 0, 60000),
    ]);
    v
}

/// `max_threads` = 4 in the quick tier (the generator then draws exactly what it always drew), 5 in the thorough tier
fn random_scenario(r: &mut Rng, max_threads: i64) -> Scenario {
    let n = r.range(1, max_threads) as usize;
    let mut scripts: Vec<Vec<Op>> = vec![Vec::new(); n];
    for j in 1..n {
        // the parent has a smaller index (no cycles); at most 4 ops per script
        let mut parent = r.below(j as u64) as usize;
        if scripts[parent].len() >= 3 {
            parent = (0..j).find(|&p| scripts[p].len() < 3).unwrap_or(0);
        }
        scripts[parent].push(Op::Spawn(j));
    }
    let mut any_stw = false;
    for k in 0..n {
        let extra = r.below((5 - scripts[k].len()) as u64) as usize;
        for _ in 0..extra {
            let op = match r.below(7) {
                0 | 1 => Op::Poll,
                2 => Op::Touch,
                3 => Op::Native,
                4 | 5 => {
                    any_stw = true;
                    Op::Stw(1 + r.below(2) as usize)
                }
                _ => Op::Poll,
            };
            // anywhere, also before / between the spawns
            let pos = r.below(scripts[k].len() as u64 + 1) as usize;
            scripts[k].insert(pos, op);
        }
    }
    if !any_stw {
        let k = r.below(n as u64) as usize;
        if scripts[k].len() >= 4 {
            let pos = scripts[k].iter().position(|o| !matches!(o, Op::Spawn(_)));
            match pos {
                Some(p) => scripts[k][p] = Op::Stw(1),
                None => scripts[n - 1].push(Op::Stw(1)),
            }
        } else {
            scripts[k].push(Op::Stw(1));
        }
    }
    Scenario { scripts }
}

fn install_panic_hook() {
    std::panic::set_hook(Box::new(|info| {
        let msg = if let Some(s) = info.payload().downcast_ref::<String>() {
            s.clone()
        } else if let Some(s) = info.payload().downcast_ref::<&str>() {
            s.to_string()
        } else {
            "?".to_string()
        };
        let site = match info.location() {
            Some(l) => format!("{}-{}", l.file().rsplit('/').next().unwrap_or("?"), l.line()),
            None => "unknown".to_string(),
        };
        {
            let mut lp = LAST_PANIC.lock().unwrap_or_else(|e| e.into_inner());
            if lp.is_none() {
                *lp = Some((site, msg.clone()));
            }
        }
        if IN_EXTERN_C.with(|c| c.get()) {
            // an assert of safepoint_slow / wait_in_safepoint / unpark failed below the `extern "C"` frame:
            // unwinding would abort the process; end the run here instead
            shim::fail_current_thread(msg);
        }
    }));
}

fn main() {
    install_panic_hook();
    if std::env::var("VERIF_NO_PIN").is_err() {
        shim::pin_to_current_cpu();
    }
    let args: Vec<String> = std::env::args().collect();
    match args.get(1).map(|s| s.as_str()) {
        Some("replay") if args.len() >= 5 => {
            let sc = Arc::new(Scenario::parse(&args[2]).expect("scenario"));
            let spur: usize = args[3].parse().expect("spurious budget");
            let ch = parse_choices(&args[4]);
            let o = run_one(&sc, spur, Box::new(Replay::new(ch)));
            println!("{}", o.request);
            println!("{}", o.expected);
            println!("status {:?} steps={} preemptions={} choices={}", o.res.status, o.res.steps, o.res.preemptions, choices_str(&o.res.choice_list()));
            for (k, t) in &o.violations {
                println!("violation {} {}", k, t);
            }
            if args.get(5).map(|s| s.as_str()) == Some("-v") {
                for e in &o.res.events {
                    println!("  {} {} {} {:?} {:?}", e.tid, e.op, e.obj, e.rd, e.wr);
                }
            }
        }
        Some("dfs") if args.len() >= 6 => {
            // h_c04 dfs <scenario> <preemption bound> <spurious budget> <cap>: size of one DFS (for choosing caps)
            let sc = Arc::new(Scenario::parse(&args[2]).expect("scenario"));
            let (bound, spur, cap): (usize, usize, usize) = (args[3].parse().unwrap(), args[4].parse().unwrap(), args[5].parse().unwrap());
            let mut dfs = Dfs::new(bound);
            let (mut runs, mut bad) = (0usize, 0usize);
            let mut seen = HashSet::new();
            let t0 = std::time::Instant::now();
            while let Some(ch) = dfs.next() {
                let o = run_one(&sc, spur, ch);
                dfs.record(&o.res);
                runs += 1;
                seen.insert(fnv(&o.request));
                if !o.violations.is_empty() {
                    bad += 1;
                    if bad <= 3 {
                        println!("violation {} {} [choices {}]", o.violations[0].0, o.violations[0].1, choices_str(&o.res.choice_list()));
                    }
                }
                if runs >= cap || bad >= 50 {
                    break;
                }
            }
            println!("schedules={} distinct={} violating={} exhaustive={} divergences={} seconds={:.1}", runs, seen.len(), bad, dfs.exhausted(), dfs.divergences, t0.elapsed().as_secs_f64());
            std::process::exit(0);
        }
        Some("run") if args.len() >= 4 => {
            let tier = args[2].clone();
            let out = args[3].clone();
            std::fs::create_dir_all(&out).unwrap();
            let f = |n: &str| std::io::BufWriter::new(std::fs::File::create(format!("{}/{}", out, n)).unwrap());
            let mut sink = Sink {
                req: f("traces.req"),
                exp: f("expected.resp"),
                sch: f("sched.txt"),
                vio: f("violations.jsonl"),
                seen: HashSet::new(),
                schedules: 0,
                distinct: 0,
                nontrivial: 0,
                violations: 0,
                violating_schedules: 0,
                hist: BTreeMap::new(),
                samples: Vec::new(),
                max_events: 0,
            };
            let t0 = std::time::Instant::now();
            // 1. corpus: schedules worth re-running first
            if let Some(cf) = args.get(4) {
                if let Ok(txt) = std::fs::read_to_string(cf) {
                    for line in txt.lines() {
                        let line = line.trim();
                        if line.is_empty() || line.starts_with('#') {
                            continue;
                        }
                        let p: Vec<&str> = line.split_whitespace().collect();
                        if p.len() != 3 {
                            continue;
                        }
                        if let Ok(sc) = Scenario::parse(p[0]) {
                            let sc = Arc::new(sc);
                            let spur = p[1].parse().unwrap_or(0);
                            let o = run_one(&sc, spur, Box::new(Replay::new(parse_choices(p[2]))));
                            sink.take(&sc, spur, "corpus", &o);
                        }
                    }
                }
            }
            // 2. bounded DFS per scenario
            let mut dfs_info = Vec::new();
            for (txt, bound, spur, cap) in scenarios(&tier) {
                let sc = Arc::new(Scenario::parse(txt).expect("built-in scenario"));
                let mut dfs = Dfs::new(bound);
                let mut runs = 0usize;
                let v0 = sink.violating_schedules;
                while let Some(ch) = dfs.next() {
                    let o = run_one(&sc, spur, ch);
                    dfs.record(&o.res);
                    sink.take(&sc, spur, "dfs", &o);
                    runs += 1;
                    if runs >= cap || sink.violating_schedules - v0 >= 20 || sink.full() {
                        break;
                    }
                }
                if dfs.divergences > 0 {
                    sink.bump("dfs_replay_divergences", dfs.divergences);
                }
                dfs_info.push(format!(
                    "{{\"scenario\":{},\"preemption_bound\":{},\"spurious_budget\":{},\"schedules\":{},\"exhaustive\":{}}}",
                    jstr(txt),
                    bound,
                    spur,
                    runs,
                    dfs.exhausted()
                ));
            }
            // 3. seeded random schedules over random scenarios (PCT-style and uniform)
            let mut rng = Rng::from_env();
            let nrand = if tier == "quick" { 2000 } else { 20000 };
            let max_threads = if tier == "quick" { 4 } else { 5 };
            for i in 0..nrand {
                if sink.full() {
                    break;
                }
                let sc = Arc::new(random_scenario(&mut rng, max_threads));
                let spur = rng.below(3) as usize;
                let seed = rng.next();
                let ch: Box<dyn Chooser> = if i % 2 == 0 {
                    Box::new(Pct::new(seed, 2 + (seed % 4) as usize, 60 + 40 * sc.scripts.len()))
                } else {
                    Box::new(Uniform::new(seed))
                };
                let o = run_one(&sc, spur, ch);
                sink.take(&sc, spur, if i % 2 == 0 { "pct" } else { "uniform" }, &o);
            }
            sink.req.flush().unwrap();
            sink.exp.flush().unwrap();
            sink.sch.flush().unwrap();
            sink.vio.flush().unwrap();
            let secs = t0.elapsed().as_secs_f64();
            let hist: Vec<String> = sink.hist.iter().map(|(k, v)| format!("{}:{}", jstr(k), v)).collect();
            println!(
                "{{\"schedules\":{},\"distinct_traces\":{},\"nontrivial\":{},\"violations\":{},\"violating_schedules\":{},\"cut_short\":{},\"max_events\":{},\"seconds\":{:.1},\"schedules_per_s\":{:.0},\"histogram\":{{{}}},\"dfs\":[{}],\"samples\":[{}]}}",
                sink.schedules,
                sink.distinct,
                sink.nontrivial,
                sink.violations,
                sink.violating_schedules,
                sink.full(),
                sink.max_events,
                secs,
                sink.schedules as f64 / secs.max(0.001),
                hist.join(","),
                dfs_info.join(","),
                sink.samples.join(",")
            );
            // leaked threads (parked for ever inside `safepoint_slow` of an aborted run) must not keep the process alive
            std::process::exit(0);
        }
        _ => {
            eprintln!("usage: h_c04 run <quick|thorough> <outdir> [corpus] | h_c04 replay <scenario> <spur> <choices|-> [-v]");
            std::process::exit(2);
        }
    }
}
