//! The real stop-the-world protocol of dora-runtime — `safepoint.rs` and `threads.rs`, byte for byte from
//! /repo — compiled against the sync shim.  No hook in /repo and no textual rewrite:
//!
//! * `use parking_lot::{Condvar, Mutex}` resolves to the shim because the dependency named `parking_lot`
//!   IS the shim (Cargo.toml);
//! * `use std::sync::atomic::{AtomicBool, AtomicU8, AtomicUsize, Ordering}` resolves to the shim because
//!   each of the two files is pulled in by `include!` into a module that has a LOCAL name `std`
//!   (`use crate::fakestd as std;`) — a module-local name shadows the extern prelude.  `fakestd` is all of
//!   the real `std` except `sync::atomic`, which is the shim's;
//! * `::dora_runtime::…` paths in the expansion of the real `#[dora_object]` resolve to this crate
//!   (`extern crate self as dora_runtime`);
//! * everything the two files import from the rest of dora-runtime (`crate::gc`, `crate::handle`,
//!   `crate::mirror`, `crate::runtime`, `crate::stack`) is a MINIMAL stand-in below.  None of it takes part
//!   in the protocol: TLABs, handles, remembered sets, shapes and the managed `Thread` object are inert
//!   here.  The only stand-in with behaviour is `Runtime::set_state`, transcribed from runtime.rs (a
//!   `swap` on `Runtime::state`, which is a shim atomic and hence an event `swap RT` in the trace).
//!   `ThreadState` is the real one (dora-compiler).
//!
//! The tie is loud, never silent: if threads.rs / safepoint.rs start to use anything the stand-ins do not
//! offer (or a std atomic type the shim lacks), this crate stops compiling and the check reports
//! `corr:build`.  If they use a shim object in a way the Lean model does not know, the model rejects the
//! trace (`corr:trace`).
//!
//! `VERIF_C04_SRC` (compile-time env, default `/repo/dora-runtime/src`) exists only for the mutation
//! sanity test, which points it at a scratch copy; the check never sets it.
#![allow(dead_code, unused_imports, unused_variables)]

#[macro_use]
extern crate memoffset;
extern crate self as dora_runtime;

/// All of `std`, except that `std::sync::atomic` is the shim's.
pub mod fakestd {
    pub use ::std::*;
    pub mod sync {
        pub use ::std::sync::*;
        pub mod atomic {
            pub use parking_lot::{AtomicBool, AtomicU8, AtomicUsize, Ordering};
        }
    }
}

macro_rules! real_src {
    ($f:literal) => {
        include!(concat!(env!("VERIF_C04_SRC"), "/", $f));
    };
}

pub mod threads {
    use crate::fakestd as std;
    real_src!("threads.rs");
}

pub mod safepoint {
    use crate::fakestd as std;
    real_src!("safepoint.rs");
}

// what `#[dora_object]` expands to refers to these at the crate root
pub use gc::Address;
pub use mirror::{Header, Ref};

// ------------------------------------------------------------------------------------------------
// stand-ins (inert)

pub mod gc {
    use crate::mirror::{Header, Ref};
    use crate::runtime::Runtime;

    pub const K: usize = 1024;

    #[derive(Copy, Clone, PartialEq, Eq, PartialOrd, Ord, Hash, Debug)]
    pub struct Address(usize);

    impl Address {
        pub fn from(v: usize) -> Address {
            Address(v)
        }
        pub fn null() -> Address {
            Address(0)
        }
        pub fn is_null(self) -> bool {
            self.0 == 0
        }
        pub fn to_usize(self) -> usize {
            self.0
        }
        pub fn from_ptr<T>(p: *const T) -> Address {
            Address(p as usize)
        }
        pub fn to_ptr<T>(self) -> *const T {
            self.0 as *const T
        }
        pub fn to_mut_ptr<T>(self) -> *mut T {
            self.0 as *mut T
        }
        pub fn offset(self, o: usize) -> Address {
            Address(self.0 + o)
        }
    }

    impl From<usize> for Address {
        fn from(v: usize) -> Address {
            Address(v)
        }
    }

    pub struct Region {
        pub start: Address,
        pub end: Address,
    }

    impl Region {
        pub fn new(start: Address, end: Address) -> Region {
            Region { start, end }
        }
    }

    /// never filled here (`DoraThread::add_to_remset` is not called by the protocol)
    pub struct WorklistSegment;

    impl WorklistSegment {
        pub fn new() -> WorklistSegment {
            WorklistSegment
        }
        pub fn push(&mut self, _a: Address) -> bool {
            true
        }
    }

    pub mod tlab {
        /// `remove_current_thread` fills the leaving thread's TLAB; no TLABs here.
        pub fn make_iterable_current(_rt: &crate::runtime::Runtime) {}
    }

    pub mod swiper {
        pub struct Swiper;
        impl Swiper {
            pub fn add_remset_segment(&self, _s: super::WorklistSegment) {}
        }
        static SWIPER: Swiper = Swiper;
        pub fn get_swiper(_rt: &crate::runtime::Runtime) -> &'static Swiper {
            &SWIPER
        }
    }

    pub fn write_barrier<T>(_h: &Header, _v: Ref<T>) {}
}

pub mod handle {
    pub struct HandleMemory;
    impl HandleMemory {
        pub fn new() -> HandleMemory {
            HandleMemory
        }
    }
}

pub mod stack {
    pub struct DoraToNativeInfo;
}

pub mod mirror {
    use crate::gc::Address;
    use crate::runtime::Runtime;

    #[repr(C)]
    pub struct Header {
        word: usize,
    }

    impl Header {
        pub fn address(&self) -> Address {
            Address::from_ptr(self as *const Header)
        }
    }

    pub struct Object;

    pub struct Ref<T> {
        ptr: *const T,
    }

    impl<T> Copy for Ref<T> {}
    impl<T> Clone for Ref<T> {
        fn clone(&self) -> Ref<T> {
            *self
        }
    }

    impl<T> Ref<T> {
        pub fn cast<R>(&self) -> Ref<R> {
            Ref { ptr: self.ptr as *const R }
        }
    }

    impl<T> ::std::ops::Deref for Ref<T> {
        type Target = T;
        fn deref(&self) -> &T {
            unsafe { &*self.ptr }
        }
    }

    impl<T> ::std::ops::DerefMut for Ref<T> {
        fn deref_mut(&mut self) -> &mut T {
            unsafe { &mut *(self.ptr as *mut T) }
        }
    }

    /// `ManagedThread::alloc` must compile; there is no managed heap here, so it must never run.
    pub fn alloc(_rt: &Runtime, _shape: Address) -> Ref<Object> {
        panic!("c04_realstw: mirror::alloc has no heap behind it")
    }
}

pub mod runtime {
    use crate::gc::Address;
    use crate::threads::Threads;
    use parking_lot::{AtomicU8, Ordering};

    /// runtime.rs: `pub enum RuntimeState { Running, Safepoint }` (`#[repr(u8)]`, num_enum conversions)
    #[derive(PartialEq, Eq, Copy, Clone, Debug)]
    #[repr(u8)]
    pub enum RuntimeState {
        Running,
        Safepoint,
    }

    impl RuntimeState {
        pub fn in_running(&self) -> bool {
            match self {
                RuntimeState::Running => true,
                _ => false,
            }
        }

        pub fn in_safepoint(&self) -> bool {
            match self {
                RuntimeState::Safepoint => true,
                _ => false,
            }
        }
    }

    impl From<RuntimeState> for u8 {
        fn from(s: RuntimeState) -> u8 {
            s as u8
        }
    }

    impl TryFrom<u8> for RuntimeState {
        type Error = ();
        fn try_from(v: u8) -> Result<RuntimeState, ()> {
            match v {
                0 => Ok(RuntimeState::Running),
                1 => Ok(RuntimeState::Safepoint),
                _ => Err(()),
            }
        }
    }

    pub struct KnownElements;

    impl KnownElements {
        pub fn thread_shape(&self) -> Address {
            Address::null()
        }
    }

    /// Only the fields safepoint.rs / threads.rs look at.  Field order = construction order of the shim
    /// objects: everything in `Threads::new()` first, then `state`.
    pub struct Runtime {
        pub threads: Threads,
        pub state: AtomicU8,
        pub known: KnownElements,
        shape_base: Address,
    }

    unsafe impl Sync for Runtime {}

    impl Runtime {
        /// must be called inside `verif_sync_shim::run` (creates shim objects)
        pub fn new() -> Box<Runtime> {
            Box::new(Runtime {
                threads: Threads::new(),
                state: AtomicU8::new(RuntimeState::Running.into()),
                known: KnownElements,
                shape_base: Address::null(),
            })
        }

        pub fn shape_base(&self) -> Address {
            self.shape_base
        }

        /// transcribed from runtime.rs `Runtime::set_state`
        pub fn set_state(&self, new_state: RuntimeState) -> RuntimeState {
            let old_state = self.state.swap(new_state.into(), Ordering::Relaxed);
            RuntimeState::try_from(old_state).expect("invalid state")
        }
    }

    static RUNTIME: ::std::sync::atomic::AtomicPtr<Runtime> = ::std::sync::atomic::AtomicPtr::new(::std::ptr::null_mut());

    /// Install the runtime of the next schedule; returns the previous one (the caller frees it once no
    /// thread of the previous schedule is left).
    pub fn set_runtime(rt: Box<Runtime>) -> Option<Box<Runtime>> {
        let old = RUNTIME.swap(Box::into_raw(rt), ::std::sync::atomic::Ordering::SeqCst);
        if old.is_null() { None } else { Some(unsafe { Box::from_raw(old) }) }
    }

    /// Uninstall (after a schedule, once `verif_sync_shim::run` has returned).
    pub fn clear_runtime() -> Option<Box<Runtime>> {
        let old = RUNTIME.swap(::std::ptr::null_mut(), ::std::sync::atomic::Ordering::SeqCst);
        if old.is_null() { None } else { Some(unsafe { Box::from_raw(old) }) }
    }

    pub fn get_runtime() -> &'static Runtime {
        let p = RUNTIME.load(::std::sync::atomic::Ordering::SeqCst);
        assert!(!p.is_null(), "c04_realstw: no runtime installed");
        unsafe { &*p }
    }
}
