// Where threads.rs / safepoint.rs come from: /repo, unless the mutation sanity test points
// VERIF_C04_SRC at a scratch copy (the check never sets it).
fn main() {
    let dir = std::env::var("VERIF_C04_SRC").unwrap_or_else(|_| "/repo/dora-runtime/src".to_string());
    println!("cargo:rustc-env=VERIF_C04_SRC={}", dir);
    println!("cargo:rerun-if-env-changed=VERIF_C04_SRC");
    println!("cargo:rerun-if-changed={}/threads.rs", dir);
    println!("cargo:rerun-if-changed={}/safepoint.rs", dir);
}
