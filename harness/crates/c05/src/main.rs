//! C05 harness: drives the REAL front end in-process exactly as `dora compile` does
//! (dora/src/driver/start.rs `compile_program`): `Sema::new` with the real stdlib, `check_program`,
//! and - only when no error was reported - `emit_program`, which ends in the bytecode verifier
//! (`dora_bytecode::verify_program`, panics on a malformed function).
//!
//!   h_c05 run [file]      answer requests, one response line per request line
//!   h_c05 gen <n>         prints nothing: the request files of this property are written by
//!                         gen/c05_mutants.py (programs and mutants come from the typed generator
//!                         gen/progs.py, every choice derived from VERIF_SEED)
//! requests (text as lower-case hex of its UTF-8 bytes):
//!   front <text>  -> ok warn=<w> fns=<functions with bytecode> verified
//!                  | errors <n> diag=<id>:<count>,...      (id = FNV-1a-32 of the descriptor's message template,
//!                                                           sorted; checks/c05.py maps it to the descriptor's name)
//!                  | !flag <success> <nerrors>              (`check_program`'s flag != absence of errors)
//!                  | !verifier <file>:<line> <message>      (panic inside dora-bytecode/src/verifier.rs)
//!                  | !panic <phase> <file>:<line> <message> (phase = sema | emit)
//!                  | !timeout
//!   dump <text>   -> dump <hex of the diagnostics text as `dora compile` prints it>
//! A stack overflow / abort kills the process; checks/c05.py sees the missing answer, records `!abort`
//! for that request and restarts the harness on the rest.
use dora_frontend::sema::{Sema, SemaCreationParams};
use hutil::{hex, unhex};
use std::cell::RefCell;
use std::collections::BTreeMap;
use std::io::{BufRead, Write};
use std::sync::mpsc;
use std::time::Duration;

const STACK: usize = 256 << 20;
const TIME_LIMIT_S: u64 = 60;

thread_local! {
    static PANIC_SITE: RefCell<String> = RefCell::new(String::new());
}

fn install_hook() {
    std::panic::set_hook(Box::new(|info| {
        let loc = info
            .location()
            .map(|l| {
                let f = l.file();
                let f = f.strip_prefix("/repo/").unwrap_or(f);
                format!("{}:{}", f, l.line())
            })
            .unwrap_or_else(|| "?:0".to_string());
        PANIC_SITE.with(|s| *s.borrow_mut() = loc);
    }));
}

/// Run a closure; a panic becomes `Err((site, first line of the message))`.
fn guarded<T>(f: impl FnOnce() -> T) -> Result<T, (String, String)> {
    match std::panic::catch_unwind(std::panic::AssertUnwindSafe(f)) {
        Ok(v) => Ok(v),
        Err(e) => {
            let msg = if let Some(s) = e.downcast_ref::<String>() {
                s.clone()
            } else if let Some(s) = e.downcast_ref::<&str>() {
                s.to_string()
            } else {
                "?".to_string()
            };
            let site = PANIC_SITE.with(|s| s.borrow().clone());
            let mut first = msg.lines().next().unwrap_or("").to_string();
            if first.len() > 160 {
                let mut cut = 160;
                while !first.is_char_boundary(cut) {
                    cut -= 1;
                }
                first.truncate(cut);
            }
            Err((site, first))
        }
    }
}

fn fnv32(s: &str) -> u32 {
    let mut h: u32 = 0x811c9dc5;
    for b in s.bytes() {
        h ^= b as u32;
        h = h.wrapping_mul(0x01000193);
    }
    h
}

/// `compile_program` of dora/src/driver/start.rs, with the diagnostics counted instead of printed
fn front_line(text: &str) -> String {
    let params = SemaCreationParams::new().set_program_content(text.to_string());
    let checked = guarded(|| {
        let mut sa = Sema::new(params);
        let success = dora_frontend::check_program(&mut sa);
        (sa, success)
    });
    let (sa, success) = match checked {
        Ok(x) => x,
        Err((site, msg)) => return format!("!panic sema {} {}", site, msg),
    };
    let (nerr, nwarn) = {
        let d = sa.diag.borrow();
        (d.errors().len(), d.warnings().len())
    };
    if success != (nerr == 0) {
        return format!("!flag {} {}", success, nerr);
    }
    if nerr > 0 {
        let mut hist: BTreeMap<u32, usize> = BTreeMap::new();
        for e in sa.diag.borrow().errors().iter() {
            *hist.entry(fnv32(e.desc.message)).or_insert(0) += 1;
        }
        let diag = hist.iter().map(|(k, v)| format!("{:08x}:{}", k, v)).collect::<Vec<_>>().join(",");
        return format!("errors {} diag={}", nerr, diag);
    }
    // no error: the driver emits the program; `emit_program` runs the bytecode verifier on it
    match guarded(move || dora_frontend::emit_program(sa)) {
        Ok(prog) => {
            let fns = prog.functions.iter().filter(|f| f.bytecode.is_some()).count();
            // once more, explicitly: the emitted program passes the verifier
            match guarded(|| dora_bytecode::verify_program(&prog)) {
                Ok(()) => format!("ok warn={} fns={} verified", nwarn, fns),
                Err((site, msg)) => format!("!verifier {} {}", site, msg),
            }
        }
        Err((site, msg)) => {
            if site.starts_with("dora-bytecode/src/verifier.rs") {
                format!("!verifier {} {}", site, msg)
            } else {
                format!("!panic emit {} {}", site, msg)
            }
        }
    }
}

/// Runs `f` in a worker thread with a large stack and a time limit.
fn in_worker(f: impl FnOnce() -> String + Send + 'static) -> String {
    let (tx, rx) = mpsc::channel();
    let h = std::thread::Builder::new().stack_size(STACK).spawn(move || {
        let r = match guarded(f) {
            Ok(s) => s,
            Err((site, msg)) => format!("!panic ? {} {}", site, msg),
        };
        let _ = tx.send(r);
    });
    let h = match h {
        Ok(h) => h,
        Err(_) => return "!nothread".to_string(),
    };
    match rx.recv_timeout(Duration::from_secs(TIME_LIMIT_S)) {
        Ok(s) => {
            let _ = h.join();
            s
        }
        Err(_) => "!timeout".to_string(),
    }
}

fn respond(line: &str) -> String {
    let p: Vec<&str> = line.split(' ').collect();
    if p.len() < 2 {
        return "!badreq".to_string();
    }
    let text = match String::from_utf8(unhex(p[1])) {
        Ok(t) => t,
        Err(_) => return "!notutf8".to_string(),
    };
    match p[0] {
        "front" => in_worker(move || front_line(&text)),
        "dump" => in_worker(move || {
            let params = SemaCreationParams::new().set_program_content(text);
            let mut sa = Sema::new(params);
            dora_frontend::check_program(&mut sa);
            let d = sa.diag.borrow_mut().dump_to_string(&sa, false);
            format!("dump {}", hex(d.as_bytes()))
        }),
        _ => "!badreq".to_string(),
    }
}

fn serve(path: Option<String>) {
    let input: Box<dyn BufRead> = match path {
        Some(p) => Box::new(std::io::BufReader::new(std::fs::File::open(p).expect("open request file"))),
        None => Box::new(std::io::BufReader::new(std::io::stdin())),
    };
    let stdout = std::io::stdout();
    let mut out = stdout.lock();
    for line in input.lines() {
        let line = line.expect("read line");
        let l = line.trim_end_matches(['\n', '\r']);
        if l.is_empty() || l.starts_with('#') {
            continue;
        }
        // unbuffered on purpose: if the process dies on a request, all earlier answers are out
        writeln!(out, "{}", respond(l)).unwrap();
        out.flush().unwrap();
    }
}

fn main() {
    install_hook();
    let args: Vec<String> = std::env::args().collect();
    match args.get(1).map(|s| s.as_str()) {
        Some("run") => serve(args.get(2).cloned()),
        Some("gen") => {
            eprintln!("h_c05: requests are generated by /verif/gen/c05_mutants.py (python3 gen/c05_mutants.py req <n>)");
        }
        _ => {
            eprintln!("usage: h_c05 run [file] | h_c05 gen <n>");
            std::process::exit(2);
        }
    }
}
