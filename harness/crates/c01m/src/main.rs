//! C01 micro-semantics harness (x86-64 only).
//!   h_c01m run [file]    answer each request line (fields separated by ` | `)
//!   h_c01m selftest      built-in cases, prints ok/mismatch lines, exit status 0 iff all pass
//!
//! requests (first field = `<kind> <tag>`; the tag is echoed as first token of the response):
//!   asm  <tag> | <instrs>                  -> `<tag> <hex>`   bytes of a fresh `AssemblerX64::new(false)`,
//!                                             `done` = int3, `call_trap` = call_rel32(0), `finalize(1).code()`
//!   exec <tag> | <instrs> | <r0>,…,<r15> | <cf><zf><sf><of><pf> | <addr>=<val>,…  or  -
//!                                          -> `<tag> <exit> <r0>,…,<r15> <cf><zf><sf><of><pf>`
//!        exit = done | trap:<low 32 bits of rdi, decimal> | de (#DE, state at the fault)
//!               | segv (guard: memory fault, state at the fault) | fall (guard: ran off the end of the list)
//!        numbers lower-case hex without 0x and without padding; register 4 (rsp) is echoed, never loaded
//!   real <tag> | <call>;<call>;…           -> `<tag> <hex>`   bytes of the REAL `MacroAssembler` (masm.rs + masm/x64.rs
//!                                             of dora-cannon-compiler, compiled unmodified via symlinks in src/):
//!                                             calls on `MacroAssembler::new()`, then `debug()` (int3), then `data()`
//!   errors: `<tag> !unsupported <what>` | `<tag> !badmem` | `<tag> !nomem` | `!panic <message>` (no tag: from hutil)
//!
//! instruction text: `;`-separated, `<AssemblerX64 method name> <args in the method's order>`; register = hardware
//! number 0..15, immediate = signed decimal, condition = hardware condition number 0..15, label = `L<n>`,
//! memory operand = three tokens `<base|-> <index*scale|-> <disp>`; pseudo: `bind L<n>`, `call_trap`, `done`.
#![allow(dead_code, unused_imports)]
#![cfg(all(target_arch = "x86_64", target_os = "linux"))]

// The REAL macro assembler: module `masm` is private in dora-cannon-compiler, so its two source files are compiled
// UNMODIFIED into this crate through symlinks: src/masm.rs -> /repo/dora-cannon-compiler/src/masm.rs and
// src/masm/x64.rs -> /repo/dora-cannon-compiler/src/masm/x64.rs (`include!` does not work: a `pub mod x64;` inside
// an included file is looked up next to the included file). `crate::masm::…` paths inside the files resolve here;
// the arm64 module is cfg'd out on this host.
mod masm;

use std::collections::HashMap;
use std::sync::atomic::{AtomicUsize, Ordering};

use dora_asm::Label as AsmLabel;
use dora_asm::x64::{Address, AssemblerX64, Condition, Immediate, Register, ScaleFactor};
use dora_asm::x64::{RAX, RDI, RSP};
use hutil::hex;

// ------------------------------------------------------------------------------------------------
// instruction text -> AssemblerX64 calls
// ------------------------------------------------------------------------------------------------

const CONDS: [Condition; 16] = [
    Condition::Overflow,
    Condition::NoOverflow,
    Condition::Below,
    Condition::AboveOrEqual,
    Condition::Equal,
    Condition::NotEqual,
    Condition::BelowOrEqual,
    Condition::Above,
    Condition::Sign,
    Condition::NoSign,
    Condition::Parity,
    Condition::NoParity,
    Condition::Less,
    Condition::GreaterOrEqual,
    Condition::LessOrEqual,
    Condition::Greater,
];

type R<T> = Result<T, String>;

fn unsup<T>(what: impl AsRef<str>) -> R<T> {
    Err(format!("!unsupported {}", what.as_ref().replace(' ', "_")))
}

/// What `done` / `call_trap` turn into, and whether the list is going to be executed.
enum Mode {
    /// `asm`: done = int3, call_trap = call_rel32(0)
    Bytes,
    /// `exec`: done = jmp exit_done, call_trap = jmp exit_trap; register 4 and backward jumps are refused
    Exec { exit_done: AsmLabel, exit_trap: AsmLabel },
}

struct Ops<'a> {
    name: &'a str,
    toks: std::str::SplitWhitespace<'a>,
    exec: bool,
}

impl<'a> Ops<'a> {
    fn next(&mut self) -> R<&'a str> {
        match self.toks.next() {
            Some(t) => Ok(t),
            None => unsup(format!("{}:missing-operand", self.name)),
        }
    }
    fn end(&mut self) -> R<()> {
        match self.toks.next() {
            None => Ok(()),
            Some(t) => unsup(format!("{}:extra-operand:{}", self.name, t)),
        }
    }
    fn reg_tok(&self, t: &str) -> R<Register> {
        match t.parse::<u8>() {
            Ok(n) if n < 16 => {
                if self.exec && n == 4 {
                    return unsup(format!("{}:rsp", self.name));
                }
                Ok(Register::new(n))
            }
            _ => unsup(format!("{}:register:{}", self.name, t)),
        }
    }
    fn reg(&mut self) -> R<Register> {
        let t = self.next()?;
        self.reg_tok(t)
    }
    fn imm(&mut self) -> R<Immediate> {
        let t = self.next()?;
        match t.parse::<i64>() {
            Ok(v) => Ok(Immediate(v)),
            Err(_) => unsup(format!("{}:immediate:{}", self.name, t)),
        }
    }
    fn cond(&mut self) -> R<Condition> {
        let t = self.next()?;
        match t.parse::<usize>() {
            Ok(n) if n < 16 => {
                debug_assert_eq!(CONDS[n].int() as usize, n);
                Ok(CONDS[n])
            }
            _ => unsup(format!("{}:condition:{}", self.name, t)),
        }
    }
    fn label_no(&mut self) -> R<u32> {
        let t = self.next()?;
        match t.strip_prefix('L').and_then(|d| d.parse::<u32>().ok()) {
            Some(n) if n < 4096 => Ok(n),
            _ => unsup(format!("{}:label:{}", self.name, t)),
        }
    }
    fn mem(&mut self) -> R<Address> {
        let b = self.next()?;
        let i = self.next()?;
        let d = self.next()?;
        let disp = match d.parse::<i32>() {
            Ok(v) => v,
            Err(_) => return unsup(format!("{}:disp:{}", self.name, d)),
        };
        let base = if b == "-" { None } else { Some(self.reg_tok(b)?) };
        let index = if i == "-" {
            None
        } else {
            let Some((r, s)) = i.split_once('*') else {
                return unsup(format!("{}:index:{}", self.name, i));
            };
            let f = match s {
                "1" => ScaleFactor::One,
                "2" => ScaleFactor::Two,
                "4" => ScaleFactor::Four,
                "8" => ScaleFactor::Eight,
                _ => return unsup(format!("{}:scale:{}", self.name, i)),
            };
            Some((self.reg_tok(r)?, f))
        };
        match (base, index) {
            (Some(b), None) => Ok(Address::offset(b, disp)),
            (None, Some((r, f))) => Ok(Address::index(r, f, disp)),
            (Some(b), Some((r, f))) => Ok(Address::array(b, r, f, disp)),
            (None, None) => unsup(format!("{}:absolute-address", self.name)),
        }
    }
}

struct Labels {
    map: HashMap<u32, AsmLabel>,
}

impl Labels {
    fn get(&mut self, asm: &mut AssemblerX64, n: u32) -> AsmLabel {
        *self.map.entry(n).or_insert_with(|| asm.create_label())
    }
}

/// Emit the instruction list into `asm`. Panics of the encoder (immediate out of range, label bound twice, …)
/// propagate and become `!panic` in hutil::serve.
fn emit_instrs(asm: &mut AssemblerX64, text: &str, mode: &Mode) -> R<()> {
    let mut labels = Labels { map: HashMap::new() };
    let exec = matches!(mode, Mode::Exec { .. });
    for ins in text.split(';') {
        let mut toks = ins.split_whitespace();
        let Some(name) = toks.next() else { continue };
        let mut o = Ops { name, toks, exec };

        macro_rules! rr {
            ($m:ident) => {{
                let a = o.reg()?;
                let b = o.reg()?;
                o.end()?;
                asm.$m(a, b)
            }};
        }
        macro_rules! ri {
            ($m:ident) => {{
                let a = o.reg()?;
                let b = o.imm()?;
                o.end()?;
                asm.$m(a, b)
            }};
        }
        macro_rules! r1 {
            ($m:ident) => {{
                let a = o.reg()?;
                o.end()?;
                asm.$m(a)
            }};
        }
        macro_rules! r0 {
            ($m:ident) => {{
                o.end()?;
                asm.$m()
            }};
        }
        macro_rules! ra {
            ($m:ident) => {{
                let a = o.reg()?;
                let b = o.mem()?;
                o.end()?;
                asm.$m(a, b)
            }};
        }
        macro_rules! crr {
            ($m:ident) => {{
                let c = o.cond()?;
                let a = o.reg()?;
                let b = o.reg()?;
                o.end()?;
                asm.$m(c, a, b)
            }};
        }

        match name {
            "addq_rr" => rr!(addq_rr),
            "addl_rr" => rr!(addl_rr),
            "addq_ri" => ri!(addq_ri),
            "addl_ri" => ri!(addl_ri),
            "subq_rr" => rr!(subq_rr),
            "subl_rr" => rr!(subl_rr),
            "subq_ri" => ri!(subq_ri),
            "imulq_rr" => rr!(imulq_rr),
            "imull_rr" => rr!(imull_rr),
            "negq" => r1!(negq),
            "negl" => r1!(negl),
            "notq" => r1!(notq),
            "notl" => r1!(notl),
            "andq_rr" => rr!(andq_rr),
            "andl_rr" => rr!(andl_rr),
            "andq_ri" => ri!(andq_ri),
            "orq_rr" => rr!(orq_rr),
            "orl_rr" => rr!(orl_rr),
            "xorq_rr" => rr!(xorq_rr),
            "xorl_rr" => rr!(xorl_rr),
            "xorl_ri" => ri!(xorl_ri),
            "cmpq_rr" => rr!(cmpq_rr),
            "cmpl_rr" => rr!(cmpl_rr),
            "cmpb_rr" => rr!(cmpb_rr),
            "cmpq_ri" => ri!(cmpq_ri),
            "cmpl_ri" => ri!(cmpl_ri),
            "testq_rr" => rr!(testq_rr),
            "testl_rr" => rr!(testl_rr),
            "testb_rr" => rr!(testb_rr),
            "movq_rr" => rr!(movq_rr),
            "movl_rr" => rr!(movl_rr),
            "movq_ri" => ri!(movq_ri),
            "movl_ri" => ri!(movl_ri),
            "movsxlq_rr" => rr!(movsxlq_rr),
            "movzxb_rr" => rr!(movzxb_rr),
            "movq_ra" => ra!(movq_ra),
            "lea" => ra!(lea),
            "cdq" => r0!(cdq),
            "cqo" => r0!(cqo),
            "idivq_r" => r1!(idivq_r),
            "idivl_r" => r1!(idivl_r),
            "shlq_r" => r1!(shlq_r),
            "shll_r" => r1!(shll_r),
            "shrq_r" => r1!(shrq_r),
            "shrl_r" => r1!(shrl_r),
            "sarq_r" => r1!(sarq_r),
            "sarl_r" => r1!(sarl_r),
            "shlq_ri" => ri!(shlq_ri),
            "shll_ri" => ri!(shll_ri),
            "shrq_ri" => ri!(shrq_ri),
            "shrl_ri" => ri!(shrl_ri),
            "sarq_ri" => ri!(sarq_ri),
            "sarl_ri" => ri!(sarl_ri),
            "setcc_r" => {
                let c = o.cond()?;
                let a = o.reg()?;
                o.end()?;
                asm.setcc_r(c, a)
            }
            "cmovl" => crr!(cmovl),
            "cmovq" => crr!(cmovq),
            "jcc" => {
                let c = o.cond()?;
                let n = o.label_no()?;
                o.end()?;
                let l = labels.get(asm, n);
                if exec && asm.offset(l).is_some() {
                    return unsup("jcc:backward-jump");
                }
                asm.jcc(c, l)
            }
            "jmp" => {
                let n = o.label_no()?;
                o.end()?;
                let l = labels.get(asm, n);
                if exec && asm.offset(l).is_some() {
                    return unsup("jmp:backward-jump");
                }
                asm.jmp(l)
            }
            "nop" => r0!(nop),
            "bind" => {
                let n = o.label_no()?;
                o.end()?;
                let l = labels.get(asm, n);
                asm.bind_label(l)
            }
            "done" => {
                o.end()?;
                match mode {
                    Mode::Bytes => asm.int3(),
                    Mode::Exec { exit_done, .. } => asm.jmp(*exit_done),
                }
            }
            "call_trap" => {
                o.end()?;
                match mode {
                    Mode::Bytes => asm.call_rel32(0),
                    Mode::Exec { exit_trap, .. } => asm.jmp(*exit_trap),
                }
            }
            _ => return unsup(name),
        }
    }
    Ok(())
}

fn do_asm(text: &str) -> R<String> {
    let mut asm = AssemblerX64::new(false);
    emit_instrs(&mut asm, text, &Mode::Bytes)?;
    Ok(hex(&asm.finalize(1).code()))
}

// ------------------------------------------------------------------------------------------------
// native execution
// ------------------------------------------------------------------------------------------------

#[repr(C)]
struct Ctx {
    regs_in: [u64; 16],
    flags_in: u64,
    regs_out: [u64; 16],
    flags_out: u64,
    exit_code: u64,
    saved_rsp: u64,
}

const OFF_REGS_IN: i32 = 0;
const OFF_FLAGS_IN: i32 = 128;
const OFF_REGS_OUT: i32 = 136;
const OFF_FLAGS_OUT: i32 = 264;
const OFF_EXIT: i32 = 272;
const OFF_SAVED_RSP: i32 = 280;

const EXIT_DONE: u64 = 0;
const EXIT_TRAP: u64 = 1;
const EXIT_DE: u64 = 2;
const EXIT_SEGV: u64 = 3;
const EXIT_FALL: u64 = 4;

const CF: u64 = 1 << 0;
const PF: u64 = 1 << 2;
const AF: u64 = 1 << 4;
const ZF: u64 = 1 << 6;
const SF: u64 = 1 << 7;
const TF: u64 = 1 << 8;
const DF: u64 = 1 << 10;
const OF: u64 = 1 << 11;

const DATA_BASE: usize = 0x10_0000_0000;
const DATA_SIZE: usize = 64 * 1024;
const CODE_SIZE: usize = 64 * 1024;
const STACK_ROOM: usize = 192 * 1024; // free bytes below the context (it is rsp while the code under test runs)

// Addresses the signal handler needs (of the CURRENT code buffer / context); 0 = no native code running.
static CODE_LO: AtomicUsize = AtomicUsize::new(0);
static CODE_HI: AtomicUsize = AtomicUsize::new(0);
static ADDR_EXIT_DE: AtomicUsize = AtomicUsize::new(0);
static ADDR_EXIT_SEGV: AtomicUsize = AtomicUsize::new(0);
static ADDR_CTX: AtomicUsize = AtomicUsize::new(0);

extern "C" fn on_fault(sig: libc::c_int, _info: *mut libc::siginfo_t, uc: *mut libc::c_void) {
    unsafe {
        let uc = uc as *mut libc::ucontext_t;
        let gregs = &mut (*uc).uc_mcontext.gregs;
        let rip = gregs[libc::REG_RIP as usize] as usize;
        let lo = CODE_LO.load(Ordering::SeqCst);
        let hi = CODE_HI.load(Ordering::SeqCst);
        let target = if sig == libc::SIGFPE { &ADDR_EXIT_DE } else { &ADDR_EXIT_SEGV }.load(Ordering::SeqCst);
        if lo != 0 && rip >= lo && rip < hi && target != 0 {
            // resume at the exit of the current buffer; every other register (and rflags) keeps its value at the fault
            gregs[libc::REG_RIP as usize] = target as i64;
            gregs[libc::REG_RSP as usize] = ADDR_CTX.load(Ordering::SeqCst) as i64;
        } else {
            // not ours: default action on the re-executed fault
            libc::signal(sig, libc::SIG_DFL);
        }
    }
}

struct Machine {
    code: *mut u8,
    code_rwx: bool,
    data_ok: bool,
    ctx_buf: Vec<u8>,
    ctx: *mut Ctx,
    flags_base: u64,
}

impl Machine {
    fn new() -> Machine {
        unsafe {
            // alternate signal stack + handlers
            let ss_size = 64 * 1024;
            let ss_mem = libc::mmap(
                std::ptr::null_mut(),
                ss_size,
                libc::PROT_READ | libc::PROT_WRITE,
                libc::MAP_PRIVATE | libc::MAP_ANONYMOUS,
                -1,
                0,
            );
            assert!(ss_mem != libc::MAP_FAILED, "mmap sigaltstack");
            let ss = libc::stack_t { ss_sp: ss_mem, ss_flags: 0, ss_size };
            assert_eq!(libc::sigaltstack(&ss, std::ptr::null_mut()), 0, "sigaltstack");
            for sig in [libc::SIGFPE, libc::SIGSEGV, libc::SIGBUS] {
                let mut sa: libc::sigaction = std::mem::zeroed();
                sa.sa_sigaction = on_fault as extern "C" fn(libc::c_int, *mut libc::siginfo_t, *mut libc::c_void) as usize;
                sa.sa_flags = libc::SA_SIGINFO | libc::SA_ONSTACK;
                libc::sigemptyset(&mut sa.sa_mask);
                assert_eq!(libc::sigaction(sig, &sa, std::ptr::null_mut()), 0, "sigaction");
            }

            // code buffer: one mapping reused by every request
            let mut code_rwx = true;
            let mut code = libc::mmap(
                std::ptr::null_mut(),
                CODE_SIZE,
                libc::PROT_READ | libc::PROT_WRITE | libc::PROT_EXEC,
                libc::MAP_PRIVATE | libc::MAP_ANONYMOUS,
                -1,
                0,
            );
            if code == libc::MAP_FAILED {
                code_rwx = false; // W^X environment: toggle with mprotect per request
                code = libc::mmap(
                    std::ptr::null_mut(),
                    CODE_SIZE,
                    libc::PROT_READ | libc::PROT_WRITE,
                    libc::MAP_PRIVATE | libc::MAP_ANONYMOUS,
                    -1,
                    0,
                );
                assert!(code != libc::MAP_FAILED, "mmap code buffer");
            }

            // fixed data region
            let data = libc::mmap(
                DATA_BASE as *mut libc::c_void,
                DATA_SIZE,
                libc::PROT_READ | libc::PROT_WRITE,
                libc::MAP_PRIVATE | libc::MAP_ANONYMOUS | libc::MAP_FIXED_NOREPLACE,
                -1,
                0,
            );
            let data_ok = data as usize == DATA_BASE;
            if !data_ok && data != libc::MAP_FAILED {
                libc::munmap(data, DATA_SIZE); // old kernel ignoring MAP_FIXED_NOREPLACE
            }

            let mut ctx_buf = vec![0u8; STACK_ROOM + std::mem::size_of::<Ctx>() + 64];
            let p = ctx_buf.as_mut_ptr() as usize + STACK_ROOM;
            let ctx = ((p + 15) & !15) as *mut Ctx;

            let cur: u64;
            core::arch::asm!("pushfq", "pop {}", out(reg) cur);
            let flags_base = cur & !(CF | PF | AF | ZF | SF | OF | DF | TF);

            Machine { code: code as *mut u8, code_rwx, data_ok, ctx_buf, ctx, flags_base }
        }
    }

    /// prologue + instruction list + exits, all in ONE assembler so that dora-asm resolves the jumps to the exits.
    /// Returns the code and the offsets of exit_de / exit_segv.
    fn assemble(&self, text: &str) -> R<(Vec<u8>, u32, u32)> {
        let mut a = AssemblerX64::new(false);
        let exit_done = a.create_label();
        let exit_trap = a.create_label();
        let exit_de = a.create_label();
        let exit_segv = a.create_label();
        let tail = a.create_label();

        // extern "C" fn(ctx: *mut Ctx): rdi = ctx
        for r in [3u8, 5, 12, 13, 14, 15] {
            a.pushq_r(Register::new(r));
        }
        a.movq_ar(Address::offset(RDI, OFF_SAVED_RSP), RSP);
        a.movq_rr(RSP, RDI); // rsp = ctx from here on; the code under test never touches rsp
        // push qword [rsp+flags_in]; popfq
        a.emit_u8(0xFF);
        a.emit_u8(0xB4);
        a.emit_u8(0x24);
        a.emit_u32(OFF_FLAGS_IN as u32);
        a.emit_u8(0x9D);
        for r in 0..16u8 {
            if r != 4 {
                a.movq_ra(Register::new(r), Address::offset(RSP, OFF_REGS_IN + 8 * r as i32));
            }
        }

        emit_instrs(&mut a, text, &Mode::Exec { exit_done, exit_trap })?;

        // exits: `mov qword [rsp+exit_code], imm32` (no flag change), then the common tail
        let exit = |a: &mut AssemblerX64, lbl: Option<AsmLabel>, code: u64| {
            if let Some(l) = lbl {
                a.bind_label(l);
            }
            for b in [0x48u8, 0xC7, 0x84, 0x24] {
                a.emit_u8(b);
            }
            a.emit_u32(OFF_EXIT as u32);
            a.emit_u32(code as u32);
            a.jmp(tail);
        };
        exit(&mut a, None, EXIT_FALL); // guard: the list ran off its end
        exit(&mut a, Some(exit_done), EXIT_DONE);
        exit(&mut a, Some(exit_trap), EXIT_TRAP);
        exit(&mut a, Some(exit_de), EXIT_DE);
        exit(&mut a, Some(exit_segv), EXIT_SEGV);

        a.bind_label(tail);
        for r in 0..16u8 {
            if r != 4 {
                a.movq_ar(Address::offset(RSP, OFF_REGS_OUT + 8 * r as i32), Register::new(r));
            }
        }
        a.emit_u8(0x9C); // pushfq
        a.popq_r(RAX);
        a.movq_ar(Address::offset(RSP, OFF_FLAGS_OUT), RAX);
        a.movq_ra(RSP, Address::offset(RSP, OFF_SAVED_RSP));
        for r in [15u8, 14, 13, 12, 5, 3] {
            a.popq_r(Register::new(r));
        }
        a.retq();

        let de = a.offset(exit_de).unwrap();
        let segv = a.offset(exit_segv).unwrap();
        Ok((a.finalize(1).code(), de, segv)) // an unbound label panics here ("unbound label")
    }

    fn exec(&mut self, instrs: &str, regs: &str, flags: &str, mem: &str) -> R<String> {
        // parse everything first
        let mut rin = [0u64; 16];
        let mut n = 0;
        for t in regs.split(',') {
            let t = t.trim();
            if n >= 16 {
                return unsup("registers");
            }
            rin[n] = match u64::from_str_radix(t, 16) {
                Ok(v) => v,
                Err(_) => return unsup(format!("register-value:{}", t)),
            };
            n += 1;
        }
        if n != 16 {
            return unsup("registers");
        }
        let fl = flags.trim().as_bytes();
        if fl.len() != 5 || fl.iter().any(|c| *c != b'0' && *c != b'1') {
            return unsup("flags");
        }
        let mut fin = self.flags_base;
        for (c, bit) in fl.iter().zip([CF, ZF, SF, OF, PF]) {
            if *c == b'1' {
                fin |= bit;
            }
        }
        let mut stores: Vec<(usize, u64)> = Vec::new();
        let mem = mem.trim();
        if mem != "-" && !mem.is_empty() {
            for kv in mem.split(',') {
                let Some((k, v)) = kv.trim().split_once('=') else { return Err("!badmem".into()) };
                let (Ok(k), Ok(v)) = (u64::from_str_radix(k, 16), u64::from_str_radix(v, 16)) else {
                    return Err("!badmem".into());
                };
                let k = k as usize;
                if k < DATA_BASE || k > DATA_BASE + DATA_SIZE - 8 {
                    return Err("!badmem".into());
                }
                stores.push((k, v));
            }
        }
        if !self.data_ok {
            return Err("!nomem".into());
        }

        let (code, off_de, off_segv) = self.assemble(instrs)?;
        if code.len() > CODE_SIZE {
            return unsup("too-long");
        }

        unsafe {
            std::ptr::write_bytes(DATA_BASE as *mut u8, 0, DATA_SIZE);
            for (k, v) in &stores {
                std::ptr::write_unaligned(*k as *mut u64, *v);
            }
            if !self.code_rwx {
                assert_eq!(libc::mprotect(self.code as *mut _, CODE_SIZE, libc::PROT_READ | libc::PROT_WRITE), 0);
            }
            std::ptr::copy_nonoverlapping(code.as_ptr(), self.code, code.len());
            if !self.code_rwx {
                assert_eq!(libc::mprotect(self.code as *mut _, CODE_SIZE, libc::PROT_READ | libc::PROT_EXEC), 0);
            }

            let ctx = &mut *self.ctx;
            ctx.regs_in = rin;
            ctx.flags_in = fin;
            ctx.regs_out = [0; 16];
            ctx.flags_out = 0;
            ctx.exit_code = u64::MAX;
            ctx.saved_rsp = 0;

            let base = self.code as usize;
            ADDR_EXIT_DE.store(base + off_de as usize, Ordering::SeqCst);
            ADDR_EXIT_SEGV.store(base + off_segv as usize, Ordering::SeqCst);
            ADDR_CTX.store(self.ctx as usize, Ordering::SeqCst);
            CODE_HI.store(base + code.len(), Ordering::SeqCst);
            CODE_LO.store(base, Ordering::SeqCst);

            let f: extern "C" fn(*mut Ctx) = std::mem::transmute(self.code);
            f(self.ctx);

            CODE_LO.store(0, Ordering::SeqCst);
        }

        let ctx = unsafe { &*self.ctx };
        let exit = match ctx.exit_code {
            EXIT_DONE => "done".to_string(),
            EXIT_TRAP => format!("trap:{}", ctx.regs_out[7] as u32),
            EXIT_DE => "de".to_string(),
            EXIT_SEGV => "segv".to_string(),
            EXIT_FALL => "fall".to_string(),
            x => panic!("exit code {}", x),
        };
        let mut out = String::with_capacity(200);
        out.push_str(&exit);
        out.push(' ');
        for r in 0..16 {
            if r > 0 {
                out.push(',');
            }
            let v = if r == 4 { rin[4] } else { ctx.regs_out[r] };
            out.push_str(&format!("{:x}", v));
        }
        out.push(' ');
        for bit in [CF, ZF, SF, OF, PF] {
            out.push(if ctx.flags_out & bit != 0 { '1' } else { '0' });
        }
        Ok(out)
    }
}

// ------------------------------------------------------------------------------------------------
// the REAL macro assembler
// ------------------------------------------------------------------------------------------------

mod real {
    use super::{R, unsup};
    use crate::masm::{CondCode, MacroAssembler};
    use dora_bytecode::Location;
    use dora_compiler::cpu::Reg;
    use dora_compiler::{MachineMode, Trap};

    struct Args<'a> {
        name: &'a str,
        toks: std::str::SplitWhitespace<'a>,
    }

    impl<'a> Args<'a> {
        fn next(&mut self) -> R<&'a str> {
            match self.toks.next() {
                Some(t) => Ok(t),
                None => unsup(format!("{}:missing-argument", self.name)),
            }
        }
        fn end(&mut self) -> R<()> {
            match self.toks.next() {
                None => Ok(()),
                Some(t) => unsup(format!("{}:extra-argument:{}", self.name, t)),
            }
        }
        fn mode(&mut self) -> R<MachineMode> {
            Ok(match self.next()? {
                "Int8" => MachineMode::Int8,
                "Int32" => MachineMode::Int32,
                "Int64" => MachineMode::Int64,
                "Ptr" => MachineMode::Ptr,
                t => return unsup(format!("{}:mode:{}", self.name, t)),
            })
        }
        fn reg(&mut self) -> R<Reg> {
            let t = self.next()?;
            match t.parse::<u8>() {
                Ok(n) if n < 16 => Ok(Reg(n)),
                _ => unsup(format!("{}:register:{}", self.name, t)),
            }
        }
        fn num<T: std::str::FromStr>(&mut self) -> R<T> {
            let t = self.next()?;
            match t.parse::<T>() {
                Ok(v) => Ok(v),
                Err(_) => unsup(format!("{}:immediate:{}", self.name, t)),
            }
        }
        fn cond(&mut self) -> R<CondCode> {
            Ok(match self.next()? {
                "Equal" => CondCode::Equal,
                "NotEqual" => CondCode::NotEqual,
                "Less" => CondCode::Less,
                "LessEq" => CondCode::LessEq,
                "Greater" => CondCode::Greater,
                "GreaterEq" => CondCode::GreaterEq,
                "UnsignedGreater" => CondCode::UnsignedGreater,
                "UnsignedGreaterEq" => CondCode::UnsignedGreaterEq,
                "UnsignedLess" => CondCode::UnsignedLess,
                "UnsignedLessEq" => CondCode::UnsignedLessEq,
                "Zero" => CondCode::Zero,
                "NonZero" => CondCode::NonZero,
                t => return unsup(format!("{}:cond:{}", self.name, t)),
            })
        }
        fn trap(&mut self) -> R<Trap> {
            Ok(match self.next()? {
                "DIV0" => Trap::DIV0,
                "ASSERT" => Trap::ASSERT,
                "INDEX_OUT_OF_BOUNDS" => Trap::INDEX_OUT_OF_BOUNDS,
                "NIL" => Trap::NIL,
                "CAST" => Trap::CAST,
                "OOM" => Trap::OOM,
                "STACK_OVERFLOW" => Trap::STACK_OVERFLOW,
                "ILLEGAL" => Trap::ILLEGAL,
                "OVERFLOW" => Trap::OVERFLOW,
                "SHIFT" => Trap::SHIFT,
                t => return unsup(format!("{}:trap:{}", self.name, t)),
            })
        }
    }

    pub fn run(text: &str) -> R<Vec<u8>> {
        let loc = Location::new(1, 1);
        let mut m = MacroAssembler::new();
        for call in text.split(';') {
            let mut toks = call.split_whitespace();
            let Some(name) = toks.next() else { continue };
            let mut a = Args { name, toks };

            // mode dest lhs rhs
            macro_rules! m3 {
                ($f:ident) => {{
                    let (mode, d, l, r) = (a.mode()?, a.reg()?, a.reg()?, a.reg()?);
                    a.end()?;
                    m.$f(mode, d, l, r)
                }};
            }
            // mode dest lhs rhs + location
            macro_rules! m3loc {
                ($f:ident) => {{
                    let (mode, d, l, r) = (a.mode()?, a.reg()?, a.reg()?, a.reg()?);
                    a.end()?;
                    m.$f(mode, d, l, r, loc)
                }};
            }
            // mode dest overflow lhs rhs
            macro_rules! m4 {
                ($f:ident) => {{
                    let (mode, d, o, l, r) = (a.mode()?, a.reg()?, a.reg()?, a.reg()?, a.reg()?);
                    a.end()?;
                    m.$f(mode, d, o, l, r)
                }};
            }
            macro_rules! m4loc {
                ($f:ident) => {{
                    let (mode, d, o, l, r) = (a.mode()?, a.reg()?, a.reg()?, a.reg()?, a.reg()?);
                    a.end()?;
                    m.$f(mode, d, o, l, r, loc)
                }};
            }
            // mode dest src
            macro_rules! m2 {
                ($f:ident) => {{
                    let (mode, d, s) = (a.mode()?, a.reg()?, a.reg()?);
                    a.end()?;
                    m.$f(mode, d, s)
                }};
            }

            match name {
                "int_add" => m3!(int_add),
                "int_sub" => m3!(int_sub),
                "int_mul" => m3!(int_mul),
                "int_and" => m3!(int_and),
                "int_or" => m3!(int_or),
                "int_xor" => m3!(int_xor),
                "int_shl" => m3!(int_shl),
                "int_shr" => m3!(int_shr),
                "int_sar" => m3!(int_sar),
                "int_add_checked" => m3loc!(int_add_checked),
                "int_sub_checked" => m3loc!(int_sub_checked),
                "int_mul_checked" => m3loc!(int_mul_checked),
                "int_div_checked" => m3loc!(int_div_checked),
                "int_mod_checked" => m3loc!(int_mod_checked),
                "int_add_overflowing" => m4!(int_add_overflowing),
                "int_sub_overflowing" => m4!(int_sub_overflowing),
                "int_mul_overflowing" => m4!(int_mul_overflowing),
                "int_div_overflowing" => m4loc!(int_div_overflowing),
                "int_mod_overflowing" => m4loc!(int_mod_overflowing),
                "int_neg" => m2!(int_neg),
                "int_not" => m2!(int_not),
                "int_neg_checked" => {
                    let (mode, d, s) = (a.mode()?, a.reg()?, a.reg()?);
                    a.end()?;
                    m.int_neg_checked(mode, d, s, loc)
                }
                "int_neg_overflowing" => {
                    let (mode, d, o, s) = (a.mode()?, a.reg()?, a.reg()?, a.reg()?);
                    a.end()?;
                    m.int_neg_overflowing(mode, d, o, s)
                }
                "bool_not" => {
                    let (d, s) = (a.reg()?, a.reg()?);
                    a.end()?;
                    m.bool_not(d, s)
                }
                "int_shr_imm" => {
                    let (mode, d, l, sh) = (a.mode()?, a.reg()?, a.reg()?, a.num::<u32>()?);
                    a.end()?;
                    m.int_shr_imm(mode, d, l, sh)
                }
                "check_index_out_of_bounds" => {
                    let (arr, idx) = (a.reg()?, a.reg()?);
                    a.end()?;
                    m.check_index_out_of_bounds(loc, arr, idx)
                }
                "cmp_reg" => {
                    let (mode, l, r) = (a.mode()?, a.reg()?, a.reg()?);
                    a.end()?;
                    m.cmp_reg(mode, l, r)
                }
                "cmp_reg_imm" => {
                    let (mode, l, imm) = (a.mode()?, a.reg()?, a.num::<i32>()?);
                    a.end()?;
                    m.cmp_reg_imm(mode, l, imm)
                }
                "set" => {
                    let (d, c) = (a.reg()?, a.cond()?);
                    a.end()?;
                    m.set(d, c)
                }
                "determine_array_size" => {
                    let (d, l, es, hdr) = (a.reg()?, a.reg()?, a.num::<i32>()?, a.next()?);
                    a.end()?;
                    let hdr = match hdr {
                        "true" => true,
                        "false" => false,
                        t => return unsup(format!("{}:bool:{}", name, t)),
                    };
                    m.determine_array_size(d, l, es, hdr)
                }
                "compute_remembered_bit" => {
                    let (d, sz) = (a.reg()?, a.reg()?);
                    a.end()?;
                    m.compute_remembered_bit(d, sz)
                }
                "cmp_ordering" => m3!(cmp_ordering),
                "extend_int_long" => {
                    let (d, s) = (a.reg()?, a.reg()?);
                    a.end()?;
                    m.extend_int_long(d, s)
                }
                "extend_byte" => m2!(extend_byte),
                "copy_reg" => m2!(copy_reg),
                "load_int_const" => {
                    let (mode, d, imm) = (a.mode()?, a.reg()?, a.num::<i64>()?);
                    a.end()?;
                    m.load_int_const(mode, d, imm)
                }
                "load_true" => {
                    let d = a.reg()?;
                    a.end()?;
                    m.load_true(d)
                }
                "load_false" => {
                    let d = a.reg()?;
                    a.end()?;
                    m.load_false(d)
                }
                "bailout_if" => {
                    let (c, t) = (a.cond()?, a.trap()?);
                    a.end()?;
                    m.bailout_if(c, t, loc)
                }
                "check_shift_amount" => {
                    // MIRROR, not the real function: `CannonCodeGen::check_shift_amount` (codegen.rs) is a private
                    // method of the code generator; these are exactly the two MacroAssembler calls it makes.
                    let (reg, mode) = (a.reg()?, a.mode()?);
                    a.end()?;
                    let max_shift = if mode == MachineMode::Int64 { 64 } else { 32 };
                    m.cmp_reg_imm(MachineMode::Int32, reg, max_shift);
                    m.bailout_if(CondCode::UnsignedGreaterEq, Trap::SHIFT, loc)
                }
                _ => return unsup(name),
            }
        }
        m.debug(); // int3: end-of-body marker (the bail-out stubs follow it)
        Ok(m.data())
    }
}

// ------------------------------------------------------------------------------------------------
// protocol
// ------------------------------------------------------------------------------------------------

fn handle(machine: &mut Machine, line: &str) -> String {
    let fields: Vec<&str> = line.split('|').map(|f| f.trim()).collect();
    let mut head = fields[0].split_whitespace();
    let kind = head.next().unwrap_or("");
    let tag = head.next().unwrap_or("?");
    let res: R<String> = match (kind, fields.len()) {
        ("asm", 2) => do_asm(fields[1]),
        ("exec", 5) => machine.exec(fields[1], fields[2], fields[3], fields[4]),
        ("real", 2) => real::run(fields[1]).map(|b| hex(&b)),
        ("asm" | "exec" | "real", _) => unsup(format!("{}:field-count", kind)),
        _ => unsup(format!("kind:{}", kind)),
    };
    match res {
        Ok(s) => format!("{} {}", tag, s),
        Err(e) => format!("{} {}", tag, e),
    }
}

fn regs16(set: &[(usize, u64)]) -> String {
    let mut r = [0u64; 16];
    for (i, v) in set {
        r[*i] = *v;
    }
    r.iter().map(|v| format!("{:x}", v)).collect::<Vec<_>>().join(",")
}

/// `?` in the expected line matches any single character (idiv leaves the flags undefined).
fn matches(expected: &str, got: &str) -> bool {
    expected.len() == got.len() && expected.bytes().zip(got.bytes()).all(|(e, g)| e == b'?' || e == g)
}

fn selftest() -> i32 {
    let mut m = Machine::new();
    let big = 0x7fff_ffff_ffff_ffffu64;
    let min = 0x8000_0000_0000_0000u64;
    let d = DATA_BASE as u64;
    let cases: Vec<(String, String)> = vec![
        (
            format!("exec add-of | addq_rr 0 13;done | {} | 00000 | -", regs16(&[(0, big), (13, 1)])),
            format!("add-of done {} 00111", regs16(&[(0, min), (13, 1)])),
        ),
        (
            format!(
                "exec of-trap | addq_rr 0 13;jcc 0 L1;done;bind L1;movl_ri 7 8;call_trap | {} | 00000 | -",
                regs16(&[(0, big), (13, 1), (7, 0xffff_ffff_0000_0000)])
            ),
            format!("of-trap trap:8 {} 00111", regs16(&[(0, min), (13, 1), (7, 8)])),
        ),
        (
            format!(
                "exec no-of | addq_rr 0 13;jcc 0 L1;done;bind L1;movl_ri 7 8;call_trap | {} | 11111 | -",
                regs16(&[(0, 1), (13, 1), (4, 0x1234)])
            ),
            format!("no-of done {} 00000", regs16(&[(0, 2), (13, 1), (4, 0x1234)])),
        ),
        (
            // #DE: state at the fault = after cqo (rdx := sign of rax), before the idiv; flags untouched by cqo
            format!("exec de | cqo;idivq_r 13;done | {} | 10101 | -", regs16(&[(0, 9), (2, 5), (13, 0), (6, 77)])),
            format!("de de {} 10101", regs16(&[(0, 9), (2, 0), (13, 0), (6, 77)])),
        ),
        (
            format!("exec de-min | cqo;idivq_r 13;done | {} | 00000 | -", regs16(&[(0, min), (13, u64::MAX)])),
            format!("de-min de {} 00000", regs16(&[(0, min), (2, u64::MAX), (13, u64::MAX)])),
        ),
        (
            format!("exec div | cqo;idivq_r 13;done | {} | 00000 | -", regs16(&[(0, 9), (2, 5), (13, 2)])),
            format!("div done {} ?????", regs16(&[(0, 4), (2, 1), (13, 2)])),
        ),
        (
            format!("exec divl | cdq;idivl_r 13;done | {} | 00000 | -", regs16(&[(0, 0xffff_ffff_ffff_fff9), (2, 5), (13, 2)])),
            format!("divl done {} ?????", regs16(&[(0, 0xffff_fffd), (2, 0xffff_ffff), (13, 2)])),
        ),
        (
            format!(
                "exec load | movq_ra 7 0 - 8;done | {} | 01000 | {:x}=deadbeef00000001",
                regs16(&[(0, d)]),
                d + 8
            ),
            format!("load done {} 01000", regs16(&[(0, d), (7, 0xdeadbeef00000001)])),
        ),
        (
            format!(
                "exec load-arr | movq_ra 7 0 13*4 16;movq_ra 6 0 - 0;done | {} | 00000 | {:x}=1234,{:x}=5",
                regs16(&[(0, d), (13, 4)]),
                d + 32,
                d
            ),
            format!("load-arr done {} 00000", regs16(&[(0, d), (13, 4), (7, 0x1234), (6, 5)])),
        ),
        (
            format!("exec lea | lea 0 - 13*8 23;lea 1 0 13*2 -1;done | {} | 00000 | -", regs16(&[(13, 2)])),
            format!("lea done {} 00000", regs16(&[(0, 0x27), (1, 0x2a), (13, 2)])),
        ),
        (
            format!(
                "exec setcc | cmpq_rr 0 1;setcc_r 12 2;cmovq 12 3 1;cmovl 15 5 1;done | {} | 00000 | -",
                regs16(&[(0, 1), (1, 2), (2, 0xff00), (3, 9), (5, 0xffff_ffff_0000_0007)])
            ),
            // 1-2: CF=1 ZF=0 SF=1 OF=0 PF=1 (0xff); setl dl = 1; cmovl taken; cmovg (32-bit) not taken but zero-extends
            format!("setcc done {} 10101", regs16(&[(0, 1), (1, 2), (2, 0xff01), (3, 2), (5, 7)])),
        ),
        (
            format!("exec segv | movq_ra 7 0 - 8;done | {} | 00000 | -", regs16(&[(7, 3)])),
            format!("segv segv {} 00000", regs16(&[(7, 3)])),
        ),
        (
            format!("exec fall | nop | {} | 00000 | -", regs16(&[])),
            format!("fall fall {} 00000", regs16(&[])),
        ),
        (
            format!("exec badmem | done | {} | 00000 | {:x}=1", regs16(&[]), d + DATA_SIZE as u64 - 7),
            "badmem !badmem".to_string(),
        ),
        (
            format!("exec unbound | jmp L3;done | {} | 00000 | -", regs16(&[])),
            "!panic unbound label".to_string(),
        ),
        (
            format!("exec back | bind L0;jmp L0;done | {} | 00000 | -", regs16(&[])),
            "back !unsupported jmp:backward-jump".to_string(),
        ),
        (
            format!("exec rsp | addq_rr 4 0;done | {} | 00000 | -", regs16(&[])),
            "rsp !unsupported addq_rr:rsp".to_string(),
        ),
        ("asm a1 | addq_rr 0 13;done".to_string(), "a1 4c01e8cc".to_string()),
        (
            "asm a2 | jcc 0 L1;done;bind L1;movl_ri 7 8;call_trap".to_string(),
            "a2 0f8001000000ccbf08000000e800000000".to_string(),
        ),
        ("asm a3 | frob 1".to_string(), "a3 !unsupported frob".to_string()),
        ("asm a4 | addq_ri 0 4294967296".to_string(), "!panic ????????????????????????????????".to_string()),
        ("real r1 | int_add Int64 0 0 13".to_string(), "r1 4c01e8cc".to_string()),
        (
            // add; jo bailout; int3 | bailout: mov edi, 8 (Trap::OVERFLOW); call rel32; nop
            "real r2 | int_add_checked Int64 0 0 13".to_string(),
            "r2 4c01e80f8001000000ccbf08000000e80000000090".to_string(),
        ),
        (
            // mirror of check_shift_amount: cmp ecx, 64; jae bailout; int3 | mov edi, 9 (Trap::SHIFT); call; nop
            "real r3 | check_shift_amount 1 Int64".to_string(),
            "r3 83f9400f8301000000ccbf09000000e80000000090".to_string(),
        ),
        (
            "real r4 | int_div_overflowing Int64 0 1 0 13".to_string(),
            "!panic dest and lhs must not alias".to_string(),
        ),
    ];
    std::panic::set_hook(Box::new(|_| {}));
    let mut bad = 0;
    for (req, want) in &cases {
        let got = hutil::guarded(&mut || handle(&mut m, req));
        let ok = if want.starts_with("!panic ?") { got.starts_with("!panic") } else { matches(want, &got) };
        if ok {
            println!("ok       {}", got);
        } else {
            bad += 1;
            println!("MISMATCH request:  {}", req);
            println!("         expected: {}", want);
            println!("         got:      {}", got);
        }
    }
    println!("{} cases, {} mismatches", cases.len(), bad);
    if bad == 0 { 0 } else { 1 }
}

fn main() {
    let args: Vec<String> = std::env::args().collect();
    match args.get(1).map(|s| s.as_str()) {
        Some("run") => {
            let mut m = Machine::new();
            hutil::serve(args.get(2).map(|s| s.as_str()), &mut |l| handle(&mut m, l));
        }
        Some("selftest") => std::process::exit(selftest()),
        _ => {
            eprintln!("usage: h_c01m run [file] | selftest");
            std::process::exit(2);
        }
    }
}
